#!/usr/bin/env python3
"""CLI:  python3-vt check.py <Cxx>|all [--tier quick|thorough] [--repo DIR]
        python3-vt check.py --replay replay/<file>.json

exit 0: every rule instance held (known findings print KNOWN-FINDING lines)
exit 1: VIOLATION property=<id> replay=<path>
exit 2: ANALYSIS-ERROR (an anchor vanished, an idiom is not recognised, a minimum count is not met)
"""
import importlib
import json
import os
import sys
import time
import traceback

HERE = os.path.dirname(os.path.abspath(__file__))
sys.path.insert(0, HERE)

from sa.core import Ctx, Report, finish, unlisted_violations  # noqa: E402
from sa.model import AnalysisError  # noqa: E402

ALL = ["C%02d" % i for i in range(1, 21)]


def run_one(pid, tier, repo, seed):
    t0 = time.time()
    rep = None
    try:
        ctx = Ctx(repo, tier)
        mod = importlib.import_module("sa.props.%s" % pid.lower())
        rep = Report(pid, ctx)
        mod.check(ctx, rep)
        if tier == "thorough" and hasattr(mod, "thorough"):
            mod.thorough(ctx, rep, seed)
        if tier == "thorough" and os.environ.get("VERIF_NOEVIDENCE") != "1":
            selftest(pid, repo, rep, seed)
        return finish(rep, tier, seed, t0)
    except AnalysisError as e:
        # an anchor vanished.  If rule instances were already found broken on the way (and they are not listed
        # findings), they are the answer: report them; the lost anchor is recorded as a note.
        if rep is not None and unlisted_violations(rep):
            rep.note("analysis stopped early: %s" % e)
            print("NOTE property=%s analysis stopped early after finding violations: %s" % (pid, e))
            return finish(rep, tier, seed, t0)
        print("ANALYSIS-ERROR property=%s %s" % (pid, e))
        return 2
    except Exception as e:  # never let a traceback look like a violation
        traceback.print_exc()
        print("ANALYSIS-ERROR property=%s internal error: %s: %s" % (pid, type(e).__name__, e))
        return 2


def _variant(args):
    """apply one stored diff to a scratch copy of the analysed tree and run one property's quick check on it"""
    import shutil
    import subprocess
    import tempfile
    pid, repo, diff = args
    t = tempfile.mkdtemp(prefix="verif_selftest_")
    try:
        subprocess.run(["rsync", "-a", "--exclude", ".git", "--exclude", "__pycache__", "--exclude", "tests", "--exclude", "docs", repo.rstrip("/") + "/", t + "/"], check=True)
        r = subprocess.run(["patch", "-p1", "-s", "-f", "-i", diff], cwd=t, capture_output=True, text=True)
        if r.returncode != 0:
            return diff, "inapplicable", []
        env = dict(os.environ, VERIF_REPO=t, VERIF_NOEVIDENCE="1", VERIF_TIER="quick")
        env.pop("VERIF_ONLY", None)
        r = subprocess.run([sys.executable, os.path.join(HERE, "check.py"), pid, "--tier", "quick"], env=env, capture_output=True, text=True)
        lines = r.stdout.splitlines()
        msgs = [lines[i - 1][:240] for i, l in enumerate(lines) if l.startswith("VIOLATION") and i > 0] + [l[:240] for l in lines if l.startswith("ANALYSIS-ERROR")]
        return diff, {0: "silent", 1: "violation", 2: "analysis-error"}.get(r.returncode, "rc%d" % r.returncode), msgs
    finally:
        shutil.rmtree(t, ignore_errors=True)


def selftest(pid, repo, rep, seed):
    """thorough tier: the checker is tested both ways on scratch copies of the tree under analysis (removed again):
    every stored breaking change for this property (seeded/<pid>-*/patch.diff, selftest/breaking/<pid>-*.diff) must make this check report a
    violation, every stored behaviour-preserving refactoring (selftest/refactor/*.diff) must leave it silent.
    The verdict on the analysed tree never depends on this; outcomes are reported as notes and in the evidence.
    Skipped when the tree itself has violations (a variant of a broken tree proves nothing)."""
    import glob
    from concurrent.futures import ThreadPoolExecutor
    from sa.core import load_known
    known = [(k.get("rule"), k.get("construct")) for k in load_known().get("known", []) if k.get("property") == pid]
    if any((not o.ok) and (o.rule, o.key) not in known for o in rep.obs):
        rep.note("self-test skipped: the analysed tree has violations of its own")
        return
    breaking = sorted(glob.glob(os.path.join(HERE, "seeded", pid + "-*", "patch.diff"))) + sorted(glob.glob(os.path.join(HERE, "selftest", "breaking", pid + "-*.diff")))
    preserving = sorted(glob.glob(os.path.join(HERE, "selftest", "refactor", "*.diff")))
    jobs = [(pid, repo, d) for d in breaking + preserving]
    res = {}
    with ThreadPoolExecutor(int(os.environ.get("VERIF_JOBS", "16"))) as ex:
        for diff, outcome, msgs in ex.map(_variant, jobs):
            res[diff] = (outcome, msgs)
    fired = [d for d in breaking if res[d][0] == "violation"]
    missed = [d for d in breaking if res[d][0] in ("silent",)]
    quiet = [d for d in preserving if res[d][0] == "silent"]
    loud = [d for d in preserving if res[d][0] in ("violation", "analysis-error")]
    skipped = [d for d in breaking + preserving if res[d][0] == "inapplicable"]
    rel = lambda d: os.path.relpath(d, HERE)  # noqa: E731
    rep.selftest = {
        "breaking_variants": len(breaking), "breaking_detected": len(fired), "breaking_missed": [rel(d) for d in missed],
        "breaking_other_outcome": [{"diff": rel(d), "outcome": res[d][0], "messages": res[d][1][:2]} for d in breaking if res[d][0] not in ("violation", "silent", "inapplicable")],
        "preserving_variants": len(preserving), "preserving_silent": len(quiet), "preserving_alarmed": [{"diff": rel(d), "messages": res[d][1][:3]} for d in loud],
        "inapplicable_on_this_tree": [rel(d) for d in skipped],
        "samples": [{"variant": rel(d), "outcome": res[d][0], "first_message": (res[d][1] or [""])[0]} for d in (breaking + preserving[:4])],
    }
    rep.note("self-test: %d/%d stored breaking changes detected, %d/%d behaviour-preserving refactorings silent, %d not applicable to this tree" % (len(fired), len(breaking), len(quiet), len(preserving), len(skipped)))
    for d in missed:
        print("SELFTEST-WARNING property=%s stored breaking change %s is not detected on this tree" % (pid, rel(d)))
    for d in loud:
        print("SELFTEST-WARNING property=%s behaviour-preserving refactoring %s raises: %s" % (pid, rel(d), (res[d][1] or ["?"])[0]))


def main(argv):
    tier = os.environ.get("VERIF_TIER", "quick")
    repo = os.environ.get("VERIF_REPO", "/repo")
    seed = int(os.environ.get("VERIF_SEED", "0") or 0)
    pids = []
    replay = None
    i = 0
    while i < len(argv):
        a = argv[i]
        if a == "--tier":
            tier = argv[i + 1]
            i += 2
        elif a == "--repo":
            repo = argv[i + 1]
            i += 2
        elif a == "--replay":
            replay = argv[i + 1]
            i += 2
        elif a == "all":
            pids = list(ALL)
            i += 1
        else:
            pids.append(a)
            i += 1
    if tier not in ("quick", "thorough"):
        print("ANALYSIS-ERROR unknown tier %r" % tier)
        return 2
    if replay:
        with open(replay if os.path.isabs(replay) else os.path.join(HERE, replay)) as fh:
            r = json.load(fh)
        print("replaying %s rule %s at %s" % (r["property"], r["rule"], r["construct"]))
        print("rule: %s" % r.get("rule_text", ""))
        for line in r.get("trace", []):
            print("   " + line)
        os.environ["VERIF_ONLY"] = json.dumps({"rule": r["rule"], "construct": r["construct"]})
        return run_one(r["property"], tier, repo, seed)
    if not pids:
        print(__doc__)
        return 2
    rc = 0
    for pid in pids:
        r = run_one(pid, tier, repo, seed)
        rc = max(rc, r)
    return rc


if __name__ == "__main__":
    sys.exit(main(sys.argv[1:]))
