#!/usr/bin/env python3
"""CLI:  python3-vt check.py <Cxx>|all [--tier quick|thorough] [--repo DIR]
        python3-vt check.py --replay replay/<file>.json

exit 0: every rule instance held (known findings print KNOWN-FINDING lines)
exit 1: VIOLATION property=<id> replay=<path>
exit 2: ANALYSIS-ERROR (an anchor vanished, an idiom is not recognised, a minimum count is not met)
"""
import importlib
import json
import os
import sys
import time
import traceback

HERE = os.path.dirname(os.path.abspath(__file__))
sys.path.insert(0, HERE)

from sa.core import Ctx, Report, finish  # noqa: E402
from sa.model import AnalysisError  # noqa: E402

ALL = ["C%02d" % i for i in range(1, 21)]


def run_one(pid, tier, repo, seed):
    t0 = time.time()
    try:
        ctx = Ctx(repo, tier)
        mod = importlib.import_module("sa.props.%s" % pid.lower())
        rep = Report(pid, ctx)
        mod.check(ctx, rep)
        if tier == "thorough" and hasattr(mod, "thorough"):
            mod.thorough(ctx, rep, seed)
        return finish(rep, tier, seed, t0)
    except AnalysisError as e:
        print("ANALYSIS-ERROR property=%s %s" % (pid, e))
        return 2
    except Exception as e:  # never let a traceback look like a violation
        traceback.print_exc()
        print("ANALYSIS-ERROR property=%s internal error: %s: %s" % (pid, type(e).__name__, e))
        return 2


def main(argv):
    tier = os.environ.get("VERIF_TIER", "quick")
    repo = os.environ.get("VERIF_REPO", "/repo")
    seed = int(os.environ.get("VERIF_SEED", "0") or 0)
    pids = []
    replay = None
    i = 0
    while i < len(argv):
        a = argv[i]
        if a == "--tier":
            tier = argv[i + 1]
            i += 2
        elif a == "--repo":
            repo = argv[i + 1]
            i += 2
        elif a == "--replay":
            replay = argv[i + 1]
            i += 2
        elif a == "all":
            pids = list(ALL)
            i += 1
        else:
            pids.append(a)
            i += 1
    if tier not in ("quick", "thorough"):
        print("ANALYSIS-ERROR unknown tier %r" % tier)
        return 2
    if replay:
        with open(replay if os.path.isabs(replay) else os.path.join(HERE, replay)) as fh:
            r = json.load(fh)
        print("replaying %s rule %s at %s" % (r["property"], r["rule"], r["construct"]))
        print("rule: %s" % r.get("rule_text", ""))
        for line in r.get("trace", []):
            print("   " + line)
        os.environ["VERIF_ONLY"] = json.dumps({"rule": r["rule"], "construct": r["construct"]})
        return run_one(r["property"], tier, repo, seed)
    if not pids:
        print(__doc__)
        return 2
    rc = 0
    for pid in pids:
        r = run_one(pid, tier, repo, seed)
        rc = max(rc, r)
    return rc


if __name__ == "__main__":
    sys.exit(main(sys.argv[1:]))
