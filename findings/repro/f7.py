import sys, time, threading
sys.path.insert(0,'/tmp/repro/stub')
import prometheus_client as pc
from concurrent.futures import Future, Executor
from more_executors import Executors
from more_executors.retry import RetryPolicy
class Never(Executor):
    def submit(self, fn,*a,**k): return Future()
    def shutdown(self, wait=True, **kw): pass
# throttle: cancel while queued
ex=Executors.with_throttle(Never(), 0, name='t')
f=ex.submit(lambda:1); time.sleep(0.2)
assert f.cancel()
tq=pc.REG['throttle_queue'].values
# retry: cancel between retries
class P(RetryPolicy):
    def should_retry(self, a, f): return True
    def sleep_time(self, a, f): return 1000
rex=Executors.sync(name='r').with_retry(P(), name='r')
g=rex.submit(lambda:1); time.sleep(0.3)
assert g.cancel()
rq=pc.REG['retry_queue'].values
print("F7", tq, rq, len(rex._jobs))
ok = all(v==0 for v in tq.values()) and all(v==0 for v in rq.values())
sys.exit(0 if ok else 1)
