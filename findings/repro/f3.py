import sys, time, threading
from concurrent.futures import Future, Executor, wait
from more_executors import Executors
from more_executors.futures import f_map, f_nocancel, f_proxy, f_flat_map, f_return
bad=[]
def check(name, out, expect_cancelled=True):
    done,_=wait([out], 1.0)
    if not done: bad.append((name,'pending')); return
    if expect_cancelled and not out.cancelled(): bad.append((name,'not cancelled'))
# 1 f_map over a future cancelled directly
for name,mk in [('f_map',lambda f:f_map(f,lambda x:x)),('f_nocancel',f_nocancel),('f_proxy',f_proxy)]:
    inp=Future(); out=mk(inp); cbs=[]
    out.add_done_callback(cbs.append)
    inp.cancel()
    check(name,out)
    if len(cbs)!=1: bad.append((name,'callbacks',len(cbs)))
# flat_map stage 2
inner=Future(); out=f_flat_map(f_return(1), lambda x: inner); inner.cancel(); check('flat_map stage2', out)
class Pending(Executor):
    def __init__(self): self.fs=[]
    def submit(self, fn,*a,**k):
        f=Future(); self.fs.append(f); return f
    def shutdown(self, wait=True, **kw): pass
# timeout under map / retry / poll / throttle
for name,chain in [('timeout.map',lambda e:e.with_map(lambda x:x)),
                   ('timeout.retry',lambda e:e.with_retry()),
                   ('timeout.poll',lambda e:e.with_poll(lambda ds: None)),
                   ('timeout.throttle',lambda e:e.with_throttle(2))]:
    p=Pending(); ex=chain(Executors.with_timeout(p, 0.1))
    out=ex.submit(lambda:1)
    time.sleep(0.5)
    check(name,out)
    if name=='timeout.retry':
        time.sleep(0.2)
        if len(ex._jobs): bad.append((name,'job leaked',len(ex._jobs)))
# own cancel still works, exactly one callback, cancel returns True
inp=Future(); out=f_map(inp,lambda x:x); cbs=[]; out.add_done_callback(cbs.append)
r=out.cancel()
if not (r is True and out.cancelled() and inp.cancelled() and len(cbs)==1): bad.append(('own cancel',r,out,inp,len(cbs)))
if out.cancel() is not True: bad.append(('second cancel',))
# nocancel own cancel still False and does not cancel
inp=Future(); out=f_nocancel(inp)
if out.cancel() is not False or inp.cancelled() or out.done(): bad.append(('nocancel own',))
print("F3",bad); sys.exit(1 if bad else 0)
