# F1: nested submit on the same executor from a running callable
import threading, sys
from more_executors import Executors
res=[]
def go():
    ex=Executors.sync()
    f=ex.submit(lambda: ex.submit(lambda: 7).result())
    res.append(f.result())
t=threading.Thread(target=go,daemon=True); t.start(); t.join(3)
print("F1", "OK" if res==[7] else "HANG")
sys.exit(0 if res==[7] else 1)
