import sys
from concurrent.futures import ThreadPoolExecutor
from more_executors import Executors
# F17 (C01): "its callable is invoked with exactly the submitted arguments".  A callable that takes a keyword
# argument called `fn` (or `timeout`, `retry_policy`) can be submitted to a ThreadPoolExecutor, to a map / poll /
# cancel_on_shutdown layer -- but not to the sync executor nor through a throttle, retry or timeout layer, whose
# submit() names its own parameters `fn` / `timeout` / `retry_policy` next to **kwargs.
def call(x, fn=None, timeout=None, retry_policy=None):
    return (x, fn, timeout, retry_policy)
want = (1, "F", None, None)
bad = []
with ThreadPoolExecutor() as tp:
    assert tp.submit(call, 1, fn="F").result() == want          # the standard library accepts it
stacks = {
    "map": lambda: Executors.thread_pool().with_map(lambda v: v),
    "sync": lambda: Executors.sync(),
    "throttle": lambda: Executors.thread_pool().with_throttle(2),
    "retry": lambda: Executors.thread_pool().with_retry(),
    "timeout": lambda: Executors.thread_pool().with_timeout(30),
}
for name, mk in stacks.items():
    ex = mk()
    try:
        got = ex.submit(call, 1, fn="F").result(10)
        if got != want:
            bad.append((name, got))
    except TypeError as e:
        bad.append((name, "TypeError: %s" % e))
    finally:
        ex.shutdown(True)
print("F17", bad)
sys.exit(1 if bad else 0)
