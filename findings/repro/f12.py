import sys
from more_executors.futures import f_or, f_and, f_return, f_map
a=f_map(f_return(0))   # library future, done, falsy
b=f_return(5)
try:
    r=f_or(a,a,b).result(2); ok=(r==5)
except Exception as e:
    r=repr(e); ok=False
print("F12",r); 
a1=f_map(f_return(1))
try:
    r2=f_and(a1,a1,b).result(2); ok2=(r2==5)
except Exception as e:
    r2=repr(e); ok2=False
print("F12 and",r2)
sys.exit(0 if ok and ok2 else 1)
