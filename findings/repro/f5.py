import sys, threading
from more_executors import Executors
out=[]
def go():
    ex=Executors.sync().with_throttle(None, block=True)
    try:
        out.append(ex.submit(lambda: 3).result(5))
    except Exception as e:
        out.append(repr(e))
t=threading.Thread(target=go,daemon=True); t.start(); t.join(10)
print("F5",out); sys.exit(0 if out==[3] else 1)
