import sys, threading
from concurrent.futures import Future, wait, as_completed
from more_executors.futures import f_zip, f_or, f_and, f_sequence
bad=[]
for name,mk in [('zip',lambda a,b:f_zip(a,b)),('or',lambda a,b:f_or(a,b)),('and',lambda a,b:f_and(a,b)),('sequence',lambda a,b:f_sequence([a,b]))]:
    a,b=Future(),Future(); out=mk(a,b)
    assert out.cancel() is True
    d,_=wait([out],0.5)
    if not d: bad.append((name,'wait not released on out.cancel()'))
    if out.cancel() is not True: bad.append((name,'2nd cancel'))
    # input cancelled -> output cancelled -> waiters released
    a,b=Future(),Future(); out=mk(a,b)
    a.cancel(); 
    if name=='or': b.cancel()
    d,_=wait([out],0.5)
    if not d: bad.append((name,'wait not released on input cancel'))
    # concurrent cancels
    a,b=Future(),Future(); out=mk(a,b); rs=[]
    ts=[threading.Thread(target=lambda: rs.append(out.cancel())) for _ in range(8)]
    [t.start() for t in ts]; [t.join() for t in ts]
    if rs!=[True]*8: bad.append((name,'concurrent',rs))
print("F4",bad); sys.exit(1 if bad else 0)
