import sys, threading
from more_executors import Executors
ex=Executors.sync(name='svc')
b=ex.bind(lambda: 1).with_retry()
names=[t.name for t in threading.enumerate() if 'RetryExecutor' in t.name]
print("F11",names); sys.exit(0 if names==['RetryExecutor-svc'] else 1)
