import sys
from concurrent.futures import Future
from more_executors import Executors
# F15 (C19): binding a callable that is itself a bound callable.  functools.update_wrapper copies the wrapped
# callable's __dict__ -- including BoundCallable's own private fields -- over the fields set just before it, so the
# outer callable submits the INNER function to the INNER executor and the executor it was bound to is bypassed.
log = []
class Recording(Executors.sync().__class__):
    def submit(self, fn, *a, **kw):
        log.append(getattr(fn, "__name__", repr(fn)))
        return super(Recording, self).submit(fn, *a, **kw)
def f(x):
    return x + 1
inner_ex = Executors.sync()
outer_ex = Recording()
inner = inner_ex.bind(f)
outer = outer_ex.bind(inner)
r_bind = outer(1).result()
r_submit = outer_ex.submit(inner, 1).result()
same_kind = isinstance(r_bind, Future) == isinstance(r_submit, Future)
went_through_outer = len(log) == 2   # once for the bind form, once for the submit form
print("F15 bind form ->", r_bind, "; submit form ->", r_submit, "; submissions seen by the outer executor:", log)
sys.exit(0 if same_kind and went_through_outer else 1)
