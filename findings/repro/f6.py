# F6: blocked submitter shares the hand-over loop's auto-reset event; no set() after popleft
import sys, time, threading
from concurrent.futures import Future, Executor
from more_executors import Executors
class Manual(Executor):
    def __init__(self): self.fs=[]
    def submit(self, fn,*a,**k):
        f=Future(); self.fs.append(f); return f
    def shutdown(self, wait=True, **kw): pass
m=Manual()
ex=Executors.with_throttle(m, 1, block=True)
f1=ex.submit(lambda:1)
while not m.fs: time.sleep(0.01)       # f1 handed over, in flight
f2=ex.submit(lambda:2)                  # queued (queue length 1 == count)
# forced schedule: the hand-over thread is slow between its clear() and its popleft
orig=ex._eval_throttle
def slow():
    if threading.current_thread().name.startswith('ThrottleExecutor'): time.sleep(0.3)
    return orig()
ex._eval_throttle=slow
t0=time.time(); done=[]
def third():
    ex.submit(lambda:3); done.append(time.time()-t0)
t=threading.Thread(target=third,daemon=True); t.start()
time.sleep(0.3)                         # third submitter is now blocked
m.fs[0].set_result(1)                   # capacity frees: loop pops f2 -> queue has room
t.join(6)
print("F6 blocked submitter released after", done or "more than 6 s (stalled)")
sys.exit(0 if done and done[0] < 3 else 1)
