import sys, time, threading
from concurrent.futures import Future, Executor
from more_executors import Executors
from more_executors.retry import RetryPolicy
import more_executors._impl.retry as R

def scenario(pause_at):
    box={}
    class P(RetryPolicy):
        def should_retry(self, a, f): return a < 2
        def sleep_time(self, a, f):
            # a cancel request arriving while the policy is being evaluated
            box['c1']=box['f'].cancel()
            return 0
    paused=threading.Event(); go=threading.Event()
    ex=Executors.sync().with_retry(P())
    errs=[]
    threading.excepthook=lambda a: errs.append(a.exc_type.__name__)
    if pause_at=='after_pop':
        orig=R.copy_future
        def slow(f1,f2):
            paused.set(); go.wait(5); return orig(f1,f2)
        R.copy_future=slow
    else:
        orig_pop=ex._pop_job
        def slow_pop(job):
            if threading.current_thread().name.startswith('RetryExecutor') and job.stop_retry and not job.delegate_future:
                paused.set(); go.wait(5)
            return orig_pop(job)
        ex._pop_job=slow_pop
    # first submission is made by the submit thread; the sync delegate runs it at once
    started=threading.Event()
    f=Future.__new__(Future)  # placeholder
    def fn(): return 1
    # need box['f'] set before the policy runs: submit then race is avoided by holding the executor lock
    with ex._lock:
        f=ex.submit(fn); box['f']=f
    assert paused.wait(5), "loop never reached stop_retry branch"
    res=None
    try:
        res=f.cancel()
    except AssertionError as e:
        res='AssertionError: %s' % (str(e)[:30],)
    go.set(); time.sleep(0.3)
    if pause_at=='after_pop': R.copy_future=orig
    alive=ex._submit_thread.is_alive()
    return box.get('c1'), res, errs, alive, f

a=scenario('after_pop'); print("F10a", a)
b=scenario('before_pop'); print("F10b", b)
ok = isinstance(a[1], bool) and a[3] and not a[2] and isinstance(b[1], bool) and b[3] and not b[2]
sys.exit(0 if ok else 1)
