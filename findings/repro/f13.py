import sys
from concurrent.futures import Future
from more_executors.futures import f_flat_map, f_return, f_return_error
calls=[]
err=ValueError("inner")
def g(x): return f_return_error(err)
def h(e):
    calls.append(e); return f_return("handled")
out=f_flat_map(f_return(1), g, error_fn=h)
ok = out.exception(2) is err and calls==[]
print("F13", out, calls); sys.exit(0 if ok else 1)
