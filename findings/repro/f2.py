# F2: CancelOnShutdown submit || shutdown lock-order inversion, forced schedule
import threading, sys, time
from concurrent.futures import Future, Executor
from more_executors import Executors
in_submit=threading.Event(); go_on=threading.Event()
class Slow(Executor):
    def submit(self, fn,*a,**k):
        in_submit.set(); go_on.wait(5)
        f=Future(); f.set_result(fn(*a,**k)); return f
    def shutdown(self, wait=True, **kw): pass
ex=Executors.with_cancel_on_shutdown(Slow())
# thread A: submit: takes gate, then (inside delegate.submit) pause before taking... actually _lock is taken before delegate.submit
# so pause point must be between gate and _lock: patch ensure_alive
from more_executors._impl import helpers
orig=ex._shutdown.ensure_alive
from contextlib import contextmanager
@contextmanager
def slow_alive():
    with orig():
        in_submit.set(); go_on.wait(5)
        yield
ex._shutdown.ensure_alive=slow_alive
done=[]
def A():
    try: ex.submit(lambda:1)
    except RuntimeError: pass
    done.append('A')
def B():
    ex.shutdown(); done.append('B')
ta=threading.Thread(target=A,daemon=True); tb=threading.Thread(target=B,daemon=True)
ta.start(); in_submit.wait(5)
tb.start(); time.sleep(0.3)   # B now holds _lock (old code) and waits for gate
go_on.set()
ta.join(3); tb.join(3)
print("F2", sorted(done))
sys.exit(0 if sorted(done)==['A','B'] else 1)
