# F14: executors the library builds for its own use are never shut down -> exec_inprogress drifts upward
import sys, gc, time
sys.path.insert(0,'/verif/findings/repro/stub')
import prometheus_client as pc
from concurrent.futures import Future
from more_executors.futures import f_map, f_flat_map, f_apply, f_return, f_timeout, f_zip
g=pc.REG['exec_inprogress'].values
base=dict(g)
for i in range(5):
    f_map(f_return(1), lambda x:x).result()
print("after 5 f_map:", {k:v-base.get(k,0) for k,v in g.items() if v-base.get(k,0)})
base=dict(g)
for i in range(3):
    f_apply(f_return(lambda a,b:a+b), f_return(1), f_return(2)).result()
print("after 3 f_apply:", {k:v-base.get(k,0) for k,v in g.items() if v-base.get(k,0)})
base=dict(g)
for i in range(3):
    f=f_timeout(f_return(1), 10); f.result(); del f; gc.collect(); time.sleep(0.05)
print("after 3 f_timeout (executor collected in between):", {k:v-base.get(k,0) for k,v in g.items() if v-base.get(k,0)})
