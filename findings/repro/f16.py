import sys, threading
from more_executors import Executors
# F16 (C04): RetryExecutor over a delegate that runs the callable inside submit() (the sync executor).
# The retry thread hands a job over while holding the executor's job lock (_lock) and the callable runs right there;
# a callable that submits to the same executor then needs the shutdown gate.  A user thread inside submit() holds the
# gate and needs _lock for its own job: gate -> _lock against _lock -> gate, both threads block for ever.
ex = Executors.sync().with_retry()
user_in_gate = threading.Event()
inner_done = threading.Event()

class SpyLock(object):
    """wraps the executor's job lock: tells us when the *user* thread is about to wait for it (gate already held)"""
    def __init__(self, inner): self.inner = inner
    def __enter__(self):
        if threading.current_thread().name == "user":
            user_in_gate.set()
        return self.inner.__enter__()
    def __exit__(self, *a): return self.inner.__exit__(*a)
ex._lock = SpyLock(ex._lock)

def outer():
    # runs on the retry thread, inside delegate.submit(), with ex._lock held
    assert user_in_gate.wait(5), "repro bug: user thread never reached the job lock"
    ex.submit(lambda: None)          # needs the shutdown gate, which the user thread holds
    inner_done.set()
    return 1

f = ex.submit(outer)
u = threading.Thread(target=lambda: ex.submit(lambda: 2), name="user"); u.daemon = True
u.start()
ok = inner_done.wait(5)
print("F16 nested submit returned:", ok, "; user submit returned:", not u.is_alive() if ok else False)
sys.exit(0 if ok else 1)
