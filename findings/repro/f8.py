import sys, time
from concurrent.futures import Future, Executor
from more_executors import Executors
class Pending(Executor):
    def submit(self, fn,*a,**k): return Future()
    def shutdown(self, wait=True, **kw): pass
ex=Executors.with_retry(Pending())
f=ex.submit(lambda:1); time.sleep(0.3)
assert f.cancel() and f.cancelled()
time.sleep(0.2)
print("F8 jobs left:", len(ex._jobs))
sys.exit(0 if len(ex._jobs)==0 else 1)
