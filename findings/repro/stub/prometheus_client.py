import threading
REG={}
_L=threading.Lock()
class _Child:
    def __init__(self, m, key): self.m=m; self.key=key
    def inc(self, v=1):
        with _L: self.m.values[self.key]=self.m.values.get(self.key,0)+v
    def dec(self, v=1):
        with _L: self.m.values[self.key]=self.m.values.get(self.key,0)-v
class _Metric:
    def __init__(self, name, doc, labelnames=(), namespace=''):
        self.name=name; self.labelnames=tuple(labelnames); self.values={}
        REG[name]=self
    def labels(self, **kw):
        assert set(kw)==set(self.labelnames), (self.name, kw, self.labelnames)
        return _Child(self, tuple(sorted(kw.items())))
class Counter(_Metric): pass
class Gauge(_Metric): pass
