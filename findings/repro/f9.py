import sys, math
from more_executors.futures import f_proxy, f_return
bad=[]
def chk(name, a, b):
    try: ra=a()
    except Exception as e: ra=type(e)
    try: rb=b()
    except Exception as e: rb=type(e)
    if ra!=rb: bad.append((name,ra,rb))
chk('truediv int/float', lambda: f_proxy(f_return(5))/2.0, lambda: 5/2.0)
chk('floordiv int//float', lambda: f_proxy(f_return(5))//2.0, lambda: 5//2.0)
class T:
    def __trunc__(self): return 4
chk('trunc float', lambda: math.trunc(f_proxy(f_return(4.7))), lambda: math.trunc(4.7))
class R:
    def __rtruediv__(self, o): return 'r'
chk('truediv reflected', lambda: f_proxy(f_return(5))/R(), lambda: 5/R())
print("F9",bad); sys.exit(1 if bad else 0)
