"""L0 source model: modules, classes (MRO), functions, imports, field tables.

Everything is computed from the source text under <repo>/more_executors with
`ast`; nothing is imported or executed.
"""
import ast
import os

PKG = "more_executors"


class AnalysisError(Exception):
    """An anchor vanished / an idiom is not recognised / a minimum count is not met."""


class FunctionInfo(object):
    def __init__(self, name, qualname, module, cls, node, parent=None):
        self.name = name
        self.qualname = qualname  # module-relative dotted, e.g. RetryExecutor._cancel
        self.module = module
        self.cls = cls  # lexically enclosing ClassInfo (also for nested functions)
        self.owner = None  # ClassInfo when this is a method (direct child of class body)
        self.node = node
        self.parent = parent  # enclosing FunctionInfo for nested defs / lambdas
        self.decorators = []
        self.nested = {}  # id(node) -> FunctionInfo for nested defs / lambdas
        if isinstance(node, ast.Lambda):
            self.body = [ast.Return(value=node.body, lineno=node.lineno, col_offset=node.col_offset)]
        else:
            self.body = node.body
            for d in node.decorator_list:
                self.decorators.append(_dotted(d) or "?")
        a = node.args
        self.posonly = [x.arg for x in getattr(a, "posonlyargs", [])]
        self.params = self.posonly + [x.arg for x in a.args]
        self.defaults = list(a.defaults)
        self.vararg = a.vararg.arg if a.vararg else None
        self.kwonly = [x.arg for x in a.kwonlyargs]
        self.kw_defaults = list(a.kw_defaults)
        self.kwarg = a.kwarg.arg if a.kwarg else None

    @property
    def is_classmethod(self):
        return "classmethod" in self.decorators

    @property
    def is_staticmethod(self):
        return "staticmethod" in self.decorators

    @property
    def is_property(self):
        return "property" in self.decorators

    @property
    def is_contextmanager(self):
        return "contextmanager" in self.decorators or "contextlib.contextmanager" in self.decorators

    @property
    def key(self):
        return "%s:%s" % (self.module.name, self.qualname)

    @property
    def relfile(self):
        return self.module.relpath

    @property
    def lineno(self):
        return self.node.lineno

    def all_param_names(self):
        out = list(self.params)
        if self.vararg:
            out.append(self.vararg)
        out.extend(self.kwonly)
        if self.kwarg:
            out.append(self.kwarg)
        return out

    def __repr__(self):
        return "<fn %s>" % self.key


class ClassInfo(object):
    def __init__(self, name, module, node):
        self.name = name
        self.module = module
        self.node = node
        self.base_exprs = list(node.bases) if node is not None else []
        self.bases = []  # resolved: ClassInfo or str (external dotted name)
        self.methods = {}
        self.class_attrs = {}  # name -> ast expr
        self.record_fields = None  # list of field names for namedtuple-style records
        self._mro = None

    @property
    def key(self):
        return "%s:%s" % (self.module.name, self.name)

    def mro(self):
        if self._mro is None:
            self._mro = _c3(self)
        return self._mro

    def lookup(self, name):
        """(owner ClassInfo, FunctionInfo) of the first package class in the MRO defining
        `name`; (ext_name, None) when an external base comes first in a position where it
        could define it -- external classes are opaque, so we only report them when no
        package class defines the method at all."""
        for c in self.mro():
            if isinstance(c, ClassInfo) and name in c.methods:
                return c, c.methods[name]
        return None, None

    def lookup_after(self, after_cls, name):
        """super(after_cls, self).name : continue the MRO after `after_cls`."""
        m = self.mro()
        try:
            i = m.index(after_cls)
        except ValueError:
            return None, None, None
        for c in m[i + 1:]:
            if isinstance(c, ClassInfo):
                if name in c.methods:
                    return c, c.methods[name], None
            else:
                # first external class after: assume it defines it (Future.set_result etc.)
                return None, None, c
        return None, None, None

    def class_attr(self, name):
        for c in self.mro():
            if isinstance(c, ClassInfo) and name in c.class_attrs:
                return c, c.class_attrs[name]
        return None, None

    def is_subclass_of(self, other):
        return other in self.mro()

    def ext_bases(self):
        return [c for c in self.mro() if not isinstance(c, ClassInfo)]

    def __repr__(self):
        return "<class %s>" % self.key


def _c3(cls):
    seqs = []
    for b in cls.bases:
        if isinstance(b, ClassInfo):
            seqs.append(list(b.mro()))
        else:
            seqs.append([b])
    seqs.append(list(cls.bases))
    out = [cls]
    seqs = [s for s in seqs if s]
    while seqs:
        for s in seqs:
            cand = s[0]
            if not any(cand in t[1:] for t in seqs):
                break
        else:
            # inconsistent; fall back to plain left-to-right DFS order
            cand = seqs[0][0]
        out.append(cand)
        seqs = [[x for x in s if x is not cand and x != cand] for s in seqs]
        seqs = [s for s in seqs if s]
    return out


class Module(object):
    def __init__(self, name, path, relpath, tree, is_pkg):
        self.name = name
        self.path = path
        self.relpath = relpath
        self.tree = tree
        self.is_pkg = is_pkg
        self.imports = {}  # local name -> ('mod', dotted) | ('sym', dotted_mod, symbol)
        self.functions = {}
        self.classes = {}
        self.assigns = {}  # module-level name -> list of ast expr (in order)
        self.source = None

    def __repr__(self):
        return "<module %s>" % self.name


def _dotted(node):
    if isinstance(node, ast.Name):
        return node.id
    if isinstance(node, ast.Attribute):
        b = _dotted(node.value)
        return (b + "." + node.attr) if b else None
    if isinstance(node, ast.Call):
        return _dotted(node.func)
    return None


def mangle(cls_name, attr):
    if cls_name and attr.startswith("__") and not attr.endswith("__"):
        return "_%s%s" % (cls_name.lstrip("_"), attr)
    return attr


class Program(object):
    def __init__(self, repo_root):
        self.root = repo_root
        self.modules = {}
        self.functions = {}  # key -> FunctionInfo (all, including nested and lambdas)
        self.classes = {}  # key -> ClassInfo
        self.classes_by_name = {}
        self.ncalls = 0
        self.nwith = 0
        self._load()
        self._resolve_bases()
        self._subclasses = None

    # ------------------------------------------------------------------ loading
    def _load(self):
        base = os.path.join(self.root, PKG)
        if not os.path.isdir(base):
            raise AnalysisError("package directory %s not found" % base)
        for dirpath, dirnames, filenames in os.walk(base):
            dirnames[:] = sorted(d for d in dirnames if d != "__pycache__")
            for fn in sorted(filenames):
                if not fn.endswith(".py"):
                    continue
                path = os.path.join(dirpath, fn)
                rel = os.path.relpath(path, self.root)
                parts = rel[:-3].split(os.sep)
                is_pkg = parts[-1] == "__init__"
                if is_pkg:
                    parts = parts[:-1]
                name = ".".join(parts)
                with open(path, "r", encoding="utf-8") as fh:
                    src = fh.read()
                try:
                    tree = ast.parse(src, filename=path)
                except SyntaxError as e:
                    raise AnalysisError("cannot parse %s: %s" % (rel, e))
                m = Module(name, path, rel, tree, is_pkg)
                m.source = src
                self.modules[name] = m
        for m in self.modules.values():
            self._index_module(m)

    def _abs_import(self, m, level, module):
        if level == 0:
            return module
        parts = m.name.split(".")
        if not m.is_pkg:
            parts = parts[:-1]
        if level > 1:
            parts = parts[: len(parts) - (level - 1)]
        if module:
            parts = parts + module.split(".")
        return ".".join(parts)

    def _index_imports(self, m, stmts):
        for st in stmts:
            if isinstance(st, ast.Import):
                for a in st.names:
                    local = a.asname or a.name.split(".")[0]
                    m.imports[local] = ("mod", a.name if a.asname else a.name.split(".")[0])
            elif isinstance(st, ast.ImportFrom):
                target = self._abs_import(m, st.level, st.module)
                for a in st.names:
                    if a.name == "*":
                        m.imports.setdefault("*", []).append(target)
                        continue
                    m.imports[a.asname or a.name] = ("sym", target, a.name)
            elif isinstance(st, ast.Try):
                self._index_imports(m, st.body)
                # handlers provide fallbacks (py2 compat); keep the first binding
                saved = dict(m.imports)
                for h in st.handlers:
                    self._index_imports(m, h.body)
                for k, v in saved.items():
                    m.imports[k] = v
            elif isinstance(st, ast.If):
                self._index_imports(m, st.body)
                self._index_imports(m, st.orelse)

    def _index_module(self, m):
        self._index_imports(m, m.tree.body)

        def visit_body(stmts):
            for st in stmts:
                if isinstance(st, (ast.FunctionDef, ast.AsyncFunctionDef)):
                    fi = FunctionInfo(st.name, st.name, m, None, st)
                    m.functions[st.name] = fi
                    self._register_fn(fi)
                elif isinstance(st, ast.ClassDef):
                    self._index_class(m, st)
                elif isinstance(st, ast.Assign):
                    for t in st.targets:
                        if isinstance(t, ast.Name):
                            m.assigns.setdefault(t.id, []).append(st.value)
                            self._maybe_record(m, t.id, st.value)
                elif isinstance(st, ast.Try):
                    visit_body(st.body)
                    for h in st.handlers:
                        visit_body_fallback(h.body)
                    visit_body(st.orelse)
                    visit_body(st.finalbody)
                elif isinstance(st, ast.If):
                    visit_body(st.body)
                    visit_body(st.orelse)
                elif isinstance(st, (ast.For, ast.While)):
                    visit_body(st.body)

        def visit_body_fallback(stmts):
            # except ImportError: class InvalidStateError(RuntimeError) ... : only if not bound yet
            for st in stmts:
                if isinstance(st, ast.ClassDef) and st.name not in m.classes and st.name not in m.imports:
                    self._index_class(m, st)

        visit_body(m.tree.body)
        for node in ast.walk(m.tree):
            if isinstance(node, ast.Call):
                self.ncalls += 1
            elif isinstance(node, ast.With):
                self.nwith += 1

    def _maybe_record(self, m, name, value):
        # X = namedtuple("X", ["a", "b"])
        if isinstance(value, ast.Call) and _dotted(value.func) in ("namedtuple", "collections.namedtuple"):
            if len(value.args) >= 2 and isinstance(value.args[1], (ast.List, ast.Tuple)):
                fields = []
                for e in value.args[1].elts:
                    if isinstance(e, ast.Constant) and isinstance(e.value, str):
                        fields.append(e.value)
                    else:
                        return
                ci = ClassInfo(name, m, None)
                ci.record_fields = fields
                ci.bases = ["builtins.tuple"]
                m.classes[name] = ci
                self.classes[ci.key] = ci
                self.classes_by_name.setdefault(name, []).append(ci)

    def _index_class(self, m, node):
        ci = ClassInfo(node.name, m, node)
        m.classes[node.name] = ci
        self.classes[ci.key] = ci
        self.classes_by_name.setdefault(node.name, []).append(ci)
        for st in node.body:
            if isinstance(st, (ast.FunctionDef, ast.AsyncFunctionDef)):
                # private names are mangled by the compiler: the attribute is _Class__name
                mname = mangle(node.name, st.name)
                fi = FunctionInfo(mname, "%s.%s" % (node.name, st.name), m, ci, st)
                fi.owner = ci
                ci.methods[mname] = fi
                self._register_fn(fi)
            elif isinstance(st, ast.Assign):
                for t in st.targets:
                    if isinstance(t, ast.Name):
                        ci.class_attrs[t.id] = st.value

    def _register_fn(self, fi):
        self.functions[fi.key] = fi
        # nested defs and lambdas
        counter = [0]

        def walk(node, parent):
            for child in ast.iter_child_nodes(node):
                if isinstance(child, (ast.FunctionDef, ast.AsyncFunctionDef)):
                    sub = FunctionInfo(child.name, "%s.<locals>.%s" % (parent.qualname, child.name), fi.module, fi.cls, child, parent)
                    parent.nested[id(child)] = sub
                    self.functions[sub.key] = sub
                    walk(child, sub)
                elif isinstance(child, ast.Lambda):
                    counter[0] += 1
                    sub = FunctionInfo("<lambda>", "%s.<locals>.<lambda#%d>" % (parent.qualname, counter[0]), fi.module, fi.cls, child, parent)
                    parent.nested[id(child)] = sub
                    self.functions[sub.key] = sub
                    walk(child, sub)
                elif isinstance(child, ast.ClassDef):
                    continue
                else:
                    walk(child, parent)

        walk(fi.node, fi)

    # --------------------------------------------------------------- resolution
    def resolve_symbol(self, modname, name, _seen=None):
        """Follow imports: returns ('func', FunctionInfo) | ('class', ClassInfo) |
        ('global', modname, name) | ('ext', dotted) | ('mod', dotted)."""
        _seen = _seen or set()
        if (modname, name) in _seen:
            return ("ext", "%s.%s" % (modname, name))
        _seen.add((modname, name))
        m = self.modules.get(modname)
        if m is None:
            return ("ext", "%s.%s" % (modname, name))
        if name in m.classes:
            return ("class", m.classes[name])
        if name in m.functions:
            return ("func", m.functions[name])
        if name in m.assigns:
            # alias of another symbol?  e.g. weak_callback = WeakCallback ; get_event = GLOBAL_HANDLER.get_event
            vals = m.assigns[name]
            v = vals[0]
            if isinstance(v, ast.Name) and (v.id in m.classes or v.id in m.functions or v.id in m.imports):
                return self.resolve_symbol(modname, v.id, _seen)
            return ("global", modname, name)
        if name in m.imports:
            imp = m.imports[name]
            if imp[0] == "mod":
                return ("mod", imp[1])
            target, sym = imp[1], imp[2]
            if target in self.modules:
                # `from . import x` where x is a submodule
                sub = "%s.%s" % (target, sym)
                tm = self.modules[target]
                if sym not in tm.classes and sym not in tm.functions and sym not in tm.assigns and sym not in tm.imports and sub in self.modules:
                    return ("mod", sub)
                return self.resolve_symbol(target, sym, _seen)
            return ("ext", "%s.%s" % (target, sym))
        for target in m.imports.get("*", []):
            if target in self.modules:
                r = self.resolve_symbol(target, name, _seen)
                if r[0] != "ext":
                    return r
        return ("ext", name)

    def _resolve_bases(self):
        for ci in list(self.classes.values()):
            if ci.node is None:
                continue
            for b in ci.base_exprs:
                d = _dotted(b)
                if d is None:
                    ci.bases.append("?")
                    continue
                head = d.split(".")[0]
                r = self.resolve_symbol(ci.module.name, head)
                if r[0] == "class" and "." not in d:
                    ci.bases.append(r[1])
                elif r[0] == "ext":
                    ci.bases.append(r[1] if "." not in d else d)
                else:
                    ci.bases.append(d)

    def subclasses(self, ci, strict=False):
        out = []
        for c in self.classes.values():
            if c.node is None:
                continue
            if ci in c.mro() and (not strict or c is not ci):
                out.append(c)
        return sorted(out, key=lambda c: c.key)

    def cls(self, name):
        lst = self.classes_by_name.get(name, [])
        if len(lst) != 1:
            raise AnalysisError("class %s: expected exactly one definition, found %d" % (name, len(lst)))
        return lst[0]

    def fn(self, key):
        """key: 'RetryExecutor._cancel' or 'module-suffix:func' -- unique by qualname."""
        cands = [f for f in self.functions.values() if f.qualname == key or f.key == key or f.key.endswith("." + key)]
        if ":" in key:
            mod, q = key.split(":")
            cands = [f for f in self.functions.values() if f.qualname == q and (f.module.name == mod or f.module.name.endswith("." + mod))]
        if len(cands) != 1:
            raise AnalysisError("function %s: expected exactly one definition, found %d" % (key, len(cands)))
        return cands[0]

    def maybe_fn(self, key):
        try:
            return self.fn(key)
        except AnalysisError:
            return None

    def methods_named(self, name):
        return [f for f in self.functions.values() if f.owner is not None and f.name == name]

    def impl_functions(self):
        return [f for f in self.functions.values()]

    def stats(self):
        return {
            "files": len(self.modules),
            "functions": len(self.functions),
            "classes": len([c for c in self.classes.values() if c.node is not None]),
            "records": len([c for c in self.classes.values() if c.node is None]),
            "calls": self.ncalls,
            "with": self.nwith,
        }


def src_of(node):
    """Normalised source text of a node (used for finding keys; never for decisions)."""
    try:
        return ast.unparse(node)
    except Exception:
        return "<%s>" % type(node).__name__


def stmt_key(node):
    s = src_of(node)
    s = " ".join(s.split())
    return s[:160]
