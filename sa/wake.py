"""Wake-up protocol rules shared by C03 / C07 / C08 / C09.

A worker loop is the target of a Thread created in an executor's __init__.  Per loop we discover
  * its event       : the Event-typed field it waits on
  * its scanned state: executor fields (containers / counters) it reads before waiting
and check
  R-WAKE-L  per iteration, cyclically: every clear() of the loop's event is followed by a scan of the state
            before the next wait(); every wait() is on the loop's own event and is followed by its clear()
  R-WAKE-P  every enabling mutation of scanned state (append/add/insert into a scanned container, decrement
            of a scanned counter) is followed on the same path by set() of the loop's event -- in the function
            itself or in every caller
  R-WAKE-2  the loop is the only waiter on its event; a second waiter whose predicate depends on state the
            loop changes needs its own wake-ups
"""
from .core import where_of, trace_of
from .interp import fmt, contains, subterms
from .model import AnalysisError, ClassInfo
from . import q

PLUS = {"append", "appendleft", "insert", "add", "extend"}
MINUS = {"pop", "popleft", "remove", "discard", "clear"}


class LoopInfo(object):
    def __init__(self, owner, target):
        self.owner = owner
        self.target = target
        self.event_field = None
        self.scanned = set()  # field names of the executor
        self.counters = set()  # (field, subfield) e.g. ('_running_count', 'value')
        self.paths = None
        self.it = None
        self.exec_term = None


def exec_terms(it, p, owner):
    """terms on this path typed as the owner executor"""
    out = set()
    for e in p.events:
        if e.kind == "branch":
            t = e.d[0]
            if it.type_of(t, p) == "C:" + owner.key:
                out.add(t)
    return out


FLAGNAMES = {"gate": "is_shutdown", "exit": "shutdown"}


def _discover_flags(ctx):
    """names of the executor gate's flag and of the interpreter-exit flag (the field the exit hook sets True)"""
    try:
        from .props.c11 import gate_flag
        FLAGNAMES["gate"] = gate_flag(ctx)
    except AnalysisError:
        pass
    for ci in ctx.prog.classes.values():
        m = ci.methods.get("on_exiting")
        if m is None:
            continue
        ps, it = ctx.paths(m, ci, depth=2, inline=lambda callee, ev, path: callee.owner is ci)
        fl = set(e.d["target"][2] for p in ps for e in p.evs("store") if q.self_field(e.d["target"]) and e.d["value"] == ("const", True))
        if len(fl) == 1:
            FLAGNAMES["exit"] = fl.pop()


_COUNTER = {}


def counter_field(ctx, ci):
    """name of the integer field of a small counter class: initialised to a constant number by the constructor and
    changed only by augmented assignment in the class's own methods; None if ci is not such a class"""
    if ci.key in _COUNTER:
        return _COUNTER[ci.key]
    res = None
    init = ci.methods.get("__init__")
    if init is not None and len(ci.methods) <= 6:
        nums = set()
        for p in ctx.paths(init, ci, depth=0)[0]:
            for e in p.evs("store"):
                v = e.d["value"]
                if q.self_field(e.d["target"]) and isinstance(v, tuple) and v[0] == "const" and type(v[1]) in (int, float):
                    nums.add(e.d["target"][2])
        augs = set()
        for m in ci.methods.values():
            if m is init:
                continue
            for p in ctx.paths(m, ci, depth=0)[0]:
                for e in p.evs("store"):
                    if q.self_field(e.d["target"]) and e.d.get("aug") in ("+", "-"):
                        augs.add(e.d["target"][2])
        both = nums & augs
        if len(both) == 1:
            res = both.pop()
    _COUNTER[ci.key] = res
    return res


def discover(ctx):
    loops = []
    _discover_flags(ctx)
    for owner, target, node, initfi in ctx.types.thread_targets:
        li = LoopInfo(owner, target)
        ps, it = ctx.paths(target, target.owner if target.owner else None)
        li.paths, li.it = ps, it
        events = set()
        for p in ps:
            for e in p.calls():
                if q.call_name(e) == "wait" and it.type_of(q.recv(e), p) == "E:Event":
                    r = q.recv(e)
                    if isinstance(r, tuple) and r[0] == "attr":
                        events.add(r[2])
                        li.exec_term = r[1]
        if len(events) != 1:
            raise AnalysisError("worker loop %s: expected exactly one event waited on, found %s" % (target.qualname, sorted(events)))
        li.event_field = events.pop()
        # scanned state: executor fields (not locks / events / helpers / logs / names) that the loop reads
        ftypes = {}
        for c in owner.mro():
            if isinstance(c, ClassInfo):
                for (ck, f), ts in ctx.types.field_types.items():
                    if ck == c.key:
                        ftypes.setdefault(f, set()).update(ts)
        for p in ps:
            X = li.exec_term
            for e in p.events:
                terms = []
                if e.kind == "branch":
                    terms.append(e.d[0])
                elif e.kind == "loop" and e.d[0] == "enter" and e.d[1] is not None:
                    terms.append(e.d[1])
                elif e.kind == "call":
                    terms.append(e.d["func"])
                for t in terms:
                    for s in subterms(t):
                        if s[0] == "attr" and s[1] == X:
                            f = s[2]
                            ts = ftypes.get(f, set())
                            if ts & {"E:list", "E:deque", "E:dict", "E:set"}:
                                li.scanned.add(f)
                        if s[0] == "attr" and isinstance(s[1], tuple) and s[1][0] == "attr" and s[1][1] == X:
                            inner = ftypes.get(s[1][2], set())
                            for tid in inner:
                                ci = ctx.types.cls_of(tid)
                                if ci is not None and s[2] == counter_field(ctx, ci):
                                    li.counters.add((s[1][2], s[2]))
        if not li.scanned:
            raise AnalysisError("worker loop %s: no scanned container found" % target.qualname)
        loops.append(li)
    return loops


def is_scan(li, e, it, p):
    """name of the state component read by event e (a scanned container/counter of the executor, or one of
    the two stop flags), else None"""
    X = li.exec_term
    terms = []
    if e.kind == "branch":
        terms.append(e.d[0])
    elif e.kind == "loop" and e.d[0] == "enter" and e.d[1] is not None:
        terms.append(e.d[1])
    elif e.kind == "call":
        terms.append(e.d["func"])
        terms.extend(a for a in e.d["args"] if isinstance(a, tuple))
    for t in terms:
        for s in subterms(t):
            if s[0] == "attr" and s[1] == X and s[2] in li.scanned:
                return s[2]
            if s[0] == "attr" and isinstance(s[1], tuple) and s[1][0] == "attr" and s[1][1] == X and (s[1][2], s[2]) in li.counters:
                return "%s.%s" % (s[1][2], s[2])
            if e.kind == "branch" and s[0] == "attr" and s[2] == FLAGNAMES["gate"] and isinstance(s[1], tuple) and s[1][0] == "attr" and s[1][1] == X:
                return "<executor shutdown flag>"
            if e.kind == "branch" and s[0] == "attr" and s[2] == FLAGNAMES["exit"] and isinstance(s[1], tuple) and s[1][0] == "global":
                return "<interpreter exit flag>"
    return None


FLAGS = ("<executor shutdown flag>", "<interpreter exit flag>")


def check_loops(ctx, rep, loops, only_owner=None, components="all"):
    """components: 'state' = the loop's work lists / counters (C03, C07, C08, C09: lost wake-up for work),
    'flags' = the two stop flags (C11 / C12: lost wake-up for shutdown / interpreter exit), 'all' = both"""
    for li in loops:
        if only_owner and li.owner.name not in only_owner:
            continue
        it = li.it
        n = 0
        for p in li.paths:
            if p.status != "loop":
                continue
            seq = []
            for e in p.events:
                if e.kind == "call" and q.call_name(e) in ("wait", "clear") and it.type_of(q.recv(e), p) == "E:Event":
                    seq.append((q.call_name(e), e))
                else:
                    comp = is_scan(li, e, it, p)
                    if comp is not None:
                        seq.append(("scan:" + comp, e))
            waits = [x for x in seq if x[0] == "wait"]
            if not waits:
                continue
            n += 1
            for k, e in seq:
                if k in ("wait", "clear"):
                    r = q.recv(e)
                    ok = isinstance(r, tuple) and r[0] == "attr" and r[2] == li.event_field and r[1] == li.exec_term
                    rep.ob("R-WAKE-L", "%s: %s on the loop's own event" % (li.target.qualname, k), ok, "%s() on %s, the loop's event is %s" % (k, fmt(r), li.event_field), where_of(e.fn, e.node), trace_of(p, e.seq))
            kinds = [k for k, _ in seq]
            comps = sorted(set(k[5:] for k in kinds if k.startswith("scan:")))
            if components == "state":
                comps = [c for c in comps if c not in FLAGS]
            elif components == "flags":
                comps = [c for c in comps if c in FLAGS]
            short = []
            for k in kinds:
                kk = "scan(%s)" % k[5:] if k.startswith("scan:") else k
                if not short or short[-1] != kk:
                    short.append(kk)
            m = len(kinds)
            for i, k in enumerate(kinds):
                if k == "clear":
                    # every component of the state this iteration looks at must be looked at again
                    # between this clear() and the next wait() (cyclically)
                    seen = set()
                    j = (i + 1) % m
                    steps = 0
                    while kinds[j] != "wait" and steps < m:
                        if kinds[j].startswith("scan:"):
                            seen.add(kinds[j][5:])
                        j = (j + 1) % m
                        steps += 1
                    for c in comps:
                        rep.ob("R-WAKE-L", "%s: %s re-read between clear() and the next wait()" % (li.target.qualname, c), c in seen,
                               "iteration order is [%s]: %s is not read between clear() and the following wait(), so a change of it followed by set() that lands before the clear() is lost" % (" ".join(short), c), where_of(seq[i][1].fn, seq[i][1].node), trace_of(p))
                if k == "wait":
                    j = (i + 1) % m
                    steps = 0
                    found = False
                    while steps < m:
                        if kinds[j] == "clear":
                            found = True
                            break
                        if kinds[j] == "wait":
                            break
                        j = (j + 1) % m
                        steps += 1
                    rep.ob("R-WAKE-L", "%s: wait() is followed by clear()" % li.target.qualname, found, "iteration order is [%s]: the event is never cleared after a wake-up" % " ".join(short), where_of(seq[i][1].fn, seq[i][1].node), trace_of(p))
        rep.ob("R-WAKE-L", "%s: has waiting iterations" % li.target.qualname, n > 0, "no iteration path reaches a wait (analysis anchor)", where_of(li.target))


def mutation_of(li, e, it, p):
    """('+'|'-', what) if event e is a mutation of li's scanned state on an executor of li.owner's type"""
    if e.kind != "call":
        return None
    f = e.d["func"]
    if not (isinstance(f, tuple) and f[0] == "attr"):
        return None
    r = f[1]
    if isinstance(r, tuple) and r[0] == "attr" and r[2] in li.scanned and it.type_of(r[1], p) == "C:" + li.owner.key:
        if f[2] in PLUS:
            return ("+", "%s.%s" % (r[2], f[2]), r[1])
        if f[2] in MINUS:
            return ("-", "%s.%s" % (r[2], f[2]), r[1])
    return None


def counter_change(li, e, it, p):
    """('+'|'-', what, executor term) for an augmented store to a scanned counter (through AtomicInt.incr/decr inlined)"""
    if e.kind != "store" or not e.d.get("aug"):
        return None
    t = e.d["target"]
    if t[0] == "attr":
        for (cf, sub) in li.counters:
            if t[2] == sub:
                base = t[1]
                # either <exec>.<cf>  or a parameter bound to it (classmethod callback receiving the counter)
                if isinstance(base, tuple) and base[0] == "attr" and base[2] == cf:
                    return ("+" if e.d["aug"] == "+" else "-", "%s.%s %s=" % (cf, sub, e.d["aug"]), base[1])
                if isinstance(base, tuple) and base[0] == "param" and base[1] != "self":
                    return ("+" if e.d["aug"] == "+" else "-", "%s.%s %s= (via parameter %s)" % (cf, sub, e.d["aug"], base[1]), None)
    return None


def is_set_of(li, e, it, p, xterm):
    if e.kind != "call" or q.call_name(e) != "set":
        return False
    r = q.recv(e)
    if it.type_of(r, p) == "E:Event":
        if isinstance(r, tuple) and r[0] == "attr" and r[2] == li.event_field:
            return xterm is None or r[1] == xterm
    # event passed as a parameter to a classmethod callback
    if isinstance(r, tuple) and r[0] == "param" and xterm is None:
        return True
    return False


def producer_roots(ctx, li, include_worker=False):
    """entry points through which other threads change the state a worker loop waits for: the executor's public
    methods, the callbacks it registers (methods, classmethods bound with partial, module functions) and cancel()
    of the futures that refer to it.  The worker's own thread is not a producer (what it changes it re-scans:
    R-WAKE-L)."""
    from . import roles
    prog = ctx.prog
    owner = li.owner
    out = []
    seen = set()

    def add(m, ci, why):
        k = (m.key, ci.key if ci else None)
        if k not in seen and m is not li.target:
            seen.add(k)
            out.append((m, ci, why))
    for c in owner.mro():
        if hasattr(c, "methods"):
            for n, m in c.methods.items():
                if owner.lookup(n)[1] is m and not n.startswith("_"):
                    add(m, owner, "public method")
    own = set(m.key for c in owner.mro() if hasattr(c, "methods") for m in c.methods.values())
    for c in owner.mro():
        if not hasattr(c, "methods"):
            continue
        for m in c.methods.values():
            if owner.lookup(m.name)[1] is not m:
                continue
            ps, it = ctx.paths(m, owner, depth=3, inline=lambda callee, ev, path: callee.key in own and callee.name != "__init__")
            for p in ps:
                for e in p.calls():
                    if q.call_name(e) != "add_done_callback" or not e.d["args"]:
                        continue
                    cb = roles.unwrap(ctx, p, e.d["args"][0], it)
                    if isinstance(cb, tuple) and cb and cb[0] == "partial":
                        cb = cb[1]
                    if isinstance(cb, tuple) and cb and cb[0] == "attr":
                        o, mm = owner.lookup(cb[2])
                        if mm is not None and it.type_of(cb[1], p) in (None, "C:" + owner.key) or (mm is not None and cb[1] == ("param", "self")):
                            add(mm, owner, "registered callback")
                    elif isinstance(cb, tuple) and cb and cb[0] == "func":
                        f = prog.functions.get(cb[1])
                        if f is not None:
                            add(f, None, "registered callback")
    P = roles.proto(ctx)
    for fc in prog.subclasses(P.fut, strict=True):
        if any(ck == fc.key and ("C:" + owner.key) in ts for (ck, f), ts in ctx.types.field_types.items()):
            add(P.fut.methods["cancel"], fc, "cancel() of its futures")
            for mm, recv in roles.registered_callbacks(ctx, fc).values():
                add(mm, fc, "callback registered by its futures")
    if include_worker:
        seen.discard((li.target.key, None))
        out.append((li.target, li.target.owner, "the worker itself"))
    return out


def check_producers(ctx, rep, loops, only_owner=None, minus_for=None, rule="R-WAKE-P"):
    """every enabling mutation performed by another thread is followed by set() of the worker's event, on every path
    of the entry point that performs it (helpers inlined)"""
    from . import roles
    for li in loops:
        if only_owner and li.owner.name not in only_owner:
            continue
        nfound = 0
        for m, ci, why in producer_roots(ctx, li, include_worker=minus_for is not None):
            ps, it = ctx.paths(m, ci, depth=6, inline=roles.std_inline)
            res = {}
            for p in ps:
                if p.status == "raise":
                    continue
                for e in p.events:
                    mu = mutation_of(li, e, it, p) or counter_change(li, e, it, p)
                    if not mu:
                        continue
                    sign, what, xterm = mu
                    enabling = (sign == "+" and "value" not in what) or (sign == "-" and "value" in what)
                    if minus_for is not None:
                        enabling = sign == "-" and "value" not in what
                    if not enabling:
                        continue
                    later = [x for x in p.events if x.seq > e.seq and is_set_of(li, x, it, p, xterm)]
                    role = _role_name(ctx, li, what)
                    cur = res.get(role)
                    if later:
                        if cur is None:
                            res[role] = (True, e, p)
                    elif cur is None or cur[0]:
                        res[role] = (False, e, p)
            for role, (ok, e, p) in sorted(res.items()):
                nfound += 1
                if minus_for is not None:
                    key = "%s: %s is followed by set() of the worker's event" % (li.owner.name, role)
                else:
                    key = "%s%s: %s is followed by set() of the worker's event" % (m.qualname, "[%s]" % ci.name if ci is not None and ci is not m.owner else "", role)
                rep.ob(rule, key, ok, "%s changes state the worker %s waits for, but no set() of its event follows on path [%s] (entry point %s: %s)" % (role, li.target.qualname, q.path_sig(p)[:100], m.qualname, why), where_of(e.fn, e.node), trace_of(p, e.seq))
        if minus_for is None:
            rep.ob(rule, "%s: has producers" % li.target.qualname, nfound > 0, "no enabling mutation of the scanned state found (analysis anchor)", where_of(li.target))


def _role_name(ctx, li, what):
    """'_to_submit.popleft' -> 'queue(deque).popleft': constructs of recorded findings must not depend on the
    (private, renameable) field name"""
    if "." not in what:
        return what
    f, op = what.split(".", 1)
    if any(f == cf for cf, sub in li.counters):
        return "in-flight counter %s" % op.split(" ", 1)[-1]
    ts = set()
    for c in li.owner.mro():
        if hasattr(c, "key"):
            ts |= set(ctx.types.field_types.get((c.key, f), ()))
    kind = sorted(t.split(":")[-1] for t in ts)
    return "queue(%s).%s" % ("/".join(kind) if kind else "?", op)


def second_waiters(ctx, rep, loops, only_owner=None, rule="R-WAKE-2"):
    prog = ctx.prog
    out = []
    for li in loops:
        if only_owner and li.owner.name not in only_owner:
            continue
        for fi in sorted(prog.functions.values(), key=lambda f: f.key):
            if fi.parent is not None or fi is li.target:
                continue
            if fi.owner is None or li.owner not in [c for c in ctx.instances(fi)] and fi.owner is not li.owner:
                continue
            ps, it = ctx.paths(fi, li.owner if fi.owner in li.owner.mro() else fi.owner, depth=0)
            for p in ps:
                for e in p.calls():
                    if q.call_name(e) == "wait" and it.type_of(q.recv(e), p) == "E:Event" and e.fn is fi:
                        r = q.recv(e)
                        if isinstance(r, tuple) and r[0] == "attr" and r[2] == li.event_field:
                            out.append((li, fi, e, p))
    # whoever else waits, only the worker itself may clear its event: a clear() anywhere else can erase a wake-up
    # (a completion, a new job) that the worker has not seen yet, and the worker then sleeps on its fallback timer
    for li in loops:
        if only_owner and li.owner.name not in only_owner:
            continue
        nclear = 0
        loop_fns = set(e.fn.key for p in li.paths for e in p.events if e.fn is not None)  # the loop and its helpers
        for fi in sorted(prog.functions.values(), key=lambda f: f.key):
            if fi.parent is not None or fi is li.target or fi.owner is None or fi.owner not in li.owner.mro():
                continue
            if fi.key in loop_fns:
                continue
            ps, it = ctx.paths(fi, li.owner, depth=0)
            for p in ps:
                for e in p.calls():
                    r = q.recv(e)
                    if q.call_name(e) == "clear" and e.fn is fi and isinstance(r, tuple) and r[0] == "attr" and r[2] == li.event_field and it.type_of(r, p) == "E:Event":
                        nclear += 1
                        rep.ob(rule, "%s: only the worker clears its event (%s)" % (li.owner.name, fi.qualname), False, "%s clears the event that %s waits on: a wake-up meant for the worker (a finished delegate, a new job) that arrives just before is erased, and the worker sleeps until its fallback timer although work is ready" % (fi.qualname, li.target.qualname), where_of(fi, e.node), trace_of(p, e.seq))
        if not nclear:
            rep.ob(rule, "%s: only the worker clears its event" % li.owner.name, True, "", where_of(li.target))
    seen = set()
    for li, fi, e, p in out:
        if fi.key in seen:
            continue
        seen.add(fi.key)
        rep.ob(rule, "%s: second waiter on the worker's event" % li.owner.name, False,
               "%s waits on the auto-reset event owned (waited and cleared) by %s: a wake-up consumed by one waiter is lost for the other" % (fi.qualname, li.target.qualname), where_of(fi, e.node), trace_of(p, e.seq))
    return out
