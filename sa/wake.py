"""Wake-up protocol rules shared by C03 / C07 / C08 / C09.

A worker loop is the target of a Thread created in an executor's __init__.  Per loop we discover
  * its event       : the Event-typed field it waits on
  * its scanned state: executor fields (containers / counters) it reads before waiting
and check
  R-WAKE-L  per iteration, cyclically: every clear() of the loop's event is followed by a scan of the state
            before the next wait(); every wait() is on the loop's own event and is followed by its clear()
  R-WAKE-P  every enabling mutation of scanned state (append/add/insert into a scanned container, decrement
            of a scanned counter) is followed on the same path by set() of the loop's event -- in the function
            itself or in every caller
  R-WAKE-2  the loop is the only waiter on its event; a second waiter whose predicate depends on state the
            loop changes needs its own wake-ups
"""
from .core import where_of, trace_of
from .interp import fmt, contains, subterms
from .model import AnalysisError, ClassInfo
from . import q

PLUS = {"append", "appendleft", "insert", "add", "extend"}
MINUS = {"pop", "popleft", "remove", "discard", "clear"}


class LoopInfo(object):
    def __init__(self, owner, target):
        self.owner = owner
        self.target = target
        self.event_field = None
        self.scanned = set()  # field names of the executor
        self.counters = set()  # (field, subfield) e.g. ('_running_count', 'value')
        self.paths = None
        self.it = None
        self.exec_term = None


def exec_terms(it, p, owner):
    """terms on this path typed as the owner executor"""
    out = set()
    for e in p.events:
        if e.kind == "branch":
            t = e.d[0]
            if it.type_of(t, p) == "C:" + owner.key:
                out.add(t)
    return out


def discover(ctx):
    loops = []
    for owner, target, node, initfi in ctx.types.thread_targets:
        li = LoopInfo(owner, target)
        ps, it = ctx.paths(target, target.owner if target.owner else None)
        li.paths, li.it = ps, it
        events = set()
        for p in ps:
            for e in p.calls():
                if q.call_name(e) == "wait" and it.type_of(q.recv(e), p) == "E:Event":
                    r = q.recv(e)
                    if isinstance(r, tuple) and r[0] == "attr":
                        events.add(r[2])
                        li.exec_term = r[1]
        if len(events) != 1:
            raise AnalysisError("worker loop %s: expected exactly one event waited on, found %s" % (target.qualname, sorted(events)))
        li.event_field = events.pop()
        # scanned state: executor fields (not locks / events / helpers / logs / names) that the loop reads
        ftypes = {}
        for c in owner.mro():
            if isinstance(c, ClassInfo):
                for (ck, f), ts in ctx.types.field_types.items():
                    if ck == c.key:
                        ftypes.setdefault(f, set()).update(ts)
        for p in ps:
            X = li.exec_term
            for e in p.events:
                terms = []
                if e.kind == "branch":
                    terms.append(e.d[0])
                elif e.kind == "loop" and e.d[0] == "enter" and e.d[1] is not None:
                    terms.append(e.d[1])
                elif e.kind == "call":
                    terms.append(e.d["func"])
                for t in terms:
                    for s in subterms(t):
                        if s[0] == "attr" and s[1] == X:
                            f = s[2]
                            ts = ftypes.get(f, set())
                            if ts & {"E:list", "E:deque", "E:dict", "E:set"}:
                                li.scanned.add(f)
                        if s[0] == "attr" and isinstance(s[1], tuple) and s[1][0] == "attr" and s[1][1] == X:
                            inner = ftypes.get(s[1][2], set())
                            for tid in inner:
                                ci = ctx.types.cls_of(tid)
                                if ci is not None and ci.name == "AtomicInt" and s[2] == "value":
                                    li.counters.add((s[1][2], s[2]))
        if not li.scanned:
            raise AnalysisError("worker loop %s: no scanned container found" % target.qualname)
        loops.append(li)
    return loops


def is_scan(li, e, it, p):
    """name of the state component read by event e (a scanned container/counter of the executor, or one of
    the two stop flags), else None"""
    X = li.exec_term
    terms = []
    if e.kind == "branch":
        terms.append(e.d[0])
    elif e.kind == "loop" and e.d[0] == "enter" and e.d[1] is not None:
        terms.append(e.d[1])
    elif e.kind == "call":
        terms.append(e.d["func"])
        terms.extend(a for a in e.d["args"] if isinstance(a, tuple))
    for t in terms:
        for s in subterms(t):
            if s[0] == "attr" and s[1] == X and s[2] in li.scanned:
                return s[2]
            if s[0] == "attr" and isinstance(s[1], tuple) and s[1][0] == "attr" and s[1][1] == X and (s[1][2], s[2]) in li.counters:
                return "%s.%s" % (s[1][2], s[2])
            if e.kind == "branch" and s[0] == "attr" and s[2] == "is_shutdown" and isinstance(s[1], tuple) and s[1][0] == "attr" and s[1][1] == X:
                return "<executor shutdown flag>"
            if e.kind == "branch" and s[0] == "attr" and s[2] == "shutdown" and isinstance(s[1], tuple) and s[1][0] == "global":
                return "<interpreter exit flag>"
    return None


FLAGS = ("<executor shutdown flag>", "<interpreter exit flag>")


def check_loops(ctx, rep, loops, only_owner=None, components="all"):
    """components: 'state' = the loop's work lists / counters (C03, C07, C08, C09: lost wake-up for work),
    'flags' = the two stop flags (C11 / C12: lost wake-up for shutdown / interpreter exit), 'all' = both"""
    for li in loops:
        if only_owner and li.owner.name not in only_owner:
            continue
        it = li.it
        n = 0
        for p in li.paths:
            if p.status != "loop":
                continue
            seq = []
            for e in p.events:
                if e.kind == "call" and q.call_name(e) in ("wait", "clear") and it.type_of(q.recv(e), p) == "E:Event":
                    seq.append((q.call_name(e), e))
                else:
                    comp = is_scan(li, e, it, p)
                    if comp is not None:
                        seq.append(("scan:" + comp, e))
            waits = [x for x in seq if x[0] == "wait"]
            if not waits:
                continue
            n += 1
            for k, e in seq:
                if k in ("wait", "clear"):
                    r = q.recv(e)
                    ok = isinstance(r, tuple) and r[0] == "attr" and r[2] == li.event_field and r[1] == li.exec_term
                    rep.ob("R-WAKE-L", "%s: %s on the loop's own event" % (li.target.qualname, k), ok, "%s() on %s, the loop's event is %s" % (k, fmt(r), li.event_field), where_of(e.fn, e.node), trace_of(p, e.seq))
            kinds = [k for k, _ in seq]
            comps = sorted(set(k[5:] for k in kinds if k.startswith("scan:")))
            if components == "state":
                comps = [c for c in comps if c not in FLAGS]
            elif components == "flags":
                comps = [c for c in comps if c in FLAGS]
            short = []
            for k in kinds:
                kk = "scan(%s)" % k[5:] if k.startswith("scan:") else k
                if not short or short[-1] != kk:
                    short.append(kk)
            m = len(kinds)
            for i, k in enumerate(kinds):
                if k == "clear":
                    # every component of the state this iteration looks at must be looked at again
                    # between this clear() and the next wait() (cyclically)
                    seen = set()
                    j = (i + 1) % m
                    steps = 0
                    while kinds[j] != "wait" and steps < m:
                        if kinds[j].startswith("scan:"):
                            seen.add(kinds[j][5:])
                        j = (j + 1) % m
                        steps += 1
                    for c in comps:
                        rep.ob("R-WAKE-L", "%s: %s re-read between clear() and the next wait()" % (li.target.qualname, c), c in seen,
                               "iteration order is [%s]: %s is not read between clear() and the following wait(), so a change of it followed by set() that lands before the clear() is lost" % (" ".join(short), c), where_of(seq[i][1].fn, seq[i][1].node), trace_of(p))
                if k == "wait":
                    j = (i + 1) % m
                    steps = 0
                    found = False
                    while steps < m:
                        if kinds[j] == "clear":
                            found = True
                            break
                        if kinds[j] == "wait":
                            break
                        j = (j + 1) % m
                        steps += 1
                    rep.ob("R-WAKE-L", "%s: wait() is followed by clear()" % li.target.qualname, found, "iteration order is [%s]: the event is never cleared after a wake-up" % " ".join(short), where_of(seq[i][1].fn, seq[i][1].node), trace_of(p))
        rep.ob("R-WAKE-L", "%s: has waiting iterations" % li.target.qualname, n > 0, "no iteration path reaches a wait (analysis anchor)", where_of(li.target))


def mutation_of(li, e, it, p):
    """('+'|'-', what) if event e is a mutation of li's scanned state on an executor of li.owner's type"""
    if e.kind != "call":
        return None
    f = e.d["func"]
    if not (isinstance(f, tuple) and f[0] == "attr"):
        return None
    r = f[1]
    if isinstance(r, tuple) and r[0] == "attr" and r[2] in li.scanned and it.type_of(r[1], p) == "C:" + li.owner.key:
        if f[2] in PLUS:
            return ("+", "%s.%s" % (r[2], f[2]), r[1])
        if f[2] in MINUS:
            return ("-", "%s.%s" % (r[2], f[2]), r[1])
    return None


def counter_change(li, e, it, p):
    """('+'|'-', what, executor term) for an augmented store to a scanned counter (through AtomicInt.incr/decr inlined)"""
    if e.kind != "store" or not e.d.get("aug"):
        return None
    t = e.d["target"]
    if t[0] == "attr":
        for (cf, sub) in li.counters:
            if t[2] == sub:
                base = t[1]
                # either <exec>.<cf>  or a parameter bound to it (classmethod callback receiving the counter)
                if isinstance(base, tuple) and base[0] == "attr" and base[2] == cf:
                    return ("+" if e.d["aug"] == "+" else "-", "%s.%s %s=" % (cf, sub, e.d["aug"]), base[1])
                if isinstance(base, tuple) and base[0] == "param" and base[1] != "self":
                    return ("+" if e.d["aug"] == "+" else "-", "%s.%s %s= (via parameter %s)" % (cf, sub, e.d["aug"], base[1]), None)
    return None


def is_set_of(li, e, it, p, xterm):
    if e.kind != "call" or q.call_name(e) != "set":
        return False
    r = q.recv(e)
    if it.type_of(r, p) == "E:Event":
        if isinstance(r, tuple) and r[0] == "attr" and r[2] == li.event_field:
            return xterm is None or r[1] == xterm
    # event passed as a parameter to a classmethod callback
    if isinstance(r, tuple) and r[0] == "param" and xterm is None:
        return True
    return False


def check_producers(ctx, rep, loops, only_owner=None, minus_for=None, rule="R-WAKE-P"):
    """every enabling mutation is followed by set() (in the function or in all its callers)"""
    prog = ctx.prog
    callers = ctx.callgraph()
    for li in loops:
        if only_owner and li.owner.name not in only_owner:
            continue
        unbalanced = {}
        good = {}
        for fi in sorted(prog.functions.values(), key=lambda f: f.key):
            if fi.parent is not None or fi is li.target:
                continue
            # only functions that can reach the owner's state
            for ci in ctx.instances(fi):
                ps, it = ctx.paths(fi, ci)
                for p in ps:
                    if p.status == "raise":
                        continue
                    for e in p.events:
                        m = mutation_of(li, e, it, p) or counter_change(li, e, it, p)
                        if not m:
                            continue
                        sign, what, xterm = m
                        enabling = (sign == "+" and "value" not in what) or (sign == "-" and "value" in what)
                        if minus_for is not None:
                            # report each dequeue/removal once, in the function that performs it
                            enabling = sign == "-" and "value" not in what and e.fn is fi
                        if not enabling:
                            continue
                        later = [x for x in p.events if x.seq > e.seq and is_set_of(li, x, it, p, xterm)]
                        key = (fi.key, what)
                        if later:
                            good.setdefault(key, (fi, e, p))
                        else:
                            unbalanced.setdefault(key, (fi, e, p, ci))
        nfound = 0
        def label(fi, what):
            # constructs are named by owner class and operation, not by the (private, renameable) function
            if minus_for is not None:
                return "%s: %s is followed by set() of the worker's event" % (li.owner.name, _role_name(ctx, li, what))
            return "%s: %s is followed by %s.set()" % (fi.qualname, what, li.event_field)
        for key, (fi, e, p) in sorted(good.items()):
            if key in unbalanced:
                continue
            nfound += 1
            rep.ob(rule, label(fi, key[1]), True, "", where_of(e.fn, e.node))
        for key, (fi, e, p, ci) in sorted(unbalanced.items()):
            nfound += 1
            # excused if the mutation happens in a helper and every caller path sets the event afterwards:
            # those callers were analysed with the helper inlined, so they appear in good/unbalanced themselves
            cs = callers.get(e.fn.key, set()) if e.fn is not fi else callers.get(fi.key, set())
            excused = False
            if e.fn is fi and cs:
                excused = all(((ck, key[1]) in good and (ck, key[1]) not in unbalanced) for ck, _ in cs)
            rep.ob(rule, label(fi, key[1]), excused,
                   "%s changes state the %s waits for, but no %s.set() follows on path [%s]" % (key[1], li.target.qualname, li.event_field, q.path_sig(p)[:100]), where_of(e.fn, e.node), trace_of(p))
        if minus_for is None:
            rep.ob(rule, "%s: has producers" % li.target.qualname, nfound > 0, "no enabling mutation of the scanned state found (analysis anchor)", where_of(li.target))


def _role_name(ctx, li, what):
    """'_to_submit.popleft' -> 'queue(deque).popleft': constructs of recorded findings must not depend on the
    (private, renameable) field name"""
    if "." not in what:
        return what
    f, op = what.split(".", 1)
    ts = set()
    for c in li.owner.mro():
        if hasattr(c, "key"):
            ts |= set(ctx.types.field_types.get((c.key, f), ()))
    kind = sorted(t.split(":")[-1] for t in ts)
    return "queue(%s).%s" % ("/".join(kind) if kind else "?", op)


def second_waiters(ctx, rep, loops, only_owner=None, rule="R-WAKE-2"):
    prog = ctx.prog
    out = []
    for li in loops:
        if only_owner and li.owner.name not in only_owner:
            continue
        for fi in sorted(prog.functions.values(), key=lambda f: f.key):
            if fi.parent is not None or fi is li.target:
                continue
            if fi.owner is None or li.owner not in [c for c in ctx.instances(fi)] and fi.owner is not li.owner:
                continue
            ps, it = ctx.paths(fi, li.owner if fi.owner in li.owner.mro() else fi.owner, depth=0)
            for p in ps:
                for e in p.calls():
                    if q.call_name(e) == "wait" and it.type_of(q.recv(e), p) == "E:Event" and e.fn is fi:
                        r = q.recv(e)
                        if isinstance(r, tuple) and r[0] == "attr" and r[2] == li.event_field:
                            out.append((li, fi, e, p))
    seen = set()
    for li, fi, e, p in out:
        if fi.key in seen:
            continue
        seen.add(fi.key)
        rep.ob(rule, "%s: second waiter on the worker's event" % li.owner.name, False,
               "%s waits on the auto-reset event owned (waited and cleared) by %s: a wake-up consumed by one waiter is lost for the other" % (fi.qualname, li.target.qualname), where_of(fi, e.node), trace_of(p, e.seq))
    return out
