"""Shared plumbing: analysis context, obligations, evidence, known findings, replay."""
import json
import os
import time

from .model import Program, AnalysisError, ClassInfo, stmt_key
from .types import Types
from .interp import Interp, Config, fmt

VERIF = os.path.dirname(os.path.dirname(os.path.abspath(__file__)))


class Ctx(object):
    def __init__(self, repo, tier="quick"):
        self.repo = repo
        self.tier = tier
        self.prog = Program(repo)
        self.types = Types(self.prog)
        self.depth = 3 if tier == "quick" else 5
        self._cache = {}
        self._keep = []
        self.stats = {"functions_run": 0, "paths": 0, "calls_resolved": 0, "calls_unresolved": 0, "calls_approx": 0, "truncated": 0}
        self.analysed = set()
        self._proto = None
        from . import roles as _roles
        _roles.proto(self)  # marks the callback dispatcher before any inlining policy is consulted

    def paths(self, fi, self_cls=None, depth=None, pre=None, **cfgkw):
        """memoised path enumeration.  pre: tuple of (term, value) pairs = initial heap"""
        depth = self.depth if depth is None else depth
        key = (fi.key, self_cls.key if self_cls else None, depth, pre, tuple(sorted((k, id(v) if callable(v) else v) for k, v in cfgkw.items())))
        self._keep.extend(v for v in cfgkw.values() if callable(v))  # ids in the key must stay unique
        if key in self._cache:
            return self._cache[key]
        cfg = Config(maxdepth=depth, **cfgkw)
        it = Interp(self.prog, self.types, cfg)
        ps = it.run(fi, self_cls, heap=dict(pre) if pre else None)
        self.stats["functions_run"] += 1
        self.stats["paths"] += len(ps)
        self.stats["calls_resolved"] += it.resolved
        self.stats["calls_unresolved"] += it.unresolved
        self.stats["calls_approx"] += it.approx_resolved
        if it.truncated:
            self.stats["truncated"] += 1
            raise AnalysisError("path enumeration truncated for %s (more than %d paths)" % (fi.key, cfg.maxpaths))
        self.analysed.add(fi.key)
        self._cache[key] = (ps, it)
        return ps, it

    def instances(self, fi):
        """concrete self classes under which a method must be analysed (CHA): every package subclass
        of its owner that does not override it; [None] for plain functions"""
        if fi.owner is None:
            return [None]
        out = [c for c in self.prog.subclasses(fi.owner) if c.lookup(fi.name)[1] is fi]
        return out or [fi.owner]

    def callgraph(self):
        """caller map from depth-0 runs of every function: callee key -> set of (caller fi, self class)"""
        if getattr(self, "_cg", None) is not None:
            return self._cg
        callers = {}
        for fi in sorted(self.prog.functions.values(), key=lambda f: f.key):
            for ci in self.instances(fi):
                try:
                    ps, it = self.paths(fi, ci, depth=0)
                except AnalysisError:
                    continue
                for p in ps:
                    for e in p.events:
                        if e.kind == "call" and e.d["callee"] is not None:
                            callers.setdefault(e.d["callee"].key, set()).add((fi.key, ci.key if ci else None))
        self._cg = callers
        return callers

    # ---- discovery helpers shared by several properties
    def executor_classes(self):
        """package classes deriving from concurrent.futures.Executor (directly or through a pool)"""
        out = []
        for c in self.prog.classes.values():
            if c.node is None:
                continue
            if any(isinstance(b, str) and b.startswith("concurrent.futures.") and b.endswith("Executor") for b in c.mro()):
                out.append(c)
        return sorted(out, key=lambda c: c.key)

    def future_classes(self):
        base = self.prog.cls("_Future")
        return [c for c in self.prog.subclasses(base)]

    def gate_field(self, ci):
        """name of the field of executor class ci holding its ShutdownHelper"""
        helper = self.prog.cls("ShutdownHelper")
        out = []
        for c in ci.mro():
            if isinstance(c, ClassInfo):
                for (ck, f), ts in self.types.field_types.items():
                    if ck == c.key and ("C:" + helper.key) in ts:
                        out.append(f)
        return sorted(set(out))


class Obligation(object):
    __slots__ = ("rule", "key", "ok", "detail", "where", "known", "trace", "npaths")

    def __init__(self, rule, key, ok, detail, where, trace=None):
        self.rule = rule
        self.key = key
        self.ok = ok
        self.detail = detail
        self.where = where
        self.known = False
        self.trace = trace
        self.npaths = 1


class Report(object):
    def __init__(self, pid, ctx):
        self.pid = pid
        self.ctx = ctx
        self.obs = []
        self.rules = {}
        self.notes = []
        self.exceptions = []
        self.counts = {}
        self._index = {}

    def rule(self, rid, text):
        self.rules[rid] = text

    def ob(self, rule, key, ok, detail="", where="", trace=None):
        """record one rule instance.  key identifies the construct (never a line number)."""
        prev = self._index.get((rule, key))
        if prev is not None:
            # same construct reached on another path: it holds only if it holds on all of them
            prev.npaths += 1
            if prev.ok and not ok:
                prev.ok, prev.detail, prev.where, prev.trace = False, detail, where, trace
            return bool(ok)
        o = Obligation(rule, key, bool(ok), detail, where, trace)
        self._index[(rule, key)] = o
        self.obs.append(o)
        return o.ok

    def require(self, cond, msg):
        if not cond:
            raise AnalysisError(msg)

    def count(self, name, n, minimum):
        self.counts[name] = {"found": n, "minimum": minimum}
        if n < minimum:
            raise AnalysisError("anchor count for %s fell to %d (minimum confirmed by hand: %d)" % (name, n, minimum))

    def exception(self, rule, key, reason):
        self.exceptions.append({"rule": rule, "construct": key, "reason": reason})

    def note(self, s):
        self.notes.append(s)


def load_known():
    p = os.path.join(VERIF, "known_findings.json")
    with open(p) as fh:
        return json.load(fh)


def where_of(fi, node=None):
    if node is not None and hasattr(node, "lineno"):
        return "%s:%d (%s)" % (fi.relfile, node.lineno, fi.qualname)
    return "%s (%s)" % (fi.relfile, fi.qualname)


def trace_of(path, upto=None, limit=60):
    out = []
    for e in path.events:
        if upto is not None and e.seq > upto:
            break
        if e.kind == "call":
            f = fmt(e.d["func"])
            if "_log." in f or f.startswith("LOG."):
                continue
            out.append("%scall %s  [locks: %s] @%s:%d" % ("  " * len(e.stack), f, ", ".join(fmt(l[1]) for l in e.locks), e.fn.qualname, e.lineno))
        elif e.kind == "branch":
            out.append("%sbranch %s = %s" % ("  " * len(e.stack), fmt(e.d[0]) if isinstance(e.d[0], tuple) else e.d[0], e.d[1]))
        elif e.kind in ("enter", "exit"):
            out.append("%s%s %s (%s)" % ("  " * len(e.stack), e.kind, fmt(e.d[1]), e.d[2]))
        elif e.kind == "store":
            out.append("%sstore %s = %s" % ("  " * len(e.stack), fmt(e.d["target"]), fmt(e.d["value"])))
        elif e.kind in ("return", "raise"):
            out.append("%s%s %s" % ("  " * len(e.stack), e.kind, fmt(e.d)))
    return out[-limit:]


def unlisted_violations(report):
    """broken rule instances that are not listed as known findings"""
    kn = [k for k in load_known().get("known", []) if k.get("property") == report.pid]
    return [o for o in report.obs if not o.ok and not any(k.get("rule") == o.rule and k.get("construct") == o.key for k in kn)]


def finish(report, tier, seed, t0, replay_only=None):
    """match known findings, print, write evidence + replay files; returns exit code."""
    pid = report.pid
    known = load_known()
    kn = [k for k in known.get("known", []) if k.get("property") == pid]
    violations = []
    known_hit = []
    for o in report.obs:
        if o.ok:
            continue
        for k in kn:
            if k.get("rule") == o.rule and k.get("construct") == o.key:
                o.known = True
                known_hit.append((o, k))
                break
        else:
            violations.append(o)
    scratch = os.environ.get("VERIF_NOEVIDENCE") == "1"  # self-test runs on scratch copies write nothing
    only = os.environ.get("VERIF_ONLY")
    if only:
        sel = json.loads(only)
        violations = [o for o in violations if o.rule == sel["rule"] and o.key == sel["construct"]]
        scratch = True
    os.makedirs(os.path.join(VERIF, "evidence"), exist_ok=True)
    os.makedirs(os.path.join(VERIF, "replay"), exist_ok=True)
    for o, k in known_hit:
        print("KNOWN-FINDING: property=%s %s [%s @ %s]" % (pid, k.get("what", o.detail), o.rule, o.key))
    n = 0
    for o in violations:
        n += 1
        rp = os.path.join("replay", "%s-%d.json" % (pid, n))
        with open(os.path.join(VERIF, rp) if not scratch else os.devnull, "w") as fh:
            json.dump({"property": pid, "rule": o.rule, "rule_text": report.rules.get(o.rule, ""), "construct": o.key, "where": o.where, "detail": o.detail, "trace": o.trace or []}, fh, indent=1)
        print("%s: rule %s broken at %s -- %s" % (o.where or o.key, o.rule, o.key, o.detail))
        print("VIOLATION property=%s replay=%s" % (pid, rp))
    held = [o for o in report.obs if o.ok]
    samples = []
    seen_rules = set()
    for o in report.obs:
        if o.rule not in seen_rules or len(samples) < 12:
            samples.append({"rule": o.rule, "construct": o.key, "where": o.where, "held": o.ok, "detail": o.detail[:200]})
            seen_rules.add(o.rule)
        if len(samples) >= 40:
            break
    st = report.ctx.stats
    ev = {
        "property_id": pid,
        "tier": tier,
        "seed": seed,
        "level": "other",
        "coverage": {
            "explanation": "static analysis of /repo/more_executors (ast -> source model -> symbolic path enumeration with bounded inlining, depth %d): %d rule instances (obligations) over %d analysed functions / %d enumerated paths; each obligation is a specific construct (function, call site or path) checked against the rule text given under 'rules'"
            % (report.ctx.depth, len(report.obs), len(report.ctx.analysed), st["paths"]),
            "obligations": len(report.obs),
            "discharged": len(held),
            "path_instances_checked": sum(o.npaths for o in report.obs),
            "known_findings_matched": len(known_hit),
            "violations": len(violations),
            "rules": report.rules,
            "rule_instances_per_rule": dict((r, len([o for o in report.obs if o.rule == r])) for r in report.rules),
            "anchor_counts": report.counts,
            "reasoned_exceptions": report.exceptions,
            "functions_analysed": sorted(report.ctx.analysed),
            "paths_enumerated": st["paths"],
            "resolver": {"resolved": st["calls_resolved"], "unresolved_opaque": st["calls_unresolved"], "approx_by_name": st["calls_approx"]},
            "source_model": report.ctx.prog.stats(),
            "samples": samples,
            "notes": report.notes,
            "selftest": getattr(report, "selftest", None),
            "exhaustive": True,
            "checker_cmd": "python3-vt check.py %s --tier %s" % (pid, tier),
            "trusted_base": ["python ast module", "sa/ (this checker)", "CPython semantics of the constructs listed in DESIGN.md section 3"],
        },
        "assumptions": [
            "call resolution is CHA over the package's classes plus field kinds inferred from constructor assignments; calls on values of unknown type are opaque",
            "loops are unrolled once; helper calls are inlined to depth %d" % report.ctx.depth,
            "opaque calls do not change the facts tracked unless a rule's table says so",
            "assert statements are assumed to hold",
        ],
        "wall_s": round(time.time() - t0, 3),
        "violations": len(violations),
    }
    with open(os.path.join(VERIF, "evidence", "%s.json" % pid) if not scratch else os.devnull, "w") as fh:
        json.dump(ev, fh, indent=1, default=str)
    print("%s %s: %d obligations, %d held, %d known findings, %d violations (%.2fs)" % (pid, tier, len(report.obs), len(held), len(known_hit), len(violations), time.time() - t0))
    return 1 if violations else 0
