"""L2' symbolic path executor.

Enumerates the acyclic paths of a function (loops unrolled once, helpers inlined up
to a depth bound with the callee's parameters *re-based* onto the caller's argument
terms) over an abstract domain of hashable tuple terms.  Unknown truth values fork
the path and are memoised per path, known constants do not fork -- which is what
turns `set_result = False ... if set_result:` into a decision table.

Nothing from the analysed package is imported or executed: this interprets the AST.
"""
import ast

from .model import ClassInfo, FunctionInfo, mangle, _dotted, AnalysisError, stmt_key
from .types import EXT_KINDS

NONE = ("const", None)
TRUE = ("const", True)
FALSE = ("const", False)

MUTATORS = {"append", "appendleft", "pop", "popleft", "remove", "add", "discard", "clear", "extend", "insert", "update", "setdefault", "sort", "reverse"}
IMPURE_FUNCS = {"monotonic", "time", "submit", "get_event", "Event", "object", "exc_info"}

EXC_PARENTS = {
    "InvalidStateError": "Error",
    "Error": "Exception",
    "CancelledError": "Error",
    "TimeoutError": "Error",
    "RuntimeError": "Exception",
    "NotImplementedError": "RuntimeError",
    "AttributeError": "Exception",
    "TypeError": "Exception",
    "ValueError": "Exception",
    "KeyError": "LookupError",
    "IndexError": "LookupError",
    "LookupError": "Exception",
    "AssertionError": "Exception",
    "ImportError": "Exception",
    "Exception": "BaseException",
    "BaseException": None,
}


def exc_is_a(name, handler):
    seen = 0
    while name is not None and seen < 10:
        if name == handler:
            return True
        name = EXC_PARENTS.get(name, "Exception" if name not in EXC_PARENTS else None)
        seen += 1
    return False


class Ev(object):
    __slots__ = ("kind", "node", "fn", "d", "locks", "stack", "seq")

    def __init__(self, kind, node, fn, d, locks, stack):
        self.kind = kind
        self.node = node
        self.fn = fn
        self.d = d
        self.locks = locks
        self.stack = stack
        self.seq = 0

    @property
    def lineno(self):
        return getattr(self.node, "lineno", 0)

    def where(self):
        return "%s:%s:%d" % (self.fn.relfile if self.fn else "?", self.fn.qualname if self.fn else "?", self.lineno)

    def __repr__(self):
        return "<%s %s @%s>" % (self.kind, self.d if self.kind != "call" else fmt(self.d["func"]), self.where())


def fmt(t, depth=0):
    """Readable rendering of a term."""
    if not isinstance(t, tuple) or not t:
        return repr(t)
    k = t[0]
    if depth > 6:
        return "..."
    if k == "const":
        return repr(t[1])
    if k in ("param", "name", "local"):
        return t[1]
    if k == "global":
        return t[2]
    if k == "attr":
        return "%s.%s" % (fmt(t[1], depth + 1), t[2])
    if k == "sub":
        return "%s[%s]" % (fmt(t[1], depth + 1), fmt(t[2], depth + 1))
    if k == "call":
        return "%s(%s)" % (fmt(t[1], depth + 1), ", ".join([fmt(a, depth + 1) for a in t[2]] + ["%s=%s" % (kk, fmt(v, depth + 1)) for kk, v in t[3]]))
    if k == "new":
        return "%s#%s" % (t[1].split(":")[-1], t[2].rsplit(":", 1)[0])
    if k == "extnew":
        return "%s#%s()" % (t[1], t[2])
    if k == "func" or k == "class":
        return t[1].split(":")[-1]
    if k == "bin":
        return "(%s %s %s)" % (fmt(t[2], depth + 1), t[1], fmt(t[3], depth + 1))
    if k == "cmp":
        return "(%s %s %s)" % (fmt(t[2], depth + 1), t[1], fmt(t[3], depth + 1))
    if k == "not":
        return "not %s" % fmt(t[1], depth + 1)
    if k == "unary":
        return "%s%s" % (t[1], fmt(t[2], depth + 1))
    if k in ("tuple", "list", "set"):
        return "%s(%s)" % (k, ", ".join(fmt(x, depth + 1) for x in t[1]))
    if k == "seq":
        items = [fmt(x, depth + 1) for x in t[1]]
        if t[2] is not None:
            items.append("*%s[%d:]" % (fmt(t[2], depth + 1), t[3]))
        return "seq(%s)" % ", ".join(items)
    if k == "kw":
        items = ["%s=%s" % (kk, fmt(v, depth + 1)) for kk, v in t[1]]
        if t[2] is not None:
            items.append("**%s" % fmt(t[2], depth + 1))
        return "kw(%s)" % ", ".join(items)
    if k == "elem":
        return "elem(%s)" % fmt(t[1], depth + 1)
    if k == "ref":
        return "<%s#%s>" % ("list", t[1])
    if k == "star":
        return "*" + fmt(t[1], depth + 1)
    if k == "listof":
        return "list(%s)+[%s]" % (fmt(t[1], depth + 1), ", ".join(fmt(x, depth + 1) for x in t[2]))
    if k == "closure":
        return "closure<%s>" % t[1].split(":")[-1]
    if k == "super":
        return "super(%s)" % t[1].split(":")[-1]
    if k == "partial":
        return "partial(%s, %s)" % (fmt(t[1], depth + 1), ", ".join(fmt(a, depth + 1) for a in t[2]))
    return "%s(%s)" % (k, ", ".join(fmt(x, depth + 1) if isinstance(x, tuple) else repr(x) for x in t[1:]))


def subterms(t):
    if isinstance(t, tuple):
        if t and isinstance(t[0], str):
            yield t
        for x in t:
            if isinstance(x, tuple):
                for s in subterms(x):
                    yield s


def contains(t, sub):
    if t == sub:
        return True
    if isinstance(t, tuple):
        for x in t:
            if isinstance(x, tuple) and contains(x, sub):
                return True
    return False


def substitute(t, mapping):
    """replace subterms by mapping (dict term->term), outermost first."""
    if t in mapping:
        return mapping[t]
    if isinstance(t, tuple):
        return tuple(substitute(x, mapping) if isinstance(x, tuple) else x for x in t)
    return t


class Frame(object):
    __slots__ = ("fi", "env", "self_cls", "callnode")

    def __init__(self, fi, env, self_cls, callnode):
        self.fi = fi
        self.env = env
        self.self_cls = self_cls
        self.callnode = callnode

    def copy(self):
        return Frame(self.fi, dict(self.env), self.self_cls, self.callnode)


class Path(object):
    __slots__ = ("frames", "heap", "assume", "events", "locks", "status", "value", "excs", "trunc", "approx", "types")

    def __init__(self):
        self.frames = []
        self.heap = {}
        self.assume = {}
        self.events = []
        self.locks = ()
        self.status = "ok"
        self.value = None
        self.excs = ()
        self.trunc = False
        self.approx = False
        self.types = {}

    def fork(self):
        p = Path()
        p.frames = [f.copy() for f in self.frames]
        p.heap = dict(self.heap)
        p.assume = dict(self.assume)
        p.events = list(self.events)
        p.locks = self.locks
        p.status = self.status
        p.value = self.value
        p.excs = self.excs
        p.trunc = self.trunc
        p.approx = self.approx
        p.types = dict(self.types)
        return p

    @property
    def env(self):
        return self.frames[-1].env

    @property
    def fi(self):
        return self.frames[-1].fi

    def stack(self):
        return tuple(f.callnode for f in self.frames[1:])

    # ---- queries used by rules
    def calls(self, pred=None):
        return [e for e in self.events if e.kind == "call" and (pred is None or pred(e))]

    def evs(self, kind):
        return [e for e in self.events if e.kind == kind]

    def branch_atoms(self):
        return [(e.d[0], e.d[1]) for e in self.events if e.kind == "branch"]


class Config(object):
    def __init__(self, maxdepth=3, maxpaths=4000, inline=None, may_raise=None, assume_asserts=True,
                 inline_init=True, unroll=1, fork_handlers=True, immediate_callbacks=False, loads=(), record_field_types=False):
        self.maxdepth = maxdepth
        self.maxpaths = maxpaths
        self.inline = inline  # fn(fi, ev, path) -> bool ; None = default policy
        self.may_raise = may_raise  # fn(ev, interp, path) -> list of exception names
        self.assume_asserts = assume_asserts
        self.inline_init = inline_init
        self.unroll = unroll
        self.fork_handlers = fork_handlers
        self.immediate_callbacks = immediate_callbacks
        self.loads = tuple(loads)  # attribute names whose reads are recorded as "load" events
        # resolve calls on fields of records taken out of containers (job.future.cancel()) through the container's
        # element class: wanted by the lock analysis (which must see the locks taken inside), not by the rules that
        # treat such a call as one event of the future protocol
        self.record_field_types = record_field_types


LOG_METHODS = {"debug", "info", "warning", "error", "exception", "critical"}


CLOSURES = {}
RETURNS_PARAM = {}


class Interp(object):
    def __init__(self, prog, types, config=None):
        self.prog = prog
        self.types = types
        self.cfg = config or Config()
        self.closures = CLOSURES  # shared: closure values may travel between runs (initial heaps)
        self._site = 0
        self.npaths = 0
        self.truncated = False
        self.unresolved = 0
        self.resolved = 0
        self.approx_resolved = 0

    # ===================================================================== entry
    def run(self, fi, self_cls=None, bind=None, deref=None, heap=None):
        """All paths of fi.  self_cls: concrete class of `self`/`cls` (default: owner).
        bind: dict param -> term override."""
        self.npaths = 0
        p = Path()
        env = {}
        if self_cls is None and fi.owner is not None:
            self_cls = fi.owner
        for n in fi.all_param_names():
            env[n] = ("param", n)
        if fi.vararg:
            env[fi.vararg] = ("seq", (), ("param", fi.vararg), 0)
        if fi.kwarg:
            env[fi.kwarg] = ("kw", (), ("param", fi.kwarg))
        if bind:
            env.update(bind)
        # closure variables of nested functions are left as free names
        p.frames.append(Frame(fi, env, self_cls, None))
        if self_cls is not None and fi.params:
            first = fi.params[0]
            if fi.is_classmethod:
                p.types[("param", first)] = "K:" + self_cls.key
                env[first] = ("class", self_cls.key)
            elif not fi.is_staticmethod and fi.owner is not None:
                p.types[("param", first)] = "C:" + self_cls.key
        for (k, pn), t in self.types.param_types.items():
            if k == fi.key and len(t) == 1 and ("param", pn) not in p.types:
                p.types[("param", pn)] = next(iter(t))
        if heap:
            p.heap.update(heap)
        self.top = fi
        out = self.exec_block(fi.body, p)
        res = []
        for q in out:
            if q.status == "ok":
                q.status = "return"
                q.value = NONE
                self.emit(q, "return", fi.node, NONE)
            res.append(q)
        return res

    # ==================================================================== events
    def emit(self, path, kind, node, d):
        e = Ev(kind, node, path.fi, d, path.locks, path.stack())
        e.seq = len(path.events)
        path.events.append(e)
        return e

    def site(self, node):
        return "%s:%d:%d" % (getattr(node, "lineno", 0), getattr(node, "col_offset", 0), 0)

    # ================================================================= statements
    def exec_block(self, stmts, path):
        paths = [path]
        for st in stmts:
            nxt = []
            for p in paths:
                if p.status != "ok":
                    nxt.append(p)
                    continue
                nxt.extend(self.exec_stmt(st, p))
            paths = nxt
            if len(paths) > self.cfg.maxpaths:
                self.truncated = True
                for p in paths:
                    p.trunc = True
                paths = paths[: self.cfg.maxpaths]
        return paths

    def exec_stmt(self, st, path):
        m = getattr(self, "st_" + type(st).__name__, None)
        if m is None:
            raise AnalysisError("statement kind %s not supported (%s:%d)" % (type(st).__name__, path.fi.relfile, st.lineno))
        return m(st, path)

    def st_Expr(self, st, path):
        return [p for (_, p) in self.eval(st.value, path)]

    def st_Pass(self, st, path):
        return [path]

    def st_Global(self, st, path):
        for n in st.names:
            path.env.pop(n, None)
            path.env["@global:" + n] = TRUE
        return [path]

    st_Nonlocal = st_Global

    def st_Import(self, st, path):
        for a in st.names:
            path.env[a.asname or a.name.split(".")[0]] = ("extmod", a.name)
        return [path]

    def st_ImportFrom(self, st, path):
        m = path.fi.module
        target = self.prog._abs_import(m, st.level, st.module)
        for a in st.names:
            local = a.asname or a.name
            if target in self.prog.modules:
                r = self.prog.resolve_symbol(target, a.name)
                path.env[local] = self.symbol_value(r)
            else:
                path.env[local] = ("ext", "%s.%s" % (target, a.name))
        return [path]

    def symbol_value(self, r):
        if r[0] == "func":
            return ("func", r[1].key)
        if r[0] == "class":
            return ("class", r[1].key)
        if r[0] == "global":
            # a module-level string constant that is never rebound denotes its value
            mod = self.prog.modules.get(r[1])
            defs = mod.assigns.get(r[2], []) if mod is not None else []
            if len(defs) == 1 and not any(isinstance(n, ast.Global) and r[2] in n.names for n in ast.walk(mod.tree)):
                d0 = defs[0]
                if isinstance(d0, ast.Constant) and isinstance(d0.value, str):
                    return ("const", d0.value)
                # ... and so does an immutable tuple of string constants (NAME_ATTRS = ("_name", ...))
                if isinstance(d0, ast.Tuple) and d0.elts and all(isinstance(x, ast.Constant) and isinstance(x.value, str) for x in d0.elts):
                    return ("tuple", tuple(("const", x.value) for x in d0.elts))
            return ("global", r[1], r[2])
        if r[0] == "mod":
            return ("extmod", r[1])
        return ("ext", r[1])

    def st_FunctionDef(self, st, path):
        sub = self.fi_for_node(path.fi, st)
        path.env[st.name] = self.make_closure(sub, path)
        return [path]

    def fi_for_node(self, fi, node):
        f = fi
        while f is not None:
            if id(node) in f.nested:
                return f.nested[id(node)]
            f = f.parent
        # search whole program (closures inlined from elsewhere)
        for g in self.prog.functions.values():
            if g.node is node:
                return g
        raise AnalysisError("nested function not indexed at %s:%d" % (fi.relfile, node.lineno))

    def make_closure(self, sub, path):
        cid = len(self.closures)
        self.closures[cid] = (sub, dict(path.env), path.frames[-1].self_cls)
        return ("closure", sub.key, cid)

    def st_Return(self, st, path):
        out = []
        if st.value is None:
            vals = [(NONE, path)]
        else:
            vals = self.eval(st.value, path)
        for v, p in vals:
            if p.status == "ok":
                p.status = "return"
                p.value = v
                self.emit(p, "return", st, v)
            out.append(p)
        return out

    def st_Raise(self, st, path):
        out = []
        if st.exc is None:
            exc = path.excs[-1] if path.excs else ("exc", "Exception", None)
            vals = [(exc, path)]
        else:
            vals = self.eval(st.exc, path)
        for v, p in vals:
            if p.status == "ok":
                p.status = "raise"
                p.value = self.as_exc(v)
                self.emit(p, "raise", st, p.value)
            out.append(p)
        return out

    def as_exc(self, v):
        if isinstance(v, tuple):
            if v[0] == "exc":
                return v
            if v[0] == "call" and isinstance(v[1], tuple) and v[1][0] in ("name", "ext", "class"):
                return ("exc", v[1][1].split(".")[-1].split(":")[-1], v)
            if v[0] == "new":
                return ("exc", v[1].split(":")[-1], v)
            if v[0] in ("name", "ext", "class"):
                return ("exc", v[1].split(".")[-1].split(":")[-1], v)
        return ("exc", "Exception", v)

    def st_Assert(self, st, path):
        out = []
        for truth, p in self.truth(st.test, path):
            if p.status != "ok":
                out.append(p)
            elif truth:
                out.append(p)
            elif not self.cfg.assume_asserts:
                p.status = "raise"
                p.value = ("exc", "AssertionError", None)
                self.emit(p, "raise", st, p.value)
                out.append(p)
            # else: assertion assumed to hold -> failing path dropped
        return out

    def st_Assign(self, st, path):
        out = []
        # `t = t + e` / `t = t - e` on a field, item or global is the same read-modify-write as `t += e`
        if len(st.targets) == 1 and isinstance(st.targets[0], (ast.Attribute, ast.Subscript, ast.Name)) and isinstance(st.value, ast.BinOp) and isinstance(st.value.op, (ast.Add, ast.Sub)):
            t0 = st.targets[0]
            if not isinstance(t0, ast.Name) or ("@global:" + t0.id) in path.env:
                if ast.dump(_as_load(t0)) == ast.dump(st.value.left):
                    return self._aug(st, t0, st.value.op, st.value.right, path)
        for v, p in self.eval(st.value, path):
            if p.status != "ok":
                out.append(p)
                continue
            ps = [p]
            for t in st.targets:
                nps = []
                for q in ps:
                    nps.extend(self.assign(t, v, q, st))
                ps = nps
            out.extend(ps)
        return out

    def st_AnnAssign(self, st, path):
        if st.value is None:
            return [path]
        out = []
        for v, p in self.eval(st.value, path):
            if p.status == "ok":
                out.extend(self.assign(st.target, v, p, st))
            else:
                out.append(p)
        return out

    def st_AugAssign(self, st, path):
        return self._aug(st, st.target, st.op, st.value, path)

    def _aug(self, st, target, opnode, value, path):
        out = []
        load = ast.copy_location(_as_load(target), target)
        for cur, p in self.eval(load, path):
            if p.status != "ok":
                out.append(p)
                continue
            for v, q in self.eval(value, p):
                if q.status != "ok":
                    out.append(q)
                    continue
                op = _opname(opnode)
                nv = self.binop(op, cur, v)
                # `x += -1` is a decrement: the recorded direction is the effective one
                if op in ("+", "-") and isinstance(v, tuple) and v[0] == "const" and isinstance(v[1], (int, float)) and not isinstance(v[1], bool) and v[1] < 0:
                    op = "-" if op == "+" else "+"
                out.extend(self.assign(target, nv, q, st, aug=op))
        return out

    def assign(self, target, v, path, st, aug=None):
        if isinstance(target, ast.Name):
            if ("@global:" + target.id) in path.env:
                g = ("global", path.fi.module.name, target.id)
                path.heap[g] = v
                self.emit(path, "store", st, {"target": g, "value": v, "aug": aug})
                return [path]
            path.env[target.id] = v
            return [path]
        if isinstance(target, (ast.Tuple, ast.List)):
            n = len(target.elts)
            items = None
            if isinstance(v, tuple) and v[0] in ("tuple", "list") and len(v[1]) == n:
                items = list(v[1])
            else:
                items = [("unpack", v, i) for i in range(n)]
            ps = [path]
            for t, iv in zip(target.elts, items):
                nps = []
                for q in ps:
                    nps.extend(self.assign(t, iv, q, st))
                ps = nps
            return ps
        if isinstance(target, ast.Attribute):
            out = []
            for b, p in self.eval(target.value, path):
                if p.status != "ok":
                    out.append(p)
                    continue
                attr = mangle(p.fi.cls.name if p.fi.cls else None, target.attr)
                t = ("attr", b, attr)
                self.invalidate(p, t)
                p.heap[t] = v
                self.emit(p, "store", st, {"target": t, "value": v, "aug": aug})
                out.append(p)
            return out
        if isinstance(target, ast.Subscript):
            out = []
            for b, p in self.eval(target.value, path):
                if p.status != "ok":
                    out.append(p)
                    continue
                for i, q in self.eval(target.slice, p):
                    if q.status != "ok":
                        out.append(q)
                        continue
                    t = ("sub", b, i)
                    self.invalidate(q, b)
                    q.heap[t] = v
                    self.emit(q, "store", st, {"target": t, "value": v, "aug": aug})
                    out.append(q)
            return out
        if isinstance(target, ast.Starred):
            return self.assign(target.value, v, path, st)
        raise AnalysisError("assignment target %s not supported" % type(target).__name__)

    def invalidate(self, path, base):
        """forget memoised facts and heap entries about anything built on `base`."""
        for k in [k for k in path.assume if contains(k, base)]:
            del path.assume[k]
        for k in [k for k in path.heap if k != base and contains(k, base)]:
            del path.heap[k]

    def st_Delete(self, st, path):
        ps = [path]
        for t in st.targets:
            nps = []
            for p in ps:
                if p.status != "ok":
                    nps.append(p)
                    continue
                if isinstance(t, ast.Name):
                    old = p.env.pop(t.id, None)
                    self.emit(p, "del", st, {"target": ("local", t.id), "old": old})
                    nps.append(p)
                elif isinstance(t, ast.Attribute):
                    for b, q in self.eval(t.value, p):
                        if q.status == "ok":
                            attr = mangle(q.fi.cls.name if q.fi.cls else None, t.attr)
                            tt = ("attr", b, attr)
                            self.invalidate(q, tt)
                            q.heap[tt] = ("deleted",)
                            self.emit(q, "del", st, {"target": tt})
                        nps.append(q)
                elif isinstance(t, ast.Subscript):
                    for b, q in self.eval(t.value, p):
                        if q.status != "ok":
                            nps.append(q)
                            continue
                        for i, r in self.eval(t.slice, q):
                            if r.status == "ok":
                                self.invalidate(r, b)
                                self.emit(r, "del", st, {"target": ("sub", b, i)})
                            nps.append(r)
                else:
                    raise AnalysisError("del target not supported")
            ps = nps
        return ps

    def st_If(self, st, path):
        out = []
        for truth, p in self.truth(st.test, path):
            if p.status != "ok":
                out.append(p)
            elif truth:
                out.extend(self.exec_block(st.body, p))
            else:
                out.extend(self.exec_block(st.orelse, p))
        return out

    def st_While(self, st, path):
        out = []
        const_true = isinstance(st.test, ast.Constant) and bool(st.test.value)
        self.emit(path, "loop", st, ("enter", None))
        for truth, p in self.truth(st.test, path):
            if p.status != "ok":
                out.append(p)
                continue
            if not truth:
                self.emit(p, "loop", st, ("exit", "cond"))
                out.extend(self.exec_block(st.orelse, p))
                continue
            for q in self.exec_block(st.body, p):
                if q.status in ("ok", "continue"):
                    q.status = "ok"
                    self.emit(q, "loop", st, ("back", None))
                    if const_true:
                        q.status = "loop"  # path ends at the back edge of an endless loop
                    out.append(q)
                elif q.status == "break":
                    q.status = "ok"
                    self.emit(q, "loop", st, ("exit", "break"))
                    out.append(q)
                else:
                    out.append(q)
        return out

    def st_For(self, st, path):
        out = []
        for it, p in self.eval(st.iter, path):
            if p.status != "ok":
                out.append(p)
                continue
            self.emit(p, "loop", st, ("enter", it))
            it_ref = it
            it = self.deref(it, p)
            items = self.known_items(it, p)
            if items is not None and len(items) <= 4:
                # full unrolling over a literal
                ps = [p]
                for idx, item in enumerate(items):
                    nps = []
                    for q in ps:
                        if q.status != "ok":
                            nps.append(q)
                            continue
                        for r in self.assign(st.target, item, q, st):
                            for s in self.exec_block(st.body, r):
                                if s.status == "continue":
                                    s.status = "ok"
                                nps.append(s)
                    ps = nps
                for q in ps:
                    if q.status == "break":
                        q.status = "ok"
                        self.emit(q, "loop", st, ("exit", "break"))
                        out.append(q)
                    elif q.status == "ok":
                        self.emit(q, "loop", st, ("exit", "exhausted"))
                        out.extend(self.exec_block(st.orelse, q))
                    else:
                        out.append(q)
                continue
            if isinstance(it, tuple) and it[0] == "listof" and len(it[2]) <= 3:
                # list(<unknown>) + known appended items: at most one symbolic iteration over the unknown
                # part, then the known items in order
                known = self.known_emptiness(it[1], p)
                z = p.fork()
                elem = ("elem", it[1], self.site(st))
                first = []
                if known is not False:
                    for r in self.assign(st.target, elem, p, st):
                        for s_ in self.exec_block(st.body, r):
                            if s_.status == "continue":
                                s_.status = "ok"
                            first.append(s_)
                ps = first + ([z] if known is not True else [])
                for item in it[2]:
                    nps = []
                    for q_ in ps:
                        if q_.status != "ok":
                            nps.append(q_)
                            continue
                        for r in self.assign(st.target, item, q_, st):
                            for s_ in self.exec_block(st.body, r):
                                if s_.status == "continue":
                                    s_.status = "ok"
                                nps.append(s_)
                    ps = nps
                for q_ in ps:
                    if q_.status == "break":
                        q_.status = "ok"
                        self.emit(q_, "loop", st, ("exit", "break"))
                        out.append(q_)
                    elif q_.status == "ok":
                        self.emit(q_, "loop", st, ("exit", "exhausted"))
                        out.extend(self.exec_block(st.orelse, q_))
                    else:
                        out.append(q_)
                continue
            # zero iterations
            known = self.known_emptiness(it, p)
            nonempty = (items is not None and len(items) > 0) or known is True
            if known is False:
                z = p
                self.emit(z, "loop", st, ("exit", "empty"))
                out.extend(self.exec_block(st.orelse, z))
                continue
            if not nonempty:
                z = p.fork()
                self.emit(z, "loop", st, ("exit", "empty"))
                out.extend(self.exec_block(st.orelse, z))
            # one (symbolic) iteration, then leave
            elem = ("elem", it, self.site(st))
            if isinstance(it, tuple) and it[0] == "call" and it[1] == ("name", "enumerate") and it[2]:
                idx_t = ("index", it[2][0], self.site(st))
                start = it[2][1] if len(it[2]) > 1 else dict((k, v) for k, v in it[3] if k).get("start")
                if start is not None and start != ("const", 0):
                    idx_t = ("bin", "+", idx_t, start)  # enumerate(xs, start): positions are shifted
                elem = ("tuple", (idx_t, ("elem", it[2][0], self.site(st))))
            rl = self._range_len(it)
            if rl is not None:
                elem = ("index", rl, self.site(st))  # for i in range(len(xs)): i is a position in xs
            cur = list(self.assign(st.target, elem, p, st))
            for rnd in range(max(1, self.cfg.unroll)):
                nxt = []
                for r in cur:
                    for s in self.exec_block(st.body, r):
                        if s.status in ("ok", "continue"):
                            s.status = "ok"
                            self.emit(s, "loop", st, ("back", None))
                            if rnd + 1 < max(1, self.cfg.unroll):
                                # leave after this iteration, or go round once more with a fresh element
                                t = s.fork()
                                self.emit(t, "loop", st, ("exit", "after-iteration"))
                                out.extend(self.exec_block(st.orelse, t))
                                e2 = ("elem", it, self.site(st), rnd + 2)
                                if isinstance(elem, tuple) and elem[0] == "tuple":
                                    e2 = ("tuple", (("index", it[2][0], self.site(st), rnd + 2), ("elem", it[2][0], self.site(st), rnd + 2)))
                                elif rl is not None:
                                    e2 = ("index", rl, self.site(st), rnd + 2)
                                nxt.extend(self.assign(st.target, e2, s, st))
                            else:
                                self.emit(s, "loop", st, ("exit", "after-iteration"))
                                out.extend(self.exec_block(st.orelse, s))
                        elif s.status == "break":
                            s.status = "ok"
                            self.emit(s, "loop", st, ("exit", "break"))
                            out.append(s)
                        else:
                            out.append(s)
                cur = nxt
                if not cur:
                    break
        return out

    @staticmethod
    def _range_len(it):
        """xs for the iterable range(len(xs)) / range(0, len(xs))"""
        if isinstance(it, tuple) and it[0] == "call" and it[1] == ("name", "range") and not it[3]:
            a = it[2]
            if len(a) == 2 and a[0] == ("const", 0):
                a = a[1:]
            if len(a) == 1 and isinstance(a[0], tuple) and a[0][0] == "call" and a[0][1] == ("name", "len") and len(a[0][2]) == 1 and not a[0][3]:
                return a[0][2][0]
        return None

    def known_emptiness(self, it, path):
        """True: the iterable is known non-empty on this path; False: known empty; None: unknown.
        Uses the memoised truth value of the container (an earlier `if xs:` / `not xs`)."""
        t = it
        for _ in range(3):
            if not isinstance(t, tuple):
                return None
            if t in path.assume:
                return path.assume[t]
            if t[0] == "call" and isinstance(t[1], tuple) and t[1][0] == "attr" and t[1][2] in ("keys", "values", "items", "copy") and not t[2]:
                t = t[1][1]
                continue
            if t[0] == "call" and t[1] in (("name", "list"), ("name", "tuple"), ("name", "iter"), ("name", "enumerate")) and len(t[2]) == 1:
                t = t[2][0]
                continue
            if t[0] == "listof" and not t[2]:
                t = t[1]
                continue
            if self._range_len(t) is not None:
                t = self._range_len(t)
                continue
            return None
        return None

    def known_items(self, it, path):
        it = self.deref(it, path)
        if isinstance(it, tuple):
            if it[0] in ("tuple", "list", "set"):
                return list(it[1])
            if it[0] == "seq" and it[2] is None:
                return list(it[1])
        return None

    def st_Break(self, st, path):
        path.status = "break"
        return [path]

    def st_Continue(self, st, path):
        path.status = "continue"
        return [path]

    def st_With(self, st, path):
        return self._with_items(st, list(st.items), path)

    def _with_items(self, st, items, path):
        if not items:
            return self.exec_block(st.body, path)
        item = items[0]
        out = []
        for entered in self.enter_ctx(item, st, path):
            p, release = entered
            if p.status != "ok":
                out.append(p)
                continue
            for q in self._with_items(st, items[1:], p):
                # leave: release locks acquired by this item on every outcome
                for lk in reversed(release):
                    if q.status == "yield":
                        break  # a suspended contextmanager keeps its locks
                    if q.locks and lk in q.locks:
                        idx = len(q.locks) - 1 - q.locks[::-1].index(lk)
                        q.locks = q.locks[:idx] + q.locks[idx + 1:]
                        self.emit(q, "exit", st, lk)
                out.append(q)
        return out

    def enter_ctx(self, item, st, path):
        """yield (path, [locks acquired]) for entering one with-item."""
        expr = item.context_expr
        results = []
        if isinstance(expr, ast.Call):
            # contextmanager generator?
            for fv, p in self.eval(expr.func, path):
                if p.status != "ok":
                    results.append((p, []))
                    continue
                callee, selfv, self_cls, approx = self.resolve_callee(fv, p, expr)
                if callee is not None and callee.is_contextmanager:
                    argsets = self.eval_args(expr, p)
                    for (args, kwargs, q) in argsets:
                        if q.status != "ok":
                            results.append((q, []))
                            continue
                        before = q.locks
                        ev = self.emit(q, "call", expr, {"func": fv, "args": args, "kwargs": kwargs, "callee": callee, "user": False, "inlined": True, "ctx": True})
                        for r in self.inline(callee, selfv, self_cls, args, kwargs, q, expr, until_yield=True):
                            if r.status == "yield":
                                r.status = "ok"
                                acquired = [lk for lk in r.locks[len(before):]]
                                if item.optional_vars is not None:
                                    for s in self.assign(item.optional_vars, r.value or NONE, r, st):
                                        results.append((s, acquired))
                                else:
                                    results.append((r, acquired))
                            else:
                                results.append((r, []))
                    continue
                # ordinary call producing a context object
                for v, q in self.eval_call(expr, p, fv_known=fv):
                    results.append(self._enter_value(v, q, item, st))
            return results
        for v, p in self.eval(expr, path):
            if p.status != "ok":
                results.append((p, []))
                continue
            results.append(self._enter_value(v, p, item, st))
        return results

    def _enter_value(self, v, p, item, st):
        if p.status != "ok":
            return (p, [])
        kind = self.lock_kind(v, p)
        lk = ("lock", v, kind)
        self.emit(p, "enter", st, lk)
        p.locks = p.locks + (lk,)
        if item.optional_vars is not None:
            self.assign(item.optional_vars, v, p, st)
        return (p, [lk])

    def st_Try(self, st, path):
        out = []
        body_paths = self.exec_block(st.body, path)
        after = []
        for p in body_paths:
            if p.status == "raise":
                handled = self.dispatch_handlers(st, p)
                after.extend(handled)
            elif p.status == "ok":
                after.extend(self.exec_block(st.orelse, p))
            else:
                after.append(p)
        if not st.finalbody:
            return after
        for p in after:
            status, value = p.status, p.value
            if status == "yield":
                out.append(p)
                continue
            p.status = "ok"
            self.emit(p, "finally", st, status)
            for q in self.exec_block(st.finalbody, p):
                if q.status == "ok":
                    q.status, q.value = status, value
                out.append(q)
        return out

    st_TryStar = st_Try

    def dispatch_handlers(self, st, p):
        """p.status == 'raise'.  Returns paths after handler selection."""
        exc = p.value
        ename = exc[1] if isinstance(exc, tuple) and exc[0] == "exc" else "Exception"
        generic = ename in ("Exception", "?")
        out = []
        cur = p
        for h in st.handlers:
            names = self.handler_names(h, cur)
            if names is None or any(exc_is_a(ename, n) for n in names):
                out.extend(self.run_handler(h, cur, exc))
                cur = None
                break
            if generic and self.cfg.fork_handlers:
                # unknown exception type: may or may not match this specific handler
                q = cur.fork()
                self.emit(q, "branch", h, (("exc-matches", tuple(names)), True))
                out.extend(self.run_handler(h, q, exc))
                self.emit(cur, "branch", h, (("exc-matches", tuple(names)), False))
        if cur is not None:
            out.append(cur)
        return out

    def handler_names(self, h, path):
        if h.type is None:
            return None
        elts = h.type.elts if isinstance(h.type, ast.Tuple) else [h.type]
        names = []
        for e in elts:
            d = _dotted(e) or "?"
            names.append(d.split(".")[-1])
        if "BaseException" in names:
            return None
        return names

    def run_handler(self, h, p, exc):
        p.status = "ok"
        p.value = None
        self.emit(p, "catch", h, {"exc": exc, "names": self.handler_names(h, p)})
        if h.name:
            p.env[h.name] = exc
        p.excs = p.excs + (exc,)
        res = self.exec_block(h.body, p)
        for q in res:
            if q.excs:
                q.excs = q.excs[:-1]
            if h.name:
                q.env.pop(h.name, None)
        return res

    def st_ClassDef(self, st, path):
        path.env[st.name] = ("localclass", st.name)
        return [path]

    # ================================================================ expressions
    def truth(self, node, path):
        """list of (bool, path): short-circuit aware truth evaluation of an expression node."""
        if isinstance(node, ast.BoolOp):
            if isinstance(node.op, ast.And):
                res = []
                pend = [path]
                for i, v in enumerate(node.values):
                    npend = []
                    for p in pend:
                        for t, q in self.truth(v, p):
                            if q.status != "ok":
                                res.append((False, q))
                            elif not t:
                                res.append((False, q))
                            else:
                                npend.append(q)
                    pend = npend
                res.extend((True, p) for p in pend)
                return res
            else:
                res = []
                pend = [path]
                for v in node.values:
                    npend = []
                    for p in pend:
                        for t, q in self.truth(v, p):
                            if q.status != "ok":
                                res.append((False, q))
                            elif t:
                                res.append((True, q))
                            else:
                                npend.append(q)
                    pend = npend
                res.extend((False, p) for p in pend)
                return res
        if isinstance(node, ast.UnaryOp) and isinstance(node.op, ast.Not):
            return [((not t) if p.status == "ok" else False, p) for t, p in self.truth(node.operand, path)]
        out = []
        for v, p in self.eval(node, path):
            if p.status != "ok":
                out.append((False, p))
                continue
            out.extend(self.truth_of(v, p, node))
        return out

    def truth_of(self, v, path, node):
        """truth of an abstract value; forks on unknowns (memoised per path)."""
        k = self.known_truth(v, path)
        if k is not None:
            return [(k, path)]
        neg = False
        t = v
        while isinstance(t, tuple) and t[0] == "not":
            neg = not neg
            t = t[1]
        k = self.known_truth(t, path)
        if k is not None:
            return [(k != neg, path)]
        p2 = path.fork()
        self.set_assume(path, t, True)
        self.set_assume(p2, t, False)
        self.emit(path, "branch", node, (t, True))
        self.emit(p2, "branch", node, (t, False))
        if isinstance(v, tuple) and v[0] in ("not", "cmp"):
            # a local that holds this boolean (`first = not self.flag; if first: self.flag = True; return first`)
            # keeps the value it was tested with, whatever happens to the heap afterwards
            for pp, val in ((path, not neg), (p2, neg)):
                for fr in pp.frames:
                    for name, cur in list(fr.env.items()):
                        if cur == v:
                            fr.env[name] = ("const", val)
        return [(not neg, path), (neg, p2)]

    def set_assume(self, path, t, val):
        path.assume[t] = val
        # x is None  ==> x falsy ; x truthy ==> not (x is None)
        if t[0] == "cmp" and t[1] == "is" and t[3] == NONE and val:
            path.assume.setdefault(t[2], False)
        if t[0] == "cmp" and t[1] == "==" and val:
            pass
        if val:
            path.assume.setdefault(("cmp", "is", t, NONE), False)

    def known_truth(self, v, path):
        if not isinstance(v, tuple):
            return None
        v = self.deref(v, path)
        k = v[0]
        if k == "const":
            return bool(v[1])
        if v in path.assume:
            return path.assume[v]
        if k == "not":
            s = self.known_truth(v[1], path)
            return None if s is None else (not s)
        if k in ("new", "extnew", "closure", "func", "class", "partial", "lambda"):
            return True
        if k == "attr":
            t = self.type_of(v, path)
            if t in ("E:Event", "E:Lock", "E:RLock", "E:Condition", "E:Thread", "E:Future"):
                return True  # these objects define no truth value: always true
        if k == "elem":
            t = self.elem_type(v, path)
            if t and t.startswith("C:"):
                ci = self.prog.classes.get(t[2:])
                if ci is not None and ci.record_fields is None and ci.lookup("__bool__")[1] is None and ci.lookup("__len__")[1] is None and ci.lookup("__nonzero__")[1] is None:
                    return True  # an object of a class that defines no truth value is true
        if k in ("tuple", "list", "set"):
            return len(v[1]) > 0
        if k == "seq":
            if v[1]:
                return True
            return None
        if k == "cmp" and v[1] in ("is", "is not"):
            a, b = v[2], v[3]
            if a == b:
                return v[1] == "is"
            for x, y in ((a, b), (b, a)):
                if y == NONE and isinstance(x, tuple) and x[0] in ("new", "extnew", "closure", "func", "class", "tuple", "list", "partial"):
                    return v[1] != "is"
                # a private sentinel (NAME = object()) is identical only to itself: what user code or the
                # standard library returns is never it
                if isinstance(x, tuple) and x[0] == "call" and self.is_sentinel(y) and (self.is_user(x[1], path) or (isinstance(x[1], tuple) and x[1][0] in ("ext", "name")) or self._foreign_call(x[1], path)):
                    return v[1] != "is"
                if y == NONE and isinstance(x, tuple) and x[0] == "const" and x[1] is not None:
                    return v[1] != "is"
                # an element of a container that only ever receives instances of package classes is not None
                if y == NONE and isinstance(x, tuple) and x[0] == "elem":
                    t = self.elem_type(x, path)
                    if t and t.startswith("C:"):
                        return v[1] != "is"
                # a value that took part in an ordered comparison on this path (x <= now) is not None: in python 3
                # ordering None raises TypeError
                if y == NONE and isinstance(x, tuple) and x[0] in ("attr", "call", "bin", "sub", "param"):
                    for t in path.assume:
                        if isinstance(t, tuple) and t and t[0] == "cmp" and t[1] in ("<", "<=", ">", ">=") and (t[2] == x or t[3] == x):
                            return v[1] != "is"
        if k == "cmp" and v[1] in ("==", "!=") and v[2][0] == "const" and v[3][0] == "const":
            return (v[2][1] == v[3][1]) == (v[1] == "==")
        return None

    def eval(self, node, path):
        m = getattr(self, "ex_" + type(node).__name__, None)
        if m is None:
            raise AnalysisError("expression kind %s not supported (%s:%d)" % (type(node).__name__, path.fi.relfile, getattr(node, "lineno", 0)))
        return m(node, path)

    def ex_Constant(self, node, path):
        return [(("const", node.value), path)]

    def ex_Name(self, node, path):
        n = node.id
        if n in path.env:
            return [(path.env[n], path)]
        if ("@global:" + n) in path.env:
            g = ("global", path.fi.module.name, n)
            return [(path.heap.get(g, g), path)]
        # free variable of a nested function run stand-alone
        f = path.fi.parent
        while f is not None:
            if n in f.all_param_names() or n in _assigned_names(f):
                return [(("free", n), path)]
            f = f.parent
        if n in ("True", "False", "None"):
            return [(("const", {"True": True, "False": False, "None": None}[n]), path)]
        r = self.prog.resolve_symbol(path.fi.module.name, n)
        if r[0] == "ext" and "." not in r[1] and r[1] == n:
            return [(("name", n), path)]
        v = self.symbol_value(r)
        if v[0] == "global" and v in path.heap:
            return [(path.heap[v], path)]
        return [(v, path)]

    def ex_Attribute(self, node, path):
        out = []
        for b, p in self.eval(node.value, path):
            if p.status != "ok":
                out.append((None, p))
                continue
            attr = mangle(p.fi.cls.name if p.fi.cls else None, node.attr)
            out.extend(self.getattr_value(b, attr, p, node))
        return out

    def getattr_value(self, b, attr, p, node):
        t = ("attr", b, attr)
        if attr in self.cfg.loads:
            self.emit(p, "load", node, {"target": t})
        if t in p.heap:
            hv = p.heap[t]
            if hv == ("deleted",):
                return [(t, p)]
            return [(hv, p)]
        # module attribute
        if isinstance(b, tuple) and b[0] == "extmod":
            full = "%s.%s" % (b[1], attr)
            if b[1] in self.prog.modules:
                return [(self.symbol_value(self.prog.resolve_symbol(b[1], attr)), p)]
            return [(("ext", full), p)]
        # class attribute / property / bound method of a package class
        ci = self.class_of(b, p)
        if ci is not None and ci.record_fields is None:
            owner, m = ci.lookup(attr)
            if m is not None and m.is_property:
                ev = self.emit(p, "call", node, {"func": t, "args": (), "kwargs": (), "callee": m, "user": False, "inlined": True, "property": True})
                res = []
                for q in self.inline(m, b, ci, (), (), p, node):
                    res.append((q.value if q.status == "ok" else None, q))
                return res
            if m is None:
                o2, cav = ci.class_attr(attr)
                if cav is not None:
                    fake = FunctionInfo("<classattr>", "<classattr>", o2.module, o2, ast.parse("lambda: 0").body[0].value)
                    # evaluate the class attribute expression in its module's scope
                    sub = Path()
                    sub.frames.append(Frame(fake, {}, o2, None))
                    vals = self.eval(cav, sub)
                    if len(vals) == 1 and vals[0][1].status == "ok":
                        return [(vals[0][0], p)]
        if isinstance(b, tuple) and b[0] == "class":
            ci2 = self.prog.classes.get(b[1])
            if ci2 is not None:
                o2, cav = ci2.class_attr(attr)
                if cav is not None and ci2.lookup(attr)[1] is None:
                    return [(("attr", b, attr), p)]
        return [(t, p)]

    def ex_Subscript(self, node, path):
        out = []
        for b, p in self.eval(node.value, path):
            if p.status != "ok":
                out.append((None, p))
                continue
            for i, q in self.eval(node.slice, p):
                if q.status != "ok":
                    out.append((None, q))
                    continue
                out.append((self.subscript(b, i, q), q))
        return out

    def subscript(self, b, i, p):
        t = ("sub", b, i)
        if t in p.heap:
            return p.heap[t]
        if isinstance(i, tuple) and i[0] == "index" and i[1] == b:
            return ("elem", b) + i[2:]  # xs[position in xs] is that iteration's element
        b = self.deref(b, p)
        if isinstance(b, tuple) and b[0] in ("tuple", "list") and i[0] == "const" and isinstance(i[1], int) and -len(b[1]) <= i[1] < len(b[1]):
            return b[1][i[1]]
        if isinstance(b, tuple) and b[0] == "seq":
            if i[0] == "const" and isinstance(i[1], int) and i[1] >= 0:
                if i[1] < len(b[1]):
                    return b[1][i[1]]
                if b[2] is not None:
                    return ("sub", b[2], ("const", b[3] + i[1] - len(b[1])))
            if i[0] == "slice" and i[2] == NONE and i[3] == NONE and i[1][0] == "const" and isinstance(i[1][1], int) and i[1][1] >= 0:
                k = i[1][1]
                if k <= len(b[1]):
                    return ("seq", b[1][k:], b[2], b[3])
                if b[2] is not None:
                    return ("seq", (), b[2], b[3] + k - len(b[1]))
        if isinstance(b, tuple) and b[0] in ("tuple", "list") and i[0] == "slice" and i[2] == NONE and i[3] == NONE and i[1][0] == "const" and isinstance(i[1][1], int) and 0 <= i[1][1] <= len(b[1]):
            return (b[0], b[1][i[1][1]:])
        return t

    def ex_Slice(self, node, path):
        parts = []
        ps = [((), path)]
        for sub in (node.lower, node.upper, node.step):
            nps = []
            for acc, p in ps:
                if sub is None:
                    nps.append((acc + (NONE,), p))
                else:
                    for v, q in self.eval(sub, p):
                        nps.append((acc + (v,), q))
            ps = nps
        return [(("slice",) + acc, p) for acc, p in ps]

    def ex_Index(self, node, path):  # py<3.9 compat
        return self.eval(node.value, path)

    def _eval_list(self, nodes, path):
        ps = [((), path)]
        for n in nodes:
            nps = []
            for acc, p in ps:
                if p.status != "ok":
                    nps.append((acc, p))
                    continue
                if isinstance(n, ast.Starred):
                    for v, q in self.eval(n.value, p):
                        nps.append((acc + (("star", v),), q))
                else:
                    for v, q in self.eval(n, p):
                        nps.append((acc + (v,), q))
            ps = nps
        return ps

    def ex_Tuple(self, node, path):
        return [(self.mkseq("tuple", acc), p) for acc, p in self._eval_list(node.elts, path)]

    def ex_List(self, node, path):
        return [(self.new_cell(self.mkseq("list", acc), p, node), p) for acc, p in self._eval_list(node.elts, path)]

    def ex_Set(self, node, path):
        return [(self.new_cell(self.mkseq("set", acc), p, node), p) for acc, p in self._eval_list(node.elts, path)]

    def new_cell(self, content, path, node):
        """a mutable list/set object: the variable holds a reference, the contents live in the path's heap, so
        that aliases (`bucket = a if c else b; bucket.append(x)`) and helpers that append see one object"""
        if not (isinstance(content, tuple) and content and content[0] in ("list", "set", "listof")):
            return content
        self._site += 1
        ref = ("ref", self._site, self.site(node))
        path.heap[ref] = content
        self.emit(path, "newlist", node, {"ref": ref, "content": content})
        return ref

    def deref(self, v, path):
        if isinstance(v, tuple) and v and v[0] == "ref":
            return path.heap.get(v, v)
        return v

    def mkseq(self, kind, items):
        if any(isinstance(x, tuple) and x and x[0] == "star" for x in items):
            return self.flatten_seq(items)
        return (kind, tuple(items))

    def flatten_seq(self, items, path=None):
        """positional items with ('star', v) -> ('seq', items, rest, offset) when expressible."""
        out = []
        rest = None
        off = 0
        for x in items:
            if isinstance(x, tuple) and x and x[0] == "star":
                v = x[1]
                if path is not None:
                    v = self.deref(v, path)
                if rest is not None:
                    return ("seq?", tuple(items))
                if isinstance(v, tuple) and v[0] in ("tuple", "list"):
                    out.extend(v[1])
                elif isinstance(v, tuple) and v[0] == "seq":
                    out.extend(v[1])
                    if v[2] is not None:
                        rest, off = v[2], v[3]
                else:
                    rest, off = v, 0
            else:
                if rest is not None:
                    return ("seq?", tuple(items))
                out.append(x)
        return ("seq", tuple(out), rest, off)

    def ex_Dict(self, node, path):
        ps = [((), path)]
        for k, v in zip(node.keys, node.values):
            nps = []
            for acc, p in ps:
                if p.status != "ok":
                    nps.append((acc, p))
                    continue
                if k is None:
                    for vv, q in self.eval(v, p):
                        nps.append((acc + (("dstar", vv),), q))
                else:
                    for kv, q in self.eval(k, p):
                        for vv, r in self.eval(v, q):
                            nps.append((acc + ((kv, vv),), r))
            ps = nps
        return [(("dict", acc), p) for acc, p in ps]

    def ex_JoinedStr(self, node, path):
        return [(("str?", self.site(node)), path)]

    def ex_FormattedValue(self, node, path):
        return [(("str?", self.site(node)), path)]

    def ex_Starred(self, node, path):
        return [(("star", v), p) for v, p in self.eval(node.value, path)]

    def ex_Lambda(self, node, path):
        sub = self.fi_for_node(path.fi, node)
        return [(self.make_closure(sub, path), path)]

    def ex_IfExp(self, node, path):
        out = []
        for t, p in self.truth(node.test, path):
            if p.status != "ok":
                out.append((None, p))
            elif t:
                out.extend(self.eval(node.body, p))
            else:
                out.extend(self.eval(node.orelse, p))
        return out

    def ex_BoolOp(self, node, path):
        # value semantics of and/or
        is_and = isinstance(node.op, ast.And)
        res = []
        pend = [path]
        for i, vnode in enumerate(node.values):
            last = i == len(node.values) - 1
            npend = []
            for p in pend:
                for v, q in self.eval(vnode, p):
                    if q.status != "ok":
                        res.append((None, q))
                        continue
                    if last:
                        res.append((v, q))
                        continue
                    for t, r in self.truth_of(v, q, vnode):
                        if t == is_and:
                            npend.append(r)
                        else:
                            res.append((v, r))
            pend = npend
        return res

    def ex_UnaryOp(self, node, path):
        out = []
        for v, p in self.eval(node.operand, path):
            if p.status != "ok":
                out.append((None, p))
                continue
            if isinstance(node.op, ast.Not):
                k = self.known_truth(v, p)
                if k is not None:
                    out.append((("const", not k), p))
                else:
                    out.append((("not", v), p))
            else:
                op = {ast.USub: "-", ast.UAdd: "+", ast.Invert: "~"}[type(node.op)]
                if v[0] == "const" and isinstance(v[1], (int, float)) and op in "-+":
                    out.append((("const", -v[1] if op == "-" else +v[1]), p))
                else:
                    out.append((("unary", op, v), p))
        return out

    def binop(self, op, a, b):
        if a[0] == "const" and b[0] == "const" and isinstance(a[1], (int, float)) and isinstance(b[1], (int, float)) and not isinstance(a[1], bool):
            try:
                if op == "+":
                    return ("const", a[1] + b[1])
                if op == "-":
                    return ("const", a[1] - b[1])
                if op == "*":
                    return ("const", a[1] * b[1])
            except Exception:
                pass
        if op == "+" and a[0] in ("list", "tuple") and b[0] == a[0]:
            return (a[0], a[1] + b[1])
        if op == "+" and a[0] == "list" and b[0] == "listof" and not a[1]:
            return b
        if op == "+" and a[0] == "listof" and b[0] == "list":
            return ("listof", a[1], a[2] + b[1])  # list(xs) + [y, z]
        return ("bin", op, a, b)

    def ex_BinOp(self, node, path):
        out = []
        for a, p in self.eval(node.left, path):
            if p.status != "ok":
                out.append((None, p))
                continue
            for b, q in self.eval(node.right, p):
                if q.status != "ok":
                    out.append((None, q))
                    continue
                a2, b2 = self.deref(a, q), self.deref(b, q)
                res = self.binop(_opname(node.op), a2 if a2 is not a and _opname(node.op) == "+" else a, b2 if b2 is not b and _opname(node.op) == "+" else b)
                if _opname(node.op) == "+" and isinstance(res, tuple) and res[0] in ("list", "set", "listof"):
                    res = self.new_cell(res, q, node)
                out.append((res, q))
        return out

    def ex_Compare(self, node, path):
        out = []
        for a, p in self.eval(node.left, path):
            if p.status != "ok":
                out.append((None, p))
                continue
            ps = [(a, None, p)]
            for op, cnode in zip(node.ops, node.comparators):
                nps = []
                for left, acc, q in ps:
                    for b, r in self.eval(cnode, q):
                        if r.status != "ok":
                            nps.append((None, None, r))
                            continue
                        opn = _cmpname(op)
                        if opn == "is not":
                            term = ("not", ("cmp", "is", left, b))
                        elif opn == "not in":
                            term = ("not", ("cmp", "in", left, b))
                        elif opn == "!=":
                            term = ("not", ("cmp", "==", left, b))
                        else:
                            term = ("cmp", opn, left, b)
                        k = self.known_truth(term, r)
                        if k is not None:
                            term = ("const", k)
                        nacc = term if acc is None else ("and", acc, term)
                        nps.append((b, nacc, r))
                ps = nps
            for left, acc, q in ps:
                out.append((acc, q))
        return out

    def _comp(self, node, path, elts):
        # evaluate generators once with symbolic elements; record events of the element expr
        p = path
        saved = {}
        its = []
        for g in node.generators:
            vals = self.eval(g.iter, p)
            if len(vals) != 1:
                # forked inside a comprehension iterable: keep first, mark approx
                p.approx = True
            it, p = vals[0]
            if p.status != "ok":
                return [(None, p)]
            its.append(it)
            elem = ("elem", it, self.site(g.iter))
            self.emit(p, "loop", node, ("enter", it))
            for n in _target_names(g.target):
                saved[n] = p.env.get(n, ("unbound",))
            ps = self.assign(g.target, elem, p, node)
            p = ps[0]
            for c in g.ifs:
                # conditions are not forked: the element is kept symbolic
                vals = self.eval(c, p)
                p = vals[0][1]
        out = []
        vals = [((), p)]
        for e in elts:
            nvals = []
            for acc, q in vals:
                for v, r in self.eval(e, q):
                    nvals.append((acc + (v,), r))
            vals = nvals
        for acc, q in vals:
            if q.status == "ok":
                self.emit(q, "loop", node, ("exit", "comprehension"))
                for n, old in saved.items():
                    if old == ("unbound",):
                        q.env.pop(n, None)
                    else:
                        q.env[n] = old
            conds = tuple(stmt_key(c) for g in node.generators for c in g.ifs)
            out.append((("comp", type(node).__name__, acc, tuple(its), conds), q))
        return out

    def ex_ListComp(self, node, path):
        return self._comp(node, path, [node.elt])

    ex_SetComp = ex_ListComp
    ex_GeneratorExp = ex_ListComp

    def ex_DictComp(self, node, path):
        return self._comp(node, path, [node.key, node.value])

    def ex_Yield(self, node, path):
        out = []
        vals = self.eval(node.value, path) if node.value is not None else [(NONE, path)]
        for v, p in vals:
            if p.status == "ok":
                self.emit(p, "yield", node, v)
                if getattr(self, "_until_yield", 0) and len(p.frames) == self._yield_depth:
                    p.status = "yield"
                    p.value = v
            out.append((NONE, p))
        return out

    def ex_NamedExpr(self, node, path):
        out = []
        for v, p in self.eval(node.value, path):
            if p.status == "ok":
                p.env[node.target.id] = v
            out.append((v, p))
        return out

    # ---------------------------------------------------------------------- calls
    def eval_args(self, node, path):
        """[(args tuple, kwargs tuple of (name|None, value), path)]"""
        res = []
        for args, p in self._eval_list(node.args, path):
            if p.status != "ok":
                res.append((args, (), p))
                continue
            ps = [((), p)]
            for kw in node.keywords:
                nps = []
                for acc, q in ps:
                    if q.status != "ok":
                        nps.append((acc, q))
                        continue
                    for v, r in self.eval(kw.value, q):
                        if kw.arg is None and isinstance(v, tuple) and v and v[0] == "dict" and v[1] and all(isinstance(k, tuple) and k[0] == "const" and isinstance(k[1], str) for k, _v in v[1]):
                            # f(**{"a": x, "b": y})  ==  f(a=x, b=y)
                            nps.append((acc + tuple((k[1], vv) for k, vv in v[1]), r))
                        else:
                            nps.append((acc + ((kw.arg, v),), r))
                ps = nps
            for kws, q in ps:
                res.append((args, kws, q))
        return res

    def ex_Call(self, node, path):
        return self.eval_call(node, path)

    def eval_call(self, node, path, fv_known=None):
        out = []
        # list / set objects created on this path are mutable cells:  xs = [] ... xs.append(v)
        f = node.func
        if fv_known is None and isinstance(f, ast.Attribute) and f.attr in ("append", "add", "insert", "extend") and not node.keywords and len(node.args) in (1, 2):
            handled = False
            for base, p0 in self.eval(f.value, path):
                if p0.status != "ok" or not (isinstance(base, tuple) and base and base[0] == "ref" and base in p0.heap):
                    if handled:
                        out.append((None, p0))
                        continue
                    # not a cell: fall through to the general case (only valid if nothing was handled yet)
                    handled = None
                    break
                handled = True
                for args, p in self._eval_list(node.args, p0):
                    if p.status != "ok":
                        out.append((None, p))
                        continue
                    cur2 = p.heap.get(base)
                    v = args[-1]
                    if f.attr == "extend":
                        # xs.extend(ys): an empty or literal list followed by all of ys
                        ysd = self.deref(v, p)
                        if cur2[0] == "list" and isinstance(ysd, tuple) and ysd and ysd[0] == "list":
                            p.heap[base] = ("list", cur2[1] + ysd[1])
                        elif cur2[0] == "list" and not cur2[1]:
                            p.heap[base] = ("listof", v, ())
                        else:
                            p.heap[base] = ("bin", "+", cur2, ("listof", v, ()))
                        self.emit(p, "call", node, {"func": ("attr", base, f.attr), "args": tuple(args), "kwargs": (), "callee": None, "user": False, "inlined": False, "approx": False, "builtin": True})
                        out.append((NONE, p))
                        continue
                    if cur2[0] not in ("list", "set", "listof"):
                        cur2 = ("listof", cur2, ())
                    front = f.attr == "insert" and len(args) == 2 and args[0] == ("const", 0)
                    if f.attr == "insert" and not front:
                        p.heap[base] = ("listof", ("unknown-order", cur2), (v,))
                    elif cur2[0] == "listof":
                        p.heap[base] = ("listof", cur2[1], ((v,) + cur2[2]) if front and not cur2[1] else cur2[2] + (v,)) if not front else ("listof", ("unknown-order", cur2), (v,))
                    else:
                        p.heap[base] = (cur2[0], ((v,) + cur2[1]) if front else cur2[1] + (v,))
                    self.emit(p, "call", node, {"func": ("attr", base, f.attr), "args": tuple(args), "kwargs": (), "callee": None, "user": False, "inlined": False, "approx": False, "builtin": True})
                    out.append((NONE, p))
            if handled:
                return out
            out = []
        fvals = [(fv_known, path)] if fv_known is not None else self.eval(node.func, path)
        for fv, p in fvals:
            if p.status != "ok":
                out.append((None, p))
                continue
            for args, kwargs, q in self.eval_args(node, p):
                if q.status != "ok":
                    out.append((None, q))
                    continue
                out.extend(self.apply(fv, args, kwargs, q, node))
        return out

    def _foreign_call(self, fv, path):
        """the callee is not a function of the package (a method of an object the library was handed, ...)"""
        try:
            callee, _s, _c, _a = self.resolve_callee(fv, path, None)
        except Exception:
            return False
        return callee is None

    def is_sentinel(self, t):
        if not (isinstance(t, tuple) and len(t) == 3 and t[0] == "global"):
            return False
        mod = self.prog.modules.get(t[1])
        defs = mod.assigns.get(t[2], []) if mod is not None else []
        return len(defs) == 1 and isinstance(defs[0], ast.Call) and isinstance(defs[0].func, ast.Name) and defs[0].func.id == "object" and not defs[0].args

    def is_user(self, fv, path):
        """is this callee user-supplied code?"""
        t = fv
        if not isinstance(t, tuple):
            return False
        if t[0] == "attr":
            if t[2] in self.types.tainted_fields:
                return True
            # method of a user-supplied object (policy.should_retry)
            b = t[1]
            if isinstance(b, tuple) and b[0] == "attr" and b[2] in self.types.tainted_fields:
                return True
            if isinstance(b, tuple) and b[0] == "param" and b[1] in ("retry_policy", "policy"):
                return True
            return False
        if t[0] == "param":
            return t[1] in ("fn", "error_fn", "map_fn", "poll_fn", "cancel_fn", "count", "callback")
        if t[0] == "elem":
            b = t[1]
            if isinstance(b, tuple) and b[0] == "attr" and b[2] in self.types.tainted_containers:
                return True
        if t[0] == "free":
            return t[1] in ("fn", "error_fn", "count")
        return False

    def apply(self, fv, args, kwargs, p, node):
        """perform a call; returns [(value, path)]"""
        # f(*xs) with xs a sequence whose items are all known is f(x0, x1, ...)
        if any(isinstance(a, tuple) and a and a[0] == "star" for a in args):
            flat = []
            for a in args:
                if isinstance(a, tuple) and a and a[0] == "star":
                    v = self.deref(a[1], p)
                    if isinstance(v, tuple) and v and v[0] == "seq" and v[2] is None:
                        flat.extend(v[1])
                        continue
                    if isinstance(v, tuple) and v and v[0] in ("tuple", "list"):
                        flat.extend(v[1])
                        continue
                flat.append(a)
            args = tuple(flat)
        # functools.partial / builtins with modelled semantics
        special = self.special_call(fv, args, kwargs, p, node)
        if special is not None:
            return special
        # explicit lock.acquire() / lock.release() (try/finally style) move the held-lock set like `with`
        if isinstance(fv, tuple) and fv[0] == "attr" and fv[2] in ("acquire", "release") and not kwargs:
            kind = self.lock_kind(fv[1], p)
            if kind in ("Lock", "RLock", "Condition"):
                lk = ("lock", fv[1], kind)
                if fv[2] == "acquire" and not args:
                    self.emit(p, "enter", node, lk)
                    p.locks = p.locks + (lk,)
                    return [(("const", True), p)]
                if fv[2] == "release" and not args:
                    if lk in p.locks:
                        idx = len(p.locks) - 1 - p.locks[::-1].index(lk)
                        p.locks = p.locks[:idx] + p.locks[idx + 1:]
                    self.emit(p, "exit", node, lk)
                    return [(NONE, p)]
        callee, selfv, self_cls, approx = self.resolve_callee(fv, p, node)
        if callee is not None and isinstance(fv, tuple) and fv[0] == "attr" and isinstance(fv[1], tuple) and fv[1][0] == "attr" and fv[1][2] in self.types.tainted_fields and callee.owner is not None:
            # a method of an object the user may supply (a retry policy): the library's default class is only one
            # possibility, the call is user code
            callee, selfv, self_cls, approx = None, None, None, False
        user = callee is None and self.is_user(fv, p)
        d = {"func": fv, "args": args, "kwargs": kwargs, "callee": callee, "user": user, "inlined": False, "approx": approx}
        if isinstance(fv, tuple) and fv[0] == "attr" and fv[2] == "wait":
            # what is still referenced by local variables while the thread blocks (reference discipline rules)
            d["live"] = [(fr.fi.qualname, dict(fr.env)) for fr in p.frames]
        ev = self.emit(p, "call", node, d)
        if callee is not None:
            self.resolved += 1
            if approx:
                self.approx_resolved += 1
        else:
            self.unresolved += 1
        results = []
        # exceptional outcomes
        raises = self.cfg.may_raise(ev, self, p) if self.cfg.may_raise else (["Exception"] if user else [])
        for en in raises:
            r = p.fork()
            r.status = "raise"
            r.value = ("exc", en, ("from", self.site(node)))
            self.emit(r, "raise", node, r.value)
            results.append((None, r))
        if callee is not None and self.should_inline(callee, ev, p):
            d["inlined"] = True
            is_ctor = isinstance(fv, tuple) and fv[0] == "class"
            if is_ctor:
                obj = ("new", fv[1], self.site(node))
                d["result"] = obj
                p.types[obj] = "C:" + fv[1]
                for q in self.inline(callee, obj, self_cls, args, kwargs, p, node):
                    if q.status == "ok":
                        results.append((obj, q))
                    else:
                        results.append((None, q))
                return results
            for q in self.inline(callee, selfv, self_cls, args, kwargs, p, node):
                results.append((q.value if q.status == "ok" else None, q))
            return results
        # opaque
        if self.cfg.immediate_callbacks and callee is None and isinstance(fv, tuple) and fv[0] == "attr" and fv[2] == "add_done_callback" and len(args) == 1:
            # the receiver may already be done: the callback then runs right here, on this thread, with
            # every lock that is held now
            cb = args[0]
            cbc, _s, _c, _a = self.resolve_callee(cb, p, node)
            if cbc is not None or (isinstance(cb, tuple) and cb[0] == "partial"):
                q = p.fork()
                self.emit(q, "immediate-callback", node, {"cb": cb, "recv": fv[1]})
                for v2, r in self.apply(cb, (fv[1],), (), q, node):
                    if r.status == "ok":
                        results.append((NONE, r))
                    else:
                        results.append((None, r))
        res = self.opaque_result(fv, args, kwargs, p, node, callee)
        d["result"] = res
        if isinstance(res, tuple) and res and res[0] == "call":
            d["site"] = res[4]
        results.append((res, p))
        return results

    def opaque_result(self, fv, args, kwargs, p, node, callee):
        if isinstance(fv, tuple) and fv[0] == "class":
            ci = self.prog.classes.get(fv[1])
            obj = ("new", fv[1], self.site(node))
            p.types[obj] = "C:" + fv[1]
            if ci is not None and ci.record_fields is not None:
                self.bind_record(ci, obj, args, kwargs, p)
            return obj
        if isinstance(fv, tuple) and fv[0] == "ext" and fv[1] in EXT_KINDS:
            obj = ("extnew", EXT_KINDS[fv[1]], self.site(node), args, kwargs)
            p.types[obj] = "E:" + EXT_KINDS[fv[1]]
            return obj
        # mutation of a container invalidates what we know about it
        if isinstance(fv, tuple) and fv[0] == "attr" and fv[2] in MUTATORS:
            self.invalidate(p, fv[1])
        # a state transition of a future changes what done()/cancelled()/... answer from now on
        if isinstance(fv, tuple) and fv[0] == "attr" and fv[2] in ("set_result", "set_exception", "set_exception_info", "cancel", "set_running_or_notify_cancel"):
            r = fv[1][2] if isinstance(fv[1], tuple) and fv[1][0] == "super" else fv[1]
            for k in [k for k in p.assume if isinstance(k, tuple) and k[0] == "call" and isinstance(k[1], tuple) and k[1][0] == "attr" and k[1][1] == r and k[1][2] in ("done", "cancelled", "running", "exception", "result")]:
                del p.assume[k]
            if fv[2].startswith("set_") and fv[2] != "set_running_or_notify_cancel":
                p.assume[("call", ("attr", r, "done"), (), (), None)] = True
        name = None
        if isinstance(fv, tuple):
            if fv[0] in ("name", "ext", "func", "global"):
                name = fv[-1].split(".")[-1].split(":")[-1]
            elif fv[0] == "attr":
                name = fv[2]
        site = self.site(node) if name in IMPURE_FUNCS else None
        if site is not None:
            self._site += 1
            site = "%s#%d" % (site, self._site)
        if callee is not None:
            # a resolved helper that is not inlined but provably returns one of its parameters (track_future(f))
            idx = self.returns_param(callee)
            if idx is not None:
                pos = [a for a in args if not (isinstance(a, tuple) and a and a[0] == "star")]
                if len(pos) == len(args) and idx < len(pos):
                    return pos[idx]
        res = ("call", fv, args, kwargs, site)
        if callee is not None and res not in p.types:
            rts = [t for t in self.types._return_type(callee, 0) if t.startswith("C:")]
            if len(rts) == 1:
                p.types[res] = rts[0]
        return res

    def returns_param(self, callee):
        """index (among the positional parameters after self) of the parameter that `callee` returns on every
        returning path, or None"""
        cache = RETURNS_PARAM
        if callee.key in cache:
            return cache[callee.key]
        cache[callee.key] = None  # recursion guard
        res = None
        if callee.owner is None and callee.params and not callee.is_contextmanager:
            try:
                sub = Interp(self.prog, self.types, Config(maxdepth=0, maxpaths=200))
                ps = sub.run(callee, None)
                vals = set(p.value for p in ps if p.status == "return")
                if len(vals) == 1 and not sub.truncated:
                    v = vals.pop()
                    if isinstance(v, tuple) and v[0] == "param" and v[1] in callee.params:
                        res = callee.params.index(v[1])
            except AnalysisError:
                res = None
        cache[callee.key] = res
        return res

    def bind_record(self, ci, obj, args, kwargs, p):
        for i, a in enumerate(args):
            if i < len(ci.record_fields) and not (isinstance(a, tuple) and a and a[0] == "star"):
                p.heap[("attr", obj, ci.record_fields[i])] = a
        for k, v in kwargs:
            if k in ci.record_fields:
                p.heap[("attr", obj, k)] = v

    def special_call(self, fv, args, kwargs, p, node):
        if not isinstance(fv, tuple):
            return None
        if fv[0] == "ext" and fv[1] == "functools.partial" and args:
            self.emit(p, "call", node, {"func": fv, "args": args, "kwargs": kwargs, "callee": None, "user": False, "inlined": False, "approx": False})
            return [(("partial", args[0], tuple(args[1:]), tuple(kwargs)), p)]
        if fv[0] == "partial":
            return self.apply(fv[1], tuple(fv[2]) + tuple(args), tuple(fv[3]) + tuple(kwargs), p, node)
        if fv[0] == "name":
            n = fv[1]
            if n == "super":
                if len(args) == 2 and args[0][0] == "class":
                    return [(("super", args[0][1], args[1]), p)]
                if not args and p.fi.cls is not None and p.fi.params:
                    return [(("super", p.fi.cls.key, p.env.get(p.fi.params[0])), p)]
            if n == "list" and len(args) == 1 and isinstance(args[0], tuple):
                a = self.deref(args[0], p)
                if a[0] in ("tuple", "list"):
                    return [(self.new_cell(("list", a[1]), p, node), p)]
                if a[0] == "seq" and a[2] is None:
                    return [(self.new_cell(("list", a[1]), p, node), p)]
                if a[0] == "seq":
                    return [(self.new_cell(("listof", a, ()), p, node), p)]  # a list *copy* of *args
            if n == "list" and len(args) == 1 and not kwargs:
                return [(self.new_cell(("listof", args[0], ()), p, node), p)]
            if n == "list" and not args:
                return [(self.new_cell(("list", ()), p, node), p)]
            if n == "set" and not args:
                return [(self.new_cell(("set", ()), p, node), p)]
            if n == "dict" and not args and not kwargs:
                return [(("dict", ()), p)]
            if n == "dict" and not args and kwargs and all(k is not None for k, v in kwargs):
                # dict(a=x, b=y) is {"a": x, "b": y}
                return [(("dict", tuple((("const", k), v) for k, v in kwargs)), p)]
            if n == "len" and len(args) == 1 and isinstance(self.deref(args[0], p), tuple) and self.deref(args[0], p)[0] in ("tuple", "list"):
                return [(("const", len(self.deref(args[0], p)[1])), p)]
            if n == "getattr" and len(args) == 2 and isinstance(args[1], tuple) and args[1][0] == "const" and isinstance(args[1][1], str):
                # getattr(obj, "literal") is plain attribute access
                vals = self.getattr_value(args[0], args[1][1], p, node)
                if len(vals) == 1 and vals[0][0] != ("attr", args[0], args[1][1]):
                    return vals
                if isinstance(args[0], tuple) and args[0][0] == "class":
                    return [(("attr", args[0], args[1][1]), p)]
            if n in ("isinstance", "callable", "hasattr", "getattr", "len", "min", "max", "repr", "str", "dir", "enumerate", "zip", "iter", "pow", "abs", "round", "divmod", "int", "float", "complex", "bool", "tuple", "range", "id", "type", "sorted", "any", "all", "setattr"):
                if n in ("callable",) and len(args) == 1:
                    k = args[0]
                    if isinstance(k, tuple) and k[0] in ("closure", "func", "partial"):
                        return [(TRUE, p)]
                ev = self.emit(p, "call", node, {"func": fv, "args": args, "kwargs": kwargs, "callee": None, "user": False, "inlined": False, "approx": False, "builtin": True})
                return [(("call", fv, args, kwargs, None), p)]
        # local list/set mutation tracked functionally:  x.append(v) where x is a known literal
        if fv[0] == "attr" and fv[2] in ("append", "add") and len(args) == 1 and isinstance(fv[1], tuple) and fv[1][0] in ("list", "set"):
            return None  # handled in method-call on value below
        return None

    def should_inline(self, callee, ev, path):
        if self.cfg.inline is not None:
            r = self.cfg.inline(callee, ev, path)
            if r is not None:
                return r
        if len(path.frames) > self.cfg.maxdepth:
            path.trunc = True
            return False
        if any(f.fi is callee for f in path.frames):
            return False
        if callee.owner is not None and callee.owner.name == "LogWrapper":
            return False
        if callee.name == "__init__" and not self.cfg.inline_init:
            return False
        return True

    def class_of(self, v, path):
        t = self.type_of(v, path)
        if t and t.startswith("C:"):
            return self.prog.classes.get(t[2:])
        return None

    def type_of(self, v, path, depth=0):
        if not isinstance(v, tuple) or depth > 6:
            return None
        if v in path.types:
            return path.types[v]
        k = v[0]
        if k == "new":
            return "C:" + v[1]
        if k == "extnew":
            return "E:" + v[1]
        if k == "attr":
            if v in path.heap:
                return self.type_of(path.heap[v], path, depth + 1)
            bt = self.type_of(v[1], path, depth + 1)
            if bt is None and self.cfg.record_field_types and isinstance(v[1], tuple) and v[1] and v[1][0] == "elem":
                # a field of a record taken from a container whose element class is known (job.future)
                bt = self.elem_type(v[1], path)
            if bt and bt.startswith("C:"):
                ci = self.prog.classes.get(bt[2:])
                if ci is not None:
                    ts = self.types.field_type(ci, v[2])
                    cs = [t for t in ts if t.startswith("C:")]
                    if len(cs) == 1:
                        return cs[0]
                    if len(ts) == 1:
                        return next(iter(ts))
                    # several package classes with a common base: choose nothing
            return None
        if k == "global":
            ts = self.types.global_types.get((v[1], v[2]), set())
            if len(ts) == 1:
                return next(iter(ts))
            return None
        if k == "call":
            f = v[1]
            if isinstance(f, tuple) and f[0] == "param":
                key = (self.top.key, f[1])
                if key in self.types.deref_types:
                    return self.types.deref_types[key]
                # weakref passed down from a thread target to a helper: by param-type table
            if isinstance(f, tuple) and f[0] in ("param",):
                for fr in path.frames:
                    key = (fr.fi.key, f[1])
                    if key in self.types.deref_types:
                        return self.types.deref_types[key]
            return None
        if k == "elem":
            return None
        return None

    def elem_type(self, v, path, depth=0):
        """package class of an element of a container field (from the values appended to it anywhere); used for what
        is true of every instance (truthiness), not for call resolution"""
        if not (isinstance(v, tuple) and v and v[0] == "elem"):
            return None
        if True:
            # element of a container field whose appended values have one known package class
            b = v[1]
            for _ in range(4):
                if isinstance(b, tuple) and b and b[0] == "sub" and isinstance(b[2], tuple) and b[2][0] == "slice":
                    b = b[1]
                elif isinstance(b, tuple) and b and b[0] == "call" and b[1] in (("name", "list"), ("name", "tuple"), ("name", "reversed"), ("name", "iter")) and len(b[2]) == 1:
                    b = b[2][0]
                elif isinstance(b, tuple) and b and b[0] == "listof" and not b[2]:
                    b = b[1]
                else:
                    break
            if isinstance(b, tuple) and b and b[0] == "attr":
                bt = self.type_of(b[1], path, depth + 1)
                if bt and bt.startswith("C:"):
                    ci = self.prog.classes.get(bt[2:])
                    ets = set()
                    for c in (ci.mro() if ci is not None else []):
                        if hasattr(c, "key"):
                            ets |= self.types.elem_types.get((c.key, b[2]), set())
                    if len(ets) == 1:
                        return next(iter(ets))
            return None
        return None

    def lock_kind(self, v, path):
        t = self.type_of(v, path)
        if t in ("E:Lock", "E:RLock", "E:Condition"):
            return t[2:]
        # field-name fallback across classes (unknown receiver type)
        if isinstance(v, tuple) and v[0] == "attr":
            kinds = set()
            for (ck, f), ts in self.types.field_types.items():
                if f == v[2]:
                    kinds |= set(x[2:] for x in ts if x in ("E:Lock", "E:RLock", "E:Condition"))
            if len(kinds) == 1:
                return kinds.pop()
            if kinds:
                return "mixed"
        return None

    def resolve_callee(self, fv, path, node):
        """-> (FunctionInfo|None, self value, self class, approx flag)"""
        if not isinstance(fv, tuple):
            return None, None, None, False
        k = fv[0]
        if k == "func":
            return self.prog.functions.get(fv[1]), None, None, False
        if k == "class":
            ci = self.prog.classes.get(fv[1])
            if ci is None or ci.record_fields is not None:
                return None, None, None, False
            owner, m = ci.lookup("__init__")
            return m, None, ci, False
        if k == "closure":
            sub, env, scls = self.closures[fv[2]]
            return sub, ("closure-env", fv[2]), scls, False
        if k in ("attr", "new", "global", "param"):
            # an instance of a package class that defines __call__
            vci = self.class_of(fv, path)
            if vci is not None and vci.record_fields is None:
                o, m = vci.lookup("__call__")
                if m is not None:
                    return m, fv, vci, False
        if k == "attr":
            b, name = fv[1], fv[2]
            if isinstance(b, tuple) and b[0] == "super":
                scls = path.frames[-1].self_cls
                start = self.prog.classes.get(b[1])
                inst = b[2]
                ci = self.class_of(inst, path) or scls
                if ci is not None and start is not None:
                    o, m, ext = ci.lookup_after(start, name)
                    if m is not None:
                        return m, inst, ci, False
                return None, None, None, False
            if isinstance(b, tuple) and b[0] == "class":
                ci = self.prog.classes.get(b[1])
                if ci is not None:
                    o, m = ci.lookup(name)
                    if m is not None:
                        if m.is_classmethod:
                            return m, b, ci, False
                        if m.is_staticmethod:
                            return m, None, ci, False
                        return m, None, ci, False  # unbound: self comes from args
                return None, None, None, False
            ci = self.class_of(b, path)
            if ci is not None:
                if ci.record_fields is not None:
                    return None, None, None, False
                o, m = ci.lookup(name)
                if m is not None:
                    if m.is_classmethod:
                        return m, ("class", ci.key), ci, False
                    return m, b, ci, False
                # attribute holding a callable object with __call__?
                return None, None, None, False
            t = self.type_of(b, path)
            if t is not None:
                return None, None, None, False  # external type: opaque
            # calling an instance of a package class with __call__
            # by-name fallback: unique private method name in the package
            if name.startswith("_") and not name.startswith("__"):
                cands = self.prog.methods_named(name)
                owners = set(c.owner for c in cands)
                if len(cands) == 1:
                    m = cands[0]
                    if m.is_classmethod:
                        return m, ("class", m.owner.key), m.owner, True
                    return m, b, m.owner, True
            return None, None, None, False
        if k == "new":
            ci = self.prog.classes.get(fv[1])
            if ci is not None and ci.record_fields is None:
                o, m = ci.lookup("__call__")
                if m is not None:
                    return m, fv, ci, False
        return None, None, None, False

    def inline(self, callee, selfv, self_cls, args, kwargs, p, node, until_yield=False):
        """run callee's body in a new frame on path p (consumed); returns paths back in the caller frame."""
        env = {}
        if selfv is not None and isinstance(selfv, tuple) and selfv[0] == "closure-env":
            sub, cenv, scls = self.closures[selfv[1]]
            env.update(cenv)
            selfv = None
            self_cls = scls
        params = list(callee.params)
        pos = list(args)
        if selfv is not None and params and not callee.is_staticmethod and (callee.owner is not None):
            env[params[0]] = selfv
            params = params[1:]
        elif callee.owner is not None and not callee.is_staticmethod and params and selfv is None and pos and not callee.is_classmethod:
            # unbound call Class.method(obj, ...)
            pass
        ok = self.bind(callee, params, pos, kwargs, env, p)
        if not ok:
            p.approx = True
        fr = Frame(callee, env, self_cls if callee.owner is not None or callee.cls is not None else None, node)
        if callee.owner is None and callee.cls is not None and self_cls is None:
            fr.self_cls = p.frames[-1].self_cls
        p.frames.append(fr)
        depth = len(p.frames)
        saved = (getattr(self, "_until_yield", 0), getattr(self, "_yield_depth", 0))
        if until_yield:
            self._until_yield = 1
            self._yield_depth = depth
        try:
            res = self.exec_block(callee.body, p)
        finally:
            self._until_yield, self._yield_depth = saved
        out = []
        for q in res:
            # unwind to caller frame
            while len(q.frames) >= depth:
                q.frames.pop()
            if q.status == "ok":
                q.value = NONE
            elif q.status == "return":
                q.status = "ok"
            elif q.status in ("break", "continue", "loop"):
                if q.status == "loop":
                    # endless loop inside a callee: the call never returns on this path
                    q.status = "loop"
                else:
                    raise AnalysisError("break/continue escaped a function body")
            out.append(q)
        return out

    def bind(self, callee, params, pos, kwargs, env, p):
        """bind positional + keyword arguments to callee parameters; False if approximated."""
        exact = True
        # expand a leading 'seq'/'star'
        flat = []
        rest = None
        for a in pos:
            if isinstance(a, tuple) and a and a[0] == "star":
                v = self.deref(a[1], p)
                if isinstance(v, tuple) and v[0] in ("tuple", "list"):
                    flat.extend(v[1])
                elif isinstance(v, tuple) and v[0] == "seq":
                    flat.extend(v[1])
                    if v[2] is not None:
                        rest = (v[2], v[3])
                else:
                    rest = (v, 0)
            else:
                if rest is not None:
                    exact = False
                flat.append(a)
        i = 0
        defaults = callee.defaults
        ndef = len(defaults)
        allparams = list(callee.params)
        kwd = dict((k, v) for k, v in kwargs if k is not None)
        dstar = [v for k, v in kwargs if k is None]
        for idx, pn in enumerate(params):
            if i < len(flat):
                env[pn] = flat[i]
                i += 1
            elif pn in kwd:
                env[pn] = kwd.pop(pn)
            elif rest is not None:
                env[pn] = ("sub", rest[0], ("const", rest[1]))
                rest = (rest[0], rest[1] + 1)
            else:
                # default
                didx = allparams.index(pn) - (len(allparams) - ndef)
                if didx >= 0:
                    env[pn] = self.eval_default(defaults[didx], callee, p)
                elif dstar:
                    env[pn] = ("kwget", dstar[0], pn)
                else:
                    env[pn] = ("unbound-param", pn)
                    exact = False
        extra = tuple(flat[i:])
        if callee.vararg:
            env[callee.vararg] = ("seq", extra, rest[0] if rest else None, rest[1] if rest else 0)
        elif extra or rest is not None:
            if extra:
                exact = False
        for j, pn in enumerate(callee.kwonly):
            if pn in kwd:
                env[pn] = kwd.pop(pn)
            elif callee.kw_defaults[j] is not None:
                env[pn] = self.eval_default(callee.kw_defaults[j], callee, p)
            else:
                env[pn] = ("unbound-param", pn)
        if callee.kwarg:
            named = list(kwd.items())
            krest = dstar[0] if dstar else None
            if isinstance(krest, tuple) and krest and krest[0] == "kw":
                # **kwargs forwarded from a caller that itself collected them: keep one level
                named = list(krest[1]) + named
                krest = krest[2]
            env[callee.kwarg] = ("kw", tuple(sorted(named)), krest)
        elif kwd:
            exact = False
        return exact

    def eval_default(self, node, callee, p):
        if isinstance(node, ast.Constant):
            return ("const", node.value)
        sub = Path()
        sub.frames.append(Frame(callee, {}, callee.owner, None))
        try:
            vals = self.eval(node, sub)
        except AnalysisError:
            return ("default", stmt_key(node))
        if len(vals) == 1:
            return vals[0][0]
        return ("default", stmt_key(node))


def _as_load(t):
    if isinstance(t, ast.Name):
        return ast.Name(id=t.id, ctx=ast.Load())
    if isinstance(t, ast.Attribute):
        return ast.Attribute(value=t.value, attr=t.attr, ctx=ast.Load())
    if isinstance(t, ast.Subscript):
        return ast.Subscript(value=t.value, slice=t.slice, ctx=ast.Load())
    raise AnalysisError("augmented assignment target not supported")


def _opname(op):
    return {
        ast.Add: "+", ast.Sub: "-", ast.Mult: "*", ast.Div: "/", ast.FloorDiv: "//", ast.Mod: "%", ast.Pow: "**",
        ast.LShift: "<<", ast.RShift: ">>", ast.BitAnd: "&", ast.BitOr: "|", ast.BitXor: "^", ast.MatMult: "@",
    }[type(op)]


def _cmpname(op):
    return {
        ast.Eq: "==", ast.NotEq: "!=", ast.Lt: "<", ast.LtE: "<=", ast.Gt: ">", ast.GtE: ">=",
        ast.Is: "is", ast.IsNot: "is not", ast.In: "in", ast.NotIn: "not in",
    }[type(op)]


def _assigned_names(fi):
    cache = getattr(fi, "_assigned", None)
    if cache is None:
        cache = set()
        for n in ast.walk(fi.node):
            if isinstance(n, ast.Name) and isinstance(n.ctx, ast.Store):
                cache.add(n.id)
            elif isinstance(n, (ast.FunctionDef,)) and n is not fi.node:
                cache.add(n.name)
        fi._assigned = cache
    return cache


def _target_names(t):
    if isinstance(t, ast.Name):
        return [t.id]
    if isinstance(t, (ast.Tuple, ast.List)):
        out = []
        for e in t.elts:
            out.extend(_target_names(e))
        return out
    return []
