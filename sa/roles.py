"""Role discovery: rules are anchored on constructs with a stable identity (public classes and methods, thread
targets, registered callbacks, public functions) and on *roles* discovered structurally -- never on the names of
private helpers, so renaming / extracting / inlining a private helper does not disturb a rule.
"""
from .model import AnalysisError, ClassInfo
from .interp import fmt, contains, subterms
from . import q

SELF = ("param", "self")


def std_inline(callee, ev, path):
    """default deep-inlining policy: follow every package function except logging, metrics bookkeeping and the
    callback dispatcher (a dispatch is a boundary: what runs there is user code / other layers)"""
    if callee.owner is not None and callee.owner.name == "LogWrapper":
        return False
    if is_dispatch(callee):
        return False
    if callee.qualname in ("track_future", "record_done", "track_future_noop"):
        return False
    return None


def bound(ev, prog):
    """argument values of a call event by parameter name (positional + keyword), for package functions,
    constructors of package classes and namedtuple-style records"""
    f = ev.d["func"]
    names = None
    callee = ev.d.get("callee")
    if isinstance(f, tuple) and f[0] == "class":
        ci = prog.classes.get(f[1])
        if ci is not None and ci.record_fields is not None:
            names = list(ci.record_fields)
        elif ci is not None:
            o, init = ci.lookup("__init__")
            if init is not None:
                names = init.params[1:]
    elif callee is not None:
        names = list(callee.params)
        if callee.owner is not None and not callee.is_staticmethod and isinstance(f, tuple) and f[0] == "attr":
            names = names[1:]
    out = {}
    if names is None:
        names = []
    i = 0
    for a in ev.d["args"]:
        if isinstance(a, tuple) and a and a[0] == "star":
            out["*"] = a[1]
            continue
        if i < len(names):
            out[names[i]] = a
        else:
            out.setdefault("*extra", []).append(a)
        i += 1
    for k, v in ev.d["kwargs"]:
        if k is None:
            out["**"] = v
        else:
            out[k] = v
    return out


def is_identity(ctx, value, it=None):
    """value is a function (module function, lambda, nested def) that returns its single parameter"""
    prog = ctx.prog
    sub = None
    if isinstance(value, tuple) and value[0] == "func":
        sub = prog.functions.get(value[1])
    elif isinstance(value, tuple) and value[0] == "closure":
        from .interp import CLOSURES
        sub = CLOSURES[value[2]][0]
    if sub is None:
        return False
    if len(sub.params) != 1 or sub.vararg or sub.kwarg:
        return False
    ps, _ = ctx.paths(sub, None, depth=0)
    rets = [p for p in ps if p.status == "return"]
    return bool(rets) and all(p.value == ("param", sub.params[0]) for p in rets) and not any(p.calls() for p in rets)


def closure_fn(value):
    from .interp import CLOSURES
    if isinstance(value, tuple) and value[0] == "closure":
        return CLOSURES[value[2]][0]
    return None


def container_of(term):
    """the container an iteration / element term ranges over: elem(X) -> X, through list()/enumerate()/keys()/
    slices / copies and comprehensions"""
    t = term
    for _ in range(8):
        if not isinstance(t, tuple):
            return t
        if t[0] == "elem" or t[0] == "index":
            t = t[1]
            continue
        if t[0] == "unpack":
            t = t[1]
            continue
        if t[0] == "listof":
            t = t[1]
            continue
        if t[0] == "sub" and isinstance(t[2], tuple) and t[2][0] == "slice":
            t = t[1]
            continue
        if t[0] == "call" and t[1] in (("name", "list"), ("name", "tuple"), ("name", "set"), ("name", "enumerate"), ("name", "iter"), ("name", "reversed"), ("name", "sorted")) and t[2]:
            t = t[2][0]
            continue
        if t[0] == "call" and isinstance(t[1], tuple) and t[1][0] == "attr" and t[1][2] in ("keys", "values", "items", "copy") and not t[2]:
            t = t[1][1]
            continue
        if t[0] == "comp" and len(t[3]) == 1:
            t = t[3][0]
            continue
        return t
    return t


def job_fields(p, obj):
    """fields of a record object built on this path (heap bindings of obj.<field>)"""
    out = {}
    for k, v in p.heap.items():
        if k[0] == "attr" and k[1] == obj:
            out[k[2]] = v
    return out


class Layer(object):
    """structural roles of a queueing executor layer (retry / throttle / timeout / poll)"""

    def __init__(self, ctx, cls):
        self.ctx = ctx
        self.cls = cls
        prog = ctx.prog
        self.loop = None
        for owner, target, node, initfi in ctx.types.thread_targets:
            if owner is cls:
                self.loop = target
        # the function that hands a job over to the delegate: contains self._delegate.submit(...) and is not a
        # public submit*
        self.handover = None
        self.callback = None
        self.submit_methods = []
        for c in cls.mro():
            if not isinstance(c, ClassInfo):
                continue
            for n, m in c.methods.items():
                if cls.lookup(n)[1] is not m:
                    continue
                if n == "submit" or n.startswith("submit_"):
                    self.submit_methods.append(m)
        cands = []
        own = set(m.key for c in cls.mro() if isinstance(c, ClassInfo) for m in c.methods.values())
        for m in list(cls.methods.values()) + ([self.loop] if self.loop is not None and self.loop.owner is None else []):
            try:
                ps, it = ctx.paths(m, cls if m.owner is not None else None, depth=3, inline=lambda callee, ev, path: callee.key in own and callee.name != "__init__")
            except AnalysisError:
                continue
            for p in ps:
                for e in p.calls():
                    r = q.recv(e)
                    if e.fn is m and q.call_name(e) == "submit" and isinstance(r, tuple) and r[0] == "attr" and r[2] == "_delegate":
                        cands.append(m)
                    if q.call_name(e) == "add_done_callback" and isinstance(r, tuple) and r[0] == "call" and isinstance(r[1], tuple) and r[1][0] == "attr" and r[1][2] == "submit" and e.d["args"]:
                        cb = e.d["args"][0]
                        if isinstance(cb, tuple) and cb[0] == "partial":
                            cb = cb[1]
                        if isinstance(cb, tuple) and cb[0] == "attr":
                            o, mm = cls.lookup(cb[2])
                            if mm is not None:
                                self.callback = mm
        cands = [m for m in cands if not (m.name == "submit" or m.name.startswith("submit_"))]
        cands = list(dict((m.key, m) for m in cands).values())
        if len(cands) == 1:
            self.handover = cands[0]


def callback_target(ctx, cls, p, it, cb):
    """(method of cls, bound leading arguments) that a registered callback value ends up calling with the future:
    self.m / partial(self.m, a, b) / a wrapper object around one of those / a closure `lambda f: self.m(a, f)`
    (also when it is produced by a helper method that was inlined).  (None, None) when not recognised."""
    from .interp import CLOSURES
    cb = unwrap(ctx, p, cb, it)
    boundargs = ()
    if isinstance(cb, tuple) and cb and cb[0] == "partial":
        boundargs = tuple(cb[2])
        cb = cb[1]
    if isinstance(cb, tuple) and cb and cb[0] == "attr" and cb[1] == SELF:
        o, mm = cls.lookup(cb[2])
        return (mm, boundargs) if mm is not None else (None, None)
    if isinstance(cb, tuple) and cb and cb[0] == "closure":
        sub, env = CLOSURES[cb[2]][0], CLOSURES[cb[2]][1]
        if len(sub.params) != 1 or sub.vararg or sub.kwarg:
            return None, None
        ps, _ = ctx.paths(sub, None, depth=0)
        found = set()
        for sp in ps:
            if sp.status == "raise":
                continue
            cs = [e for e in sp.calls() if isinstance(e.d["func"], tuple) and e.d["func"][0] == "attr" and (e.d["func"][1] in (("free", "self"), SELF) or env.get(e.d["func"][1][1] if isinstance(e.d["func"][1], tuple) and len(e.d["func"][1]) > 1 else None) == SELF)]
            if len(cs) != 1 or len(sp.calls()) != 1:
                return None, None
            args = []
            for a_ in cs[0].d["args"]:
                if a_ == ("param", sub.params[0]):
                    args.append(("<future>",))
                elif isinstance(a_, tuple) and a_[0] == "free":
                    args.append(env.get(a_[1], a_))
                else:
                    args.append(a_)
            if not args or args[-1] != ("<future>",) or cs[0].d["kwargs"]:
                return None, None
            found.add((cs[0].d["func"][2], tuple(args[:-1])))
        if len(found) != 1:
            return None, None
        name, bargs = found.pop()
        o, mm = cls.lookup(name)
        return (mm, boundargs + bargs) if mm is not None else (None, None)
    return None, None


def registered_callbacks(ctx, cls):
    """methods of cls registered as done-callbacks anywhere in cls (through self.<m>, partial(self.<m>, ..), a
    wrapper object, or a closure that forwards to self.<m>)"""
    out = {}
    own = set(m.key for c in cls.mro() if isinstance(c, ClassInfo) for m in c.methods.values())
    for c in cls.mro():
        if not isinstance(c, ClassInfo):
            continue
        for m in c.methods.values():
            if cls.lookup(m.name)[1] is not m:
                continue
            ps, it = ctx.paths(m, cls, depth=2, inline=lambda callee, ev, path: (callee.key in own and callee.name != "__init__" and not is_dispatch(callee)) or inline_wrapper_ctor(callee, ev, path))
            for p in ps:
                for e in p.calls():
                    if q.call_name(e) != "add_done_callback" or not e.d["args"]:
                        continue
                    mm, bargs = callback_target(ctx, cls, p, it, e.d["args"][0])
                    if mm is not None:
                        out[mm.key] = (mm, q.recv(e))
    return out


def record_roles(ctx, cls):
    """for a queueing executor: (field holding the queue, record class, {role: record field}) discovered from the
    public submit that takes `fn`: which record field receives fn / *args / **kwargs / the returned future"""
    from .interp import fmt as _fmt
    best = None
    for c in cls.mro():
        if not isinstance(c, ClassInfo):
            continue
        for n, m in c.methods.items():
            if cls.lookup(n)[1] is not m or not (n == "submit" or n.startswith("submit_")) or "fn" not in m.params:
                continue
            ps, it = ctx.paths(m, cls, depth=5, inline=std_inline)
            for p in ps:
                if p.status != "return":
                    continue
                for e in p.calls():
                    r = q.recv(e)
                    if q.call_name(e) in ("append", "add", "appendleft") and isinstance(r, tuple) and r[0] == "attr" and r[1] == SELF and e.d["args"]:
                        obj = e.d["args"][-1]
                        t = it.type_of(obj, p)
                        rc = ctx.types.cls_of(t) if t else None
                        if rc is None:
                            continue
                        roles = {}
                        for f, v in job_fields(p, obj).items():
                            if v == p.value:
                                roles["future"] = f
                            elif v == ("param", "fn"):
                                roles["fn"] = f
                            elif v == ("seq", (), ("param", m.vararg), 0):
                                roles["args"] = f
                            elif v == ("kw", (), ("param", m.kwarg)):
                                roles["kwargs"] = f
                        if {"future", "fn", "args", "kwargs"} <= set(roles):
                            best = (r[2], rc, roles)
    if best is None:
        raise AnalysisError("%s: job record roles (future / fn / args / kwargs) not identified" % cls.name)
    return best


def is_wrapper_class(ci):
    """a callable object wrapping one callable given to its constructor (WeakCallback-like)"""
    if not isinstance(ci, ClassInfo) or "__call__" not in ci.methods:
        return False
    init = ci.methods.get("__init__")
    return init is not None and len(init.params) == 2 and not init.vararg and not init.kwarg


def wrapper_field(ctx, ci):
    """the field of a wrapper class that keeps the wrapped callable"""
    init = ci.methods["__init__"]
    ps, it = ctx.paths(init, ci, depth=0)
    out = set()
    for p in ps:
        for e in p.evs("store"):
            if q.self_field(e.d["target"]) and e.d["value"] == ("param", init.params[1]):
                out.add(e.d["target"][2])
    if len(out) != 1:
        raise AnalysisError("%s: the field keeping the wrapped callable is not unique (%s)" % (ci.name, sorted(out)))
    return out.pop()


def inline_wrapper_ctor(callee, ev, path):
    """inlining policy: only constructors of callback wrapper objects"""
    return callee.name == "__init__" and callee.owner is not None and is_wrapper_class(callee.owner)


def unwrap(ctx, p, cb, it=None):
    """the callable behind a wrapper object built on this path (constructor inlined or not)"""
    for _ in range(4):
        if not (isinstance(cb, tuple) and cb and cb[0] == "new"):
            return cb
        ci = ctx.prog.classes.get(cb[1])
        if not is_wrapper_class(ci):
            return cb
        f = wrapper_field(ctx, ci)
        v = p.heap.get(("attr", cb, f))
        if v is None:
            for c in p.calls():
                if c.d["func"] == ("class", cb[1]) and c.d.get("result", None) == cb or (c.d["func"] == ("class", cb[1]) and it is not None and it.site(c.node) == cb[2]):
                    b = bound(c, ctx.prog)
                    v = b.get(ci.methods["__init__"].params[1])
                    break
        if v is None:
            return cb
        cb = v
    return cb


def input_callback(ctx, cls):
    """the method of cls that its constructor registers as done-callback on the input futures"""
    cbs = registered_callbacks(ctx, cls)
    ms = [m for m, r in cbs.values()]
    if len(ms) != 1:
        raise AnalysisError("%s: expected exactly one method registered as done-callback, found %s" % (cls.name, sorted(m.name for m in ms)))
    return ms[0]


def lock_fields(ctx, cls):
    """fields of cls initialised to a threading lock in its constructor"""
    out = []
    o, init = cls.lookup("__init__")
    if init is None:
        return out
    ps, it = ctx.paths(init, cls, depth=2)
    for p in ps:
        for e in p.evs("store"):
            t = e.d["target"]
            v = e.d["value"]
            if q.self_field(t) and isinstance(v, tuple) and v[0] == "extnew" and v[1] in ("Lock", "RLock") and t[2] not in out:
                out.append(t[2])
    return out


def ctor_param_fields(ctx, cls, pname):
    """fields of cls that its constructor sets from the (public) constructor parameter `pname`"""
    o, init = cls.lookup("__init__")
    out = []
    if init is None:
        return out
    ps, it = ctx.paths(init, cls, depth=2)
    for p in ps:
        for e in p.evs("store"):
            t = e.d["target"]
            if q.self_field(t) and e.d["value"] == ("param", pname) and len(e.stack) == 0 and t[2] not in out:
                out.append(t[2])
    return out


def delegate_field(ctx, cls):
    fs = ctor_param_fields(ctx, cls, "delegate")
    if len(fs) != 1:
        raise AnalysisError("%s: field keeping the delegate executor not identified (%s)" % (cls.name, fs))
    return fs[0]


def false_init_fields(ctx, rec):
    """fields of a record class that its constructor initialises to the constant False (flags)"""
    init = rec.methods.get("__init__")
    out = []
    if init is None:
        return out
    ps, it = ctx.paths(init, rec, depth=0)
    for p in ps:
        for e in p.evs("store"):
            if q.self_field(e.d["target"]) and e.d["value"] == ("const", False) and e.d["target"][2] not in out:
                out.append(e.d["target"][2])
    return out


def cancel_hook(ctx, fut):
    """name of the method through which _Future.cancel() asks the subclass whether the cancel may proceed: the
    self-method called by cancel() that subclasses override"""
    cm = fut.methods.get("cancel")
    if cm is None:
        raise AnalysisError("_Future.cancel not found")
    ownf = set(m.key for m in fut.methods.values())
    ps, it = ctx.paths(cm, fut, depth=3, inline=lambda callee, ev, path: callee.key in ownf and not any(callee.name in c.methods for c in ctx.prog.subclasses(fut, strict=True)))
    names = set()
    for p in ps:
        for e in p.calls():
            if q.recv(e) == SELF and e.d["callee"] is not None and e.d["callee"].owner is fut:
                n = e.d["callee"].name
                if any(n in c.methods for c in ctx.prog.subclasses(fut, strict=True)) and n not in ("done", "cancelled", "running", "set_running_or_notify_cancel"):
                    names.add(n)
    if len(names) != 1:
        raise AnalysisError("_Future.cancel: the subclass hook is not unique (%s)" % sorted(names))
    return names.pop()


def held_throughout(p, term, a, b):
    """is a lock on `term` held at every event from a to b (inclusive)?"""
    for e in p.events:
        if a.seq <= e.seq <= b.seq and not any(l[1] == term for l in e.locks):
            return False
    return True


class Proto(object):
    """the library's own future base class and its private protocol, discovered structurally:
       fut       the package class that extends the stdlib Future and overrides add_done_callback
       lock      its lock field;  cbs  the list its add_done_callback appends to
       dispatch  the method that iterates that list calling each element (marked role='dispatch': inlining
                 policies treat it as a boundary, what runs there is user code)
       hook      the method through which cancel() asks the subclass
       cancelled_by_delegate  the method (other than cancel) that performs the stdlib cancel"""

    def __init__(self, ctx):
        prog = ctx.prog
        cands = [c for c in prog.classes.values() if "add_done_callback" in c.methods and any(not isinstance(b, ClassInfo) and str(b).endswith("Future") for b in c.mro())]
        if len(cands) != 1:
            raise AnalysisError("the library's future base class (overrides add_done_callback) is not unique: %s" % [c.name for c in cands])
        self.fut = fut = cands[0]
        lf = lock_fields(ctx, fut)
        if len(lf) != 1:
            raise AnalysisError("%s: expected one lock field, found %s" % (fut.name, lf))
        self.lock = lf[0]
        adc = fut.methods["add_done_callback"]
        ps, it = ctx.paths(adc, fut, depth=0)
        cbs = set()
        for p in ps:
            for e in p.calls():
                if q.call_name(e) in ("append", "add") and q.self_field(q.recv(e)) and e.d["args"] == (("param", adc.params[1]),):
                    cbs.add(q.recv(e)[2])
        if len(cbs) != 1:
            raise AnalysisError("%s.add_done_callback: the callback list is not unique (%s)" % (fut.name, sorted(cbs)))
        self.cbs = cbs.pop()
        disp = []
        for m in fut.methods.values():
            if m is adc:
                continue
            ps, it = ctx.paths(m, fut, depth=0)
            if any(e.d[0] == "enter" and container_of(e.d[1]) == ("attr", SELF, self.cbs) for p in ps for e in p.evs("loop") if e.fn is m) and any(e.d.get("user") and e.fn is m for p in ps for e in p.calls()):
                disp.append(m)
        if len(disp) != 1:
            raise AnalysisError("%s: the callback dispatcher is not unique (%s)" % (fut.name, [m.name for m in disp]))
        self.dispatch = disp[0]
        self.dispatch.role = "dispatch"
        self.hook = cancel_hook(ctx, fut)
        others = []
        for m in fut.methods.values():
            if m.name in ("cancel",) or m is self.dispatch:
                continue
            ps, it = ctx.paths(m, fut, depth=1, inline=lambda callee, ev, path: callee.owner is fut and callee is not self.dispatch)
            if any(q.is_super_call(e, "cancel") for p in ps for e in p.calls()):
                callers = [x for x in fut.methods.values() if x is not m and any(e.d["callee"] is m for p in ctx.paths(x, fut, depth=0)[0] for e in p.calls())]
                if not callers:
                    others.append(m)
        self.cancelled_by_delegate = others[0] if len(others) == 1 else None
        self.LOCK = ("attr", SELF, self.lock)
        self.CBS = ("attr", SELF, self.cbs)


def proto(ctx):
    if getattr(ctx, "_proto", None) is None:
        ctx._proto = Proto(ctx)
    return ctx._proto


def is_dispatch(callee):
    return getattr(callee, "role", None) == "dispatch"


class MapRoles(object):
    """field names of MapFuture / FlatMapFuture / MapExecutor discovered from their public constructor parameters:
       mapf / errf   MapFuture fields set from map_fn / error_fn
       deleg         MapFuture field that receives the constructor's `delegate` (possibly through a helper)
       flat          FlatMapFuture's stage flag (initialised False by its constructor)
       xfn / xerrf   MapExecutor fields keeping fn / error_fn"""

    def __init__(self, ctx):
        prog = ctx.prog
        self.mf = mf = prog.cls("MapFuture")
        self.fmf = fmf = prog.cls("FlatMapFuture")
        o, init = mf.lookup("__init__")
        ps, it = ctx.paths(init, mf, depth=3, inline=lambda callee, ev, path: callee.owner is mf)
        stores = {}
        for p in ps:
            for e in p.evs("store"):
                t = e.d["target"]
                if q.self_field(t):
                    stores.setdefault(t[2], set()).add(e.d["value"])
        def field_from(pname):
            out = [f for f, vs in stores.items() if any(contains(v, ("param", pname)) or v == ("param", pname) for v in vs)]
            if len(out) > 1:
                # the field that keeps the callable itself (possibly with a default: `fn or identity`), not a flag or
                # other value computed from it
                keep = [f for f in out if any(v == ("param", pname) or (isinstance(v, tuple) and v[0] in ("or", "ifexp", "boolop") and contains(v, ("param", pname))) for v in stores[f])]
                if len(keep) == 1:
                    out = keep
            if len(out) != 1:
                raise AnalysisError("MapFuture.__init__: field set from `%s` not unique (%s)" % (pname, out))
            return out[0]
        self.mapf = field_from("map_fn")
        self.errf = field_from("error_fn")
        self.deleg = field_from("delegate")
        o2, finit = fmf.lookup("__init__")
        fl = []
        for p in ctx.paths(finit, fmf, depth=0)[0]:
            for e in p.evs("store"):
                if q.self_field(e.d["target"]) and e.d["value"] == ("const", False) and e.d["target"][2] not in fl:
                    fl.append(e.d["target"][2])
        if len(fl) != 1:
            raise AnalysisError("FlatMapFuture.__init__: stage flag (initialised False) not unique (%s)" % fl)
        self.flat = fl[0]
        mx = prog.cls("MapExecutor")
        self.xfn = ctor_param_fields(ctx, mx, "fn")
        o3, xinit = mx.lookup("__init__")
        self.xerrf = []
        for p in ctx.paths(xinit, mx, depth=0)[0]:
            for e in p.evs("store"):
                v = e.d["value"]
                if q.self_field(e.d["target"]) and isinstance(v, tuple) and v[0] == "call" and isinstance(v[1], tuple) and v[1][0] == "attr" and v[1][2] in ("get", "pop") and v[2][:1] == (("const", "error_fn"),) and e.d["target"][2] not in self.xerrf:
                    self.xerrf.append(e.d["target"][2])
        if len(self.xfn) != 1 or len(self.xerrf) != 1:
            raise AnalysisError("MapExecutor.__init__: fields keeping fn / error_fn not identified (%s, %s)" % (self.xfn, self.xerrf))
        self.xfn = self.xfn[0]
        self.xerrf = self.xerrf[0]


def map_roles(ctx):
    if getattr(ctx, "_map_roles", None) is None:
        ctx._map_roles = MapRoles(ctx)
    return ctx._map_roles


REMOVE = ("remove", "pop", "popleft")


class Queue(object):
    """a queueing executor: class, queue field, record class, role fields, lock fields"""

    def __init__(self, ctx, cls, field=None):
        self.cls = cls
        if field is None:
            self.field, self.rec, self.roles = record_roles(ctx, cls)
        else:
            # a guarded list known by other means (the state a worker loop scans); no record roles
            self.field, self.rec, self.roles = field, None, {}
        self.locks = lock_fields(ctx, cls)
        if not self.locks:
            raise AnalysisError("%s: no lock field found" % cls.name)

    def is_queue(self, term, it, p):
        return isinstance(term, tuple) and term[0] == "attr" and term[2] == self.field and it.type_of(term[1], p) == "C:" + self.cls.key

    def lock_held(self, ev, owner):
        return any(l[1][0] == "attr" and l[1][1] == owner and l[1][2] in self.locks for l in ev.locks if isinstance(l[1], tuple))

    def lock_term(self, ev, owner):
        for l in ev.locks:
            if isinstance(l[1], tuple) and l[1][0] == "attr" and l[1][1] == owner and l[1][2] in self.locks:
                return l[1]
        return None


def removers(ctx, Qx):
    """methods of the executor that search the queue for the job they are given (by identity) and remove it"""
    out = set()
    for c in Qx.cls.mro():
        if not isinstance(c, ClassInfo):
            continue
        for m in c.methods.values():
            if len(m.params) < 2 or Qx.cls.lookup(m.name)[1] is not m:
                continue
            ps, it = ctx.paths(m, Qx.cls, depth=0)
            for p in ps:
                for e in p.calls():
                    if e.fn is m and q.call_name(e) in REMOVE and Qx.is_queue(q.recv(e), it, p) and _removes(e, ("param", m.params[1]), p):
                        out.add(m.key)
    return out


def removal_actions(p, it, Qx, rem):
    """removals from the queue on this path: [(event, removed job or None)] -- a call of a remover helper counts
    once (what happens inside it is its own business)"""
    remcalls = [e for e in p.calls() if e.d["callee"] is not None and e.d["callee"].key in rem]
    top = [e for e in remcalls if not any(c.node in e.stack for c in remcalls if c is not e)]
    acts = [(e, e.d["args"][0] if e.d["args"] else None) for e in top]
    for e in p.calls():
        if q.call_name(e) in REMOVE and Qx.is_queue(q.recv(e), it, p) and not any(c.node in e.stack for c in top):
            acts.append((e, None))
    acts.sort(key=lambda x: x[0].seq)
    return acts


def _removes(e, J, p):
    """does the removal event e remove job J?  remove(J) / pop(index of the element found identical to J)"""
    a = e.d["args"]
    if q.call_name(e) == "remove":
        if a == (J,):
            return True
        # remove(x) after `x is J` was established
        if len(a) == 1:
            for t, val, b in q.atoms(p):
                if val is True and b.seq < e.seq and isinstance(t, tuple) and t[0] == "cmp" and t[1] == "is" and {t[2], t[3]} == {a[0], J}:
                    return True
        return False
    if q.call_name(e) == "pop" and len(a) == 1:
        idx = a[0]
        if not (isinstance(idx, tuple) and idx[0] in ("index", "unpack")):
            return False
        for t, val, b in q.atoms(p):
            if val is True and b.seq < e.seq and isinstance(t, tuple) and t[0] == "cmp" and t[1] == "is" and J in (t[2], t[3]):
                other = t[3] if t[2] == J else t[2]
                if _same_iteration(idx, other):
                    return True
        return False
    return False


def _same_iteration(idx, elem):
    """index term and element term stem from the same enumerate() iteration"""
    def root(t):
        while isinstance(t, tuple) and t and t[0] == "unpack":
            t = t[1]
        return t
    ri, re_ = root(idx), root(elem)
    if ri == re_:
        return True
    # index(src, site) vs elem(src, site)
    return isinstance(ri, tuple) and isinstance(re_, tuple) and len(ri) >= 3 and len(re_) >= 3 and ri[1:3] == re_[1:3]


def is_snapshot(term):
    """does iterating `term` walk a copy of the underlying container (list(x), x[:], x.copy(), sorted(x), tuple(x))
    rather than the live object (x, enumerate(x), reversed(x), iter(x), x.items())?"""
    t = term
    for _ in range(8):
        if not isinstance(t, tuple):
            return False
        if t[0] == "sub" and isinstance(t[2], tuple) and t[2][0] == "slice":
            return True
        if t[0] == "call" and t[1] in (("name", "list"), ("name", "tuple"), ("name", "sorted"), ("name", "set"), ("name", "frozenset")) and t[2]:
            return True
        if t[0] == "listof":
            return True
        if t[0] == "call" and isinstance(t[1], tuple) and t[1][0] == "attr" and t[1][2] == "copy" and not t[2]:
            return True
        if t[0] == "call" and t[1] in (("name", "enumerate"), ("name", "iter"), ("name", "reversed")) and t[2]:
            t = t[2][0]
            continue
        if t[0] == "call" and isinstance(t[1], tuple) and t[1][0] == "attr" and t[1][2] in ("keys", "values", "items") and not t[2]:
            t = t[1][1]
            continue
        if t[0] in ("elem", "index", "unpack"):
            t = t[1]
            continue
        return False
    return False


def iteration_rule(ctx, rep, Qx, rule):
    """every iteration over a lock-guarded queue walks it with the owner's lock held, or walks a copy: an iterator
    over the live list skips / repeats entries when another thread removes one meanwhile"""
    n = 0
    callers = ctx.callgraph()
    for fi in sorted(ctx.prog.functions.values(), key=lambda f: f.key):
        if fi.parent is not None or fi.name == "__init__":
            continue
        for ci in ctx.instances(fi):
            ps, it = ctx.paths(fi, ci, depth=0)
            for p in ps:
                for e in p.evs("loop"):
                    if e.d[0] != "enter" or e.fn is not fi or e.d[1] is None:
                        continue
                    src = e.d[1]
                    c = container_of(src)
                    if not Qx.is_queue(c, it, p):
                        continue
                    n += 1
                    ok = is_snapshot(src) or Qx.lock_held(e, c[1])
                    if not ok:
                        cs = callers.get(fi.key, set())
                        ok = bool(cs) and all(_caller_holds(ctx, fi, ck, cik, Qx) for ck, cik in cs)
                    rep.ob(rule, "%s: iteration over the %s queue is protected" % (fi.qualname, Qx.cls.name), ok, "the live %s is iterated without its owner's lock and without taking a copy first: a removal by another thread makes the iterator skip the entry behind the removed one" % fmt(c), where_of_(fi, e), None)
    return n


def where_of_(fi, e):
    return "%s:%d (%s)" % (fi.module.relpath, getattr(e.node, "lineno", 0), fi.qualname)


def _caller_holds(ctx, fi, ck, cik, Qx, depth=0):
    """every call of fi from (ck, cik) happens with the queue's lock held -- directly, or because that caller is
    itself only ever called with it held (helpers of helpers)"""
    cfi = ctx.prog.functions[ck]
    cci = ctx.prog.classes.get(cik) if cik else None
    ps, it = ctx.paths(cfi, cci, depth=0)
    for p in ps:
        for e in p.calls():
            if e.d["callee"] is fi and e.fn is cfi:
                r = q.recv(e)
                if r is not None and Qx.lock_held(e, r):
                    continue
                if depth < 3:
                    cs = ctx.callgraph().get(cfi.key, set())
                    if cs and all(_caller_holds(ctx, cfi, k2, c2, Qx, depth + 1) for k2, c2 in cs):
                        continue
                return False
    return True


class OpRoles(object):
    """field names of a combinator operation object (the and/or operation, the zipper) from its constructor:
       out   the field holding the output future (a future object allocated by the constructor)
       lock  its lock field
       done  the 'decided' flag (initialised False)
       rest  the dict of inputs still outstanding (built from the constructor's argument), if any"""

    def __init__(self, ctx, cls):
        self.cls = cls
        o, init = cls.lookup("__init__")
        if init is None:
            raise AnalysisError("%s: no constructor" % cls.name)
        own = set(m.key for c in cls.mro() if isinstance(c, ClassInfo) for m in c.methods.values())
        ps, it = ctx.paths(init, cls, depth=2, inline=lambda callee, ev, path: callee.key in own and callee.name != "__init__")
        outs, dones, rests = set(), set(), set()
        P0 = ("param", init.params[1]) if len(init.params) > 1 else None
        for p in ps:
            if p.status == "raise":
                continue
            for e in p.evs("store"):
                t, v = e.d["target"], e.d["value"]
                if not q.self_field(t):
                    continue
                tv = it.type_of(v, p) if isinstance(v, tuple) else None
                if isinstance(v, tuple) and (v[0] == "extnew" and v[1] == "Future" or (v[0] == "new" and tv and ctx.types.cls_of(tv) is not None and any(str(getattr(b, "name", b)).endswith("Future") for b in ctx.types.cls_of(tv).mro()))):
                    outs.add(t[2])
                if v == ("const", False):
                    dones.add(t[2])
                dv = q.deref(p, v) if isinstance(v, tuple) else v
                if isinstance(dv, tuple) and dv[0] in ("dict", "comp") and P0 is not None and (dv[0] == "dict" or (len(dv) > 3 and P0 in dv[3])):
                    rests.add(t[2])
                elif isinstance(dv, tuple) and dv[0] == "call" and dv[1] in (("name", "dict"), ("ext", "collections.OrderedDict")) and P0 is not None and contains(dv, P0):
                    rests.add(t[2])
            for e in p.evs("store"):
                t = e.d["target"]
                # self.fs[f] = True in a loop over the inputs
                if isinstance(t, tuple) and t[0] == "sub" and q.self_field(t[1]):
                    rests.add(t[1][2])
        lf = lock_fields(ctx, cls)
        if len(outs) != 1 or len(lf) != 1 or len(dones) != 1:
            raise AnalysisError("%s: operation roles not identified (output %s, lock %s, decided flag %s)" % (cls.name, sorted(outs), lf, sorted(dones)))
        self.out, self.lock, self.done = outs.pop(), lf[0], dones.pop()
        self.rest = sorted(rests)[0] if len(rests) == 1 else None
        self.OUT, self.LOCK, self.DONE = ("attr", SELF, self.out), ("attr", SELF, self.lock), ("attr", SELF, self.done)
        self.REST = ("attr", SELF, self.rest) if self.rest else None


def op_roles(ctx, cls):
    cache = getattr(ctx, "_op_roles", None)
    if cache is None:
        cache = ctx._op_roles = {}
    if cls.key not in cache:
        cache[cls.key] = OpRoles(ctx, cls)
    return cache[cls.key]


def rebuild_rule(ctx, rep, cls, field, rule, what):
    """a shared list that is *rebuilt* from a walk over itself (self.F = [x for x in self.F if ...], or a helper
    partitions it and the caller stores the result) must be walked and stored in one hold of its lock: an entry
    appended by another thread between the walk and the store is lost"""
    locks = lock_fields(ctx, cls)
    own = set(m.key for c in cls.mro() if isinstance(c, ClassInfo) for m in c.methods.values())
    n = 0
    seen = set()
    fns = [m for c in cls.mro() if isinstance(c, ClassInfo) for m in c.methods.values() if cls.lookup(m.name)[1] is m and m.name != "__init__"]
    fns += [f for f in ctx.prog.functions.values() if f.owner is None and f.parent is None and f.module is cls.module]
    inserts = {}
    for m in fns:
        ps, it = ctx.paths(m, cls if m.owner is not None else None, depth=2, inline=lambda callee, ev, path: callee.key in own and callee.name != "__init__")
        for p in ps:
            for e in p.calls():
                r = q.recv(e)
                if q.call_name(e) in ("append", "add", "insert", "extend", "appendleft") and isinstance(r, tuple) and r[0] == "attr" and r[2] == field and it.type_of(r[1], p) in (None, "C:" + cls.key):
                    held = any(isinstance(l[1], tuple) and l[1][0] == "attr" and l[1][1] == r[1] and l[1][2] in locks for l in e.locks)
                    k = (e.fn.qualname, e.node.lineno)
                    inserts[k] = (inserts.get(k, (True,))[0] and held, e)
            for s_ in p.evs("store"):
                t = s_.d["target"]
                if not (isinstance(t, tuple) and t[0] == "attr" and t[2] == field and it.type_of(t[1], p) in (None, "C:" + cls.key)):
                    continue
                v = q.deref(p, s_.d["value"]) if isinstance(s_.d["value"], tuple) else s_.d["value"]
                if not (isinstance(v, tuple) and v and v[0] in ("comp", "list", "listof", "unpack", "call", "extnew")):
                    continue
                walks = [e for e in p.evs("loop") if e.d[0] == "enter" and e.seq < s_.seq and e.d[1] is not None and container_of(e.d[1]) == t and not is_snapshot(e.d[1])]
                if not walks:
                    continue
                key = "%s: %s is rebuilt from a walk over itself in one hold of its lock" % (m.qualname, what)
                if (key, s_.node) in seen:
                    continue
                n += 1
                L = [l[1] for l in s_.locks if isinstance(l[1], tuple) and l[1][0] == "attr" and l[1][1] == t[1] and l[1][2] in locks]
                ok = any(held_throughout(p, lk, walks[-1], s_) for lk in L)
                seen.add((key, s_.node))
                rep.ob(rule, key, ok, "the list is walked and the result stored back without one continuous hold of the lock: an entry appended by another thread in between is dropped", where_of_(m, s_), None)
    if n:
        # a list that gets *replaced* must be looked up afresh inside the critical section that mutates it: a
        # reference read before the lock was taken may be the list that has just been replaced, and what is
        # popped from / appended to that one is lost to everybody else
        MUTS = ("append", "add", "insert", "extend", "appendleft", "pop", "popleft", "remove", "discard", "clear")
        for m in fns:
            ps, it = ctx.paths(m, cls if m.owner is not None else None, depth=2, inline=lambda callee, ev, path: callee.key in own and callee.name != "__init__", loads=(field,))
            for p in ps:
                for e in p.calls():
                    r = q.recv(e)
                    if q.call_name(e) in MUTS and isinstance(r, tuple) and r[0] == "attr" and r[2] == field and it.type_of(r[1], p) in (None, "C:" + cls.key):
                        lds = [l for l in p.evs("load") if l.seq < e.seq and l.d["target"] == r]
                        lk = [l[1] for l in e.locks if isinstance(l[1], tuple) and l[1][0] == "attr" and l[1][1] == r[1] and l[1][2] in locks]
                        if not lds or not lk:
                            continue
                        fresh = any(held_throughout(p, k, lds[-1], e) for k in lk)
                        rep.ob(rule, "%s: %s is read inside the critical section that mutates it" % (e.fn.qualname, what), fresh, "%s() is applied to a reference to the list that was read before the lock was taken: if another thread replaced the list in between, the change goes to the old list and is lost (an entry popped from it was already taken out -- or cancelled -- by the other thread)" % q.call_name(e), where_of_(e.fn, e), None)
        # ... which only helps if the other side -- whoever inserts into the list -- takes the same lock
        for (fn, _ln), (held, e) in sorted(inserts.items()):
            rep.ob(rule, "%s: insertion into %s under the lock that guards its rebuild" % (fn, what), held, "%s() on the list without its lock: the insertion can land between the walk and the store of a concurrent rebuild, and the new entry is dropped" % q.call_name(e), where_of_(e.fn, e), None)
    return n


def shrink_rule(ctx, rep, cls, field, rule, what):
    """how a shared list loses entries decides what its readers may do.  Rebuilt (self.F = [...]): walk and store in
    one hold of the lock, insertions under that lock (rebuild_rule) -- readers may then walk the list they got hold of
    without the lock, nobody mutates it.  Shrunk in place (remove / pop / del): every walk over the live list must
    hold the lock or go over a copy, or the iterator skips the entry after the removed one.
    Returns (rebuild sites, in-place removal sites)."""
    nreb = rebuild_rule(ctx, rep, cls, field, rule, what)
    own = set(m.key for c in cls.mro() if isinstance(c, ClassInfo) for m in c.methods.values())
    nin = 0
    for m in [m for c in cls.mro() if isinstance(c, ClassInfo) for m in c.methods.values() if cls.lookup(m.name)[1] is m and m.name != "__init__"]:
        ps, it = ctx.paths(m, cls, depth=0)
        sites = set()
        for p in ps:
            for e in p.calls():
                r = q.recv(e)
                if e.fn is m and q.call_name(e) in ("remove", "pop", "popleft", "clear", "discard") and isinstance(r, tuple) and r[0] == "attr" and r[2] == field and r[1] == SELF:
                    sites.add(e.node.lineno)
            for e in p.evs("del") + p.evs("store"):
                t = e.d["target"]
                # del xs[i]  /  xs[:] = <filtered>  /  xs[i:j] = ...  : the list object itself loses entries
                if isinstance(t, tuple) and t[0] == "sub" and t[1] == ("attr", SELF, field) and (e.kind == "del" or (isinstance(t[2], tuple) and t[2][0] == "slice")):
                    sites.add(e.node.lineno)
        nin += len(sites)
    if nin:
        iteration_rule(ctx, rep, Queue(ctx, cls, field=field), rule)
    return nreb, nin


class RetryRoles(object):
    """roles of the retry layer: queue / record (Queue), worker loop and completion callback (Layer), the record
    field that holds the in-flight delegate future (the field that receives the result of delegate.submit in the
    hand-over) and the stop flag (the record field initialised False)"""

    def __init__(self, ctx):
        prog = ctx.prog
        self.cls = rex = prog.cls("RetryExecutor")
        self.queue = Queue(ctx, rex)
        self.layer = Layer(ctx, rex)
        if self.layer.loop is None or self.layer.callback is None:
            raise AnalysisError("RetryExecutor: worker thread / completion callback not identified")
        self.deleg = delegate_field(ctx, rex)
        flags = false_init_fields(ctx, self.queue.rec)
        if len(flags) != 1:
            raise AnalysisError("%s: expected exactly one flag field (initialised False), found %s" % (self.queue.rec.name, flags))
        self.stop = flags[0]
        REC = "C:" + self.queue.rec.key
        ps, it = ctx.paths(self.layer.loop, None, depth=6, inline=std_inline)
        df = set()
        for p in ps:
            for e in p.calls():
                r = q.recv(e)
                if q.call_name(e) == "submit" and isinstance(r, tuple) and r[0] == "attr" and r[2] == self.deleg:
                    res = q.result_of(e)
                    for k, v in p.heap.items():
                        if k[0] == "attr" and v == res and it.type_of(k[1], p) == REC:
                            df.add(k[2])
        if len(df) != 1:
            raise AnalysisError("retry: the job field holding the delegate's future is not unique (%s)" % sorted(df))
        self.inflight = df.pop()
        self.future = self.queue.roles["future"]
        self.fn = self.queue.roles["fn"]


def retry_roles(ctx):
    if getattr(ctx, "_retry_roles", None) is None:
        ctx._retry_roles = RetryRoles(ctx)
    return ctx._retry_roles
