"""debug helper: python3-vt -m sa.dump <function key> [selfclass]"""
import sys
from .model import Program
from .types import Types
from .interp import Interp, Config, fmt

def main():
    prog = Program('/repo'); ty = Types(prog)
    fi = prog.fn(sys.argv[1])
    cls = prog.cls(sys.argv[2]) if len(sys.argv) > 2 and sys.argv[2] not in ("", "-") else None
    it = Interp(prog, ty, Config(maxdepth=int(sys.argv[3]) if len(sys.argv)>3 else 3))
    paths = it.run(fi, cls)
    print(len(paths), 'paths; truncated', it.truncated, 'resolved', it.resolved, 'unresolved', it.unresolved, 'approx', it.approx_resolved)
    for i, p in enumerate(paths):
        print('--- path', i, p.status, fmt(p.value) if p.value else None, 'trunc' if p.trunc else '')
        for e in p.events:
            if e.kind == 'call':
                d = e.d
                print('   ', '  ' * len(e.stack), 'call', fmt(d['func']), [fmt(a) for a in d['args']], 'U' if d['user'] else '', 'I' if d['inlined'] else '', d['callee'].qualname if d['callee'] else '-', 'L=%s' % [fmt(l[1]) for l in e.locks], '@%d' % e.lineno)
            elif e.kind == 'branch':
                print('   ', '  ' * len(e.stack), 'branch', fmt(e.d[0]) if isinstance(e.d[0], tuple) else e.d[0], e.d[1])
            elif e.kind in ('enter', 'exit'):
                print('   ', '  ' * len(e.stack), e.kind, fmt(e.d[1]), e.d[2])
            elif e.kind == 'store':
                print('   ', '  ' * len(e.stack), 'store', fmt(e.d['target']), '=', fmt(e.d['value']))
            elif e.kind in ('return', 'raise'):
                print('   ', '  ' * len(e.stack), e.kind, fmt(e.d))
            else:
                print('   ', '  ' * len(e.stack), e.kind, e.d if not isinstance(e.d, tuple) else [fmt(x) if isinstance(x, tuple) else x for x in e.d])
main()
