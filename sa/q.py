"""Query helpers over events and terms (used by the property modules)."""
from .interp import fmt, contains, subterms
from .model import ClassInfo


def call_name(ev):
    """last component of the callee expression of a call event"""
    f = ev.d["func"]
    return term_name(f)


def term_name(f):
    if not isinstance(f, tuple):
        return None
    if f[0] == "attr":
        return f[2]
    if f[0] in ("name", "param", "free"):
        return f[1]
    if f[0] in ("func", "class"):
        return f[1].split(":")[-1].split(".")[-1]
    if f[0] == "ext":
        return f[1].split(".")[-1]
    if f[0] == "global":
        return f[2]
    if f[0] == "closure":
        return "<closure>"
    return None


def recv(ev):
    f = ev.d["func"]
    if isinstance(f, tuple) and f[0] == "attr":
        return f[1]
    return None


LEVELS = ("debug", "info", "warning", "warn", "error", "exception", "critical", "log")


def _logging_fn(f):
    return isinstance(f, tuple) and f and f[0] == "ext" and (f[1].startswith("logging.") or f[1] == "logging")


def is_log(ev):
    """a logging call: <something>_log / LOG / logger .debug(...), the stdlib logging module's functions, or a
    method of a logger obtained from logging.getLogger(...) on the spot"""
    f = ev.d["func"]
    if _logging_fn(f):
        return True
    if isinstance(f, tuple) and f[0] == "attr" and f[2] in LEVELS:
        b = f[1]
        if isinstance(b, tuple) and b and b[0] == "call" and (_logging_fn(b[1]) or (isinstance(b[1], tuple) and b[1][0] == "attr" and b[1][2] == "getLogger")):
            return True
        s = fmt(b)
        return s.endswith("_log") or s.endswith("LOG") or s.endswith("logger") or s == "log"
    return False


def metric_of(ev):
    """(NAME, op, labels dict) for metrics.NAME.labels(...).inc()/dec() ; None otherwise"""
    f = ev.d["func"]
    if not (isinstance(f, tuple) and f[0] == "attr" and f[2] in ("inc", "dec")):
        return None
    b = f[1]
    if isinstance(b, tuple) and b[0] == "call":
        g = b[1]
        if isinstance(g, tuple) and g[0] == "attr" and g[2] == "labels":
            m = g[1]
            if isinstance(m, tuple) and m[0] == "attr" and isinstance(m[1], tuple) and m[1][0] == "global" and m[1][2] == "metrics":
                labels = {}
                for k, v in b[3]:
                    if k is None and isinstance(v, tuple) and v[0] == "kw":
                        for kk, vv in v[1]:
                            labels[kk] = vv
                        if v[2] is not None:
                            labels["**"] = v[2]
                    elif k is None:
                        labels["**"] = v  # **<mapping that is not known here>
                    else:
                        labels[k] = v
                return (m[2], f[2], labels)
    return None


def is_super_call(ev, name=None):
    f = ev.d["func"]
    if isinstance(f, tuple) and f[0] == "attr" and isinstance(f[1], tuple) and f[1][0] == "super":
        return name is None or f[2] == name
    return False


def lock_terms(locks):
    return [l[1] for l in locks]


def has_lock(ev, term):
    return any(l[1] == term for l in ev.locks)


def calls(path, pred=None):
    return [e for e in path.events if e.kind == "call" and (pred is None or pred(e))]


def first(path, pred):
    for e in path.events:
        if pred(e):
            return e
    return None


def before(a, b):
    return a is not None and b is not None and a.seq < b.seq


def path_sig(path):
    """branch decisions of a path, rendered (for reports)"""
    return "; ".join("%s=%s" % (fmt(t) if isinstance(t, tuple) else t, v) for t, v in path.branch_atoms())


def self_field(term, field=None):
    """is term `self.<field>`?"""
    return isinstance(term, tuple) and term[0] == "attr" and term[1] == ("param", "self") and (field is None or term[2] == field)


def args_forwarded(ev, fi, skip=1):
    """does the call pass fi's own parameters (after `skip`) unchanged, in order?
    Accepts  f(a, b, *args, **kwargs)  for def g(self, a, b, *args, **kwargs)."""
    want = [("param", p) for p in fi.params[skip:]]
    args = list(ev.d["args"])
    got = []
    rest = None
    for a in args:
        if isinstance(a, tuple) and a and a[0] == "star":
            v = a[1]
            if isinstance(v, tuple) and v[0] == "seq":
                got.extend(v[1])
                if v[2] is not None:
                    rest = (v[2], v[3])
            else:
                rest = (v, 0)
        else:
            got.append(a)
    if got != want:
        return False, "positional arguments %s differ from the parameters %s" % ([fmt(x) for x in got], [fmt(x) for x in want])
    if fi.vararg:
        if rest != (("param", fi.vararg), 0):
            return False, "*%s is not forwarded unchanged" % fi.vararg
    elif rest is not None:
        return False, "unexpected * argument"
    kws = list(ev.d["kwargs"])
    if fi.kwarg:
        ok = any(k is None and v == ("kw", (), ("param", fi.kwarg)) for k, v in kws)
        if not ok:
            return False, "**%s is not forwarded unchanged" % fi.kwarg
        extra = [k for k, v in kws if k is not None]
        if extra:
            return False, "extra keyword arguments %s" % extra
    elif kws:
        return False, "unexpected keyword arguments"
    return True, ""


MUTATORS = ("pop", "popitem", "clear", "update", "setdefault", "remove", "append", "insert", "extend", "sort", "reverse", "__setitem__", "__delitem__")


def params_mutated_before(path, ev, fi, skip=1):
    """events before `ev` on this path that change one of fi's own parameter objects in place
    (kwargs.pop(...), kwargs[k] = v, del kwargs[k], args.clear() ...): what is forwarded afterwards under the
    parameter's name is no longer what the caller passed"""
    ps = [("param", x) for x in list(fi.params[skip:]) + [fi.vararg, fi.kwarg] if x]
    if fi.kwarg:
        ps.append(("kw", (), ("param", fi.kwarg)))
    if fi.vararg:
        ps.append(("seq", (), ("param", fi.vararg), 0))
    out = []
    for e in path.events:
        if e.seq >= ev.seq:
            break
        if e.kind == "call":
            f = e.d["func"]
            if isinstance(f, tuple) and f[0] == "attr" and f[1] in ps and f[2] in MUTATORS:
                out.append((e, "%s.%s(...)" % (fmt(f[1]), f[2])))
        elif e.kind in ("store", "del"):
            t = e.d.get("target")
            if isinstance(t, tuple) and t and t[0] == "sub" and t[1] in ps:
                out.append((e, "%s %s" % ("del" if e.kind == "del" else "store into", fmt(t))))
    return out


def truth_of(path, term):
    """truth value this path took for `term` (from its branch history, which survives memo invalidation)"""
    out = None
    for e in path.events:
        if e.kind == "branch":
            t, v = e.d
            neg = False
            while isinstance(t, tuple) and t[0] == "not":
                neg = not neg
                t = t[1]
            if t == term:
                out = (v != neg)
    if out is None:
        return path.assume.get(term)
    return out


def result_of(ev):
    """the value term of an opaque call event"""
    if "result" in ev.d:
        return ev.d["result"]
    return ("call", ev.d["func"], ev.d["args"], ev.d["kwargs"], ev.d.get("site"))


def deref(path, v, depth=0):
    """replace references to list/set objects built on this path by their (final) contents, recursively"""
    if not isinstance(v, tuple) or depth > 40:
        return v
    if v and v[0] == "ref":
        c = path.heap.get(v)
        if c is None:
            return v
        return deref(path, c, depth + 1)
    return tuple(deref(path, x, depth + 1) if isinstance(x, tuple) else x for x in v)


def atoms(path):
    """branch decisions with negations stripped: [(term, truth, event)]"""
    out = []
    for e in path.events:
        if e.kind == "branch":
            t, v = e.d
            while isinstance(t, tuple) and t and t[0] == "not":
                t = t[1]
                v = not v
            out.append((t, v, e))
    return out


def exc_info_item(a, idx=None):
    """is `a` element idx of sys.exc_info() (by subscript or by tuple unpacking)?"""
    if not (isinstance(a, tuple) and a and a[0] in ("sub", "unpack")):
        return False
    c = a[1]
    if not (isinstance(c, tuple) and c and c[0] == "call" and term_name(c[1]) == "exc_info"):
        return False
    i = a[2][1] if a[0] == "sub" and isinstance(a[2], tuple) and a[2][0] == "const" else a[2] if a[0] == "unpack" else None
    return idx is None or i == idx
