"""C02 -- every returned future obeys the concurrent.futures.Future protocol.

Decided:
  R-SETTER   every concrete _Future subclass resolves set_result / set_exception(_info) to a library override
             that performs the stdlib transition under the future's own lock and dispatches the privately held
             callbacks exactly once, after releasing it, only when the transition happened
  R-ADDCB    add_done_callback: done()-test and append are one critical section; the direct call is outside it
  R-CANCEL   _Future.cancel for every subclass: True if already cancelled, False if done, False on a veto, else the
             stdlib cancel followed (under the lock) by set_running_or_notify_cancel and (outside it) one dispatch;
             every return value is a bool; no path raises
  R-NOTIFY   every future the library allocates either is terminal before it escapes or belongs to a class whose
             cancel() notifies waiters exactly once (OutputFuture)
  R-JOBPOP   retry: a job is removed only after its future is resolved/done, under that future's lock, or
             atomically replaced -- the invariant behind the 'Cancel called on orphan' assertion in cancel()
  R-PROBE    no hasattr/getattr probing of a future the library was handed (a failed proxy future would raise in
             the delegate callback and the dependent future would never release its waiters; shared with C17)
Not decided: exactly-once delivery under all interleavings is argued from these + the stdlib's own at-most-once
transition, not model-checked.
"""
from ..core import where_of, trace_of
from ..interp import fmt, contains, subterms
from ..model import AnalysisError, ClassInfo
from .. import q
from .. import roles
from .c03 import terminal_on

SETTERS = ("set_result", "set_exception", "set_exception_info")


LOCKF = [None]


def own_lock(it, p, selfterm=("param", "self")):
    return ("attr", selfterm, LOCKF[0])


def check(ctx, rep):
    prog = ctx.prog
    rep.rule("R-SETTER", "set_result/set_exception/set_exception_info of every concrete _Future subclass resolve to a library override; the stdlib transition runs with self._me_lock held; _me_invoke_callbacks runs exactly once, after the lock is released, on exactly the paths where the transition ran")
    rep.rule("R-ADDCB", "add_done_callback: `not done()` and the append happen under one hold of self._me_lock; the direct call fn(self) happens without it, only on the done path")
    rep.rule("R-CANCEL", "cancel(): cancelled -> True; done -> False; falsy veto -> False without touching the state; else stdlib cancel, then set_running_or_notify_cancel under the lock and one callback dispatch outside it; returns only True/False/the stdlib result; never raises")
    rep.rule("R-NOTIFY", "a future allocated by the library is terminal on every path before it escapes, or its class pairs every successful cancel with exactly one set_running_or_notify_cancel")
    rep.rule("R-PROBE", "library code that handles a future it was given never uses hasattr/getattr on it with a name outside the Future API: a proxy future forwards the lookup to the awaited result, the delegate callback raises the future's own exception and the dependent future is never completed (its waiters are never released)")
    from .c17 import probe_rule
    probe_rule(ctx, rep, "R-PROBE")
    rep.rule("R-JOBPOP", "every removal of a retry job happens after its future was resolved or found done, or with that future's lock held, or in the same executor-lock region as the insertion of its replacement")
    P = roles.proto(ctx)
    fut = P.fut
    lockf = LOCKF[0] = P.lock
    HOOK = P.hook
    SELF = ("param", "self")
    concrete = [c for c in prog.subclasses(fut, strict=True)]
    rep.count("concrete _Future subclasses", len(concrete), 7)
    inv = P.dispatch

    # ------------------------------------------------------------------ R-SETTER
    for ci in concrete:
        for name in SETTERS:
            o, m = ci.lookup(name)
            rep.ob("R-SETTER", "%s.%s is a library override" % (ci.name, name), m is not None,
                   "%s.%s resolves to concurrent.futures.Future.%s, which knows nothing about the callbacks held in _me_done_callbacks: they would never run" % (ci.name, name, name), ci.module.relpath)
            if m is None:
                continue
            ps, it = ctx.paths(m, ci, inline=_no_cb_inline)
            L = own_lock(it, None)
            ntrans = 0
            for p in ps:
                if p.status == "raise":
                    continue
                trans = [e for e in p.calls() if terminal_on(e, ("param", "self"), it, p) and q.call_name(e) in SETTERS]
                disp = [e for e in p.calls() if e.d["callee"] is inv]
                key = "%s.%s" % (ci.name, name)
                if trans:
                    ntrans += 1
                    rep.ob("R-SETTER", key + ": transition under the future's lock", all(q.has_lock(e, L) for e in trans), "the stdlib %s runs without self._me_lock" % name, where_of(trans[0].fn, trans[0].node), trace_of(p, trans[0].seq))
                    rep.ob("R-SETTER", key + ": exactly one transition", len(trans) == 1, "%d stdlib transitions on one path" % len(trans), where_of(m), trace_of(p))
                    ok = len(disp) == 1 and disp[0].seq > trans[-1].seq and not q.has_lock(disp[0], L)
                    why = "callbacks dispatched %d times" % len(disp)
                    if len(disp) == 1 and q.has_lock(disp[0], L):
                        why = "callbacks are dispatched while self._me_lock is still held"
                    elif len(disp) == 1 and disp[0].seq < trans[-1].seq:
                        why = "callbacks are dispatched before the state transition"
                    rep.ob("R-SETTER", key + ": one dispatch after the lock is released", ok, why, where_of(m), trace_of(p))
                else:
                    rep.ob("R-SETTER", key + ": no dispatch without a transition", not disp, "callbacks dispatched on a path that did not change the state", where_of(m), trace_of(p))
            rep.ob("R-SETTER", "%s.%s reaches the stdlib transition" % (ci.name, name), ntrans > 0, "no path of the override performs the stdlib transition", where_of(m))

    trans_rule(ctx, rep, concrete, inv, lockf)

    # ---- test-then-use of a field under the future's lock needs its writers to take that lock
    rep.rule("R-TESTUSE", "a field of a future that some method tests and then uses under the future's lock (e.g. `if self._delegate and not self._delegate.cancel()`) is only written with that future's lock held (outside __init__)")
    tested = {}
    for ci in concrete:
        o, cm = ci.lookup("cancel")
        roots = [cm] if cm is not None else []
        for c in ci.mro():
            if isinstance(c, ClassInfo):
                for name, m in c.methods.items():
                    if ci.lookup(name)[1] is m and name in ("running", HOOK):
                        roots.append(m)
        for m in roots:
            ps, it = ctx.paths(m, ci, depth=3, inline=_no_cb_inline)
            for p in ps:
                for b in p.evs("branch"):
                    t = b.d[0]
                    if q.self_field(t) and b.d[1] is True:
                        uses = [e for e in p.calls() if e.seq > b.seq and q.recv(e) == t]
                        held = any(l[1] == ("attr", ("param", "self"), lockf) for l in b.locks)
                        if uses and held:
                            tested.setdefault(t[2], set()).add(ci.key)
    rep.count("fields tested-then-used under the future's lock", len(tested), 2)
    nw = 0
    for fi in sorted(prog.functions.values(), key=lambda f: f.key):
        if fi.parent is not None or fi.name == "__init__":
            continue
        for ci2 in ctx.instances(fi):
            ps, it = ctx.paths(fi, ci2, depth=0)
            for p in ps:
                for e in p.evs("store"):
                    t = e.d["target"]
                    if t[0] != "attr" or t[2] not in tested or e.fn is not fi:
                        continue
                    bt = it.type_of(t[1], p)
                    bc = ctx.types.cls_of(bt) if bt else None
                    if bc is None or not any(k == x.key for k in tested[t[2]] for x in bc.mro() if isinstance(x, ClassInfo)) and not any(bc.key == k2 or prog.classes[k2] in [y for y in bc.mro()] or bc in prog.classes[k2].mro() for k2 in tested[t[2]]):
                        continue
                    nw += 1
                    locked = any(l[1] == ("attr", t[1], lockf) for l in e.locks)
                    if not locked:
                        # a helper that is only ever called with that future's lock held
                        cs = ctx.callgraph().get(fi.key, set())
                        locked = bool(cs) and all(_store_locked_in_caller(ctx, fi, ck, cik, t[2], lockf) for ck, cik in cs)
                    rep.ob("R-TESTUSE", "%s: write of %s.%s under that future's lock" % (fi.qualname, bc.name, t[2]), locked,
                           "%s is tested and then used under the future's lock elsewhere (check-then-act), but is written here without it: a cancel() between the test and the use sees None" % t[2], where_of(fi, e.node), trace_of(p, e.seq))
    rep.count("writes of test-then-use fields", nw, 4)

    dispatch_rule(ctx, rep)
    reentry_rule(ctx, rep)

    addcb_rule(ctx, rep)

    # -------------------------------------------------------------------- R-CANCEL
    for ci in concrete:
        o, cm = ci.lookup("cancel")
        if cm is None or cm.owner is not fut:
            continue  # NoCancelFuture overrides cancel: C17
        ps, it = ctx.paths(cm, ci, depth=max(ctx.depth, 5), inline=_no_cb_inline)
        seen = set()
        for p in ps:
            sig = q.path_sig(p)
            key0 = "%s.cancel" % ci.name
            if p.status == "raise":
                rep.ob("R-CANCEL", key0 + " never raises", False, "cancel() can raise %s [%s]" % (fmt(p.value), sig[:160]), where_of(cm), trace_of(p))
                continue
            if p.status != "return":
                continue
            stdc = [e for e in p.calls() if q.is_super_call(e, "cancel") and e.d["func"][1][2] == ("param", "self") and e.d["callee"] is None]
            notif = [e for e in p.calls() if q.call_name(e) == "set_running_or_notify_cancel" and q.recv(e) == ("param", "self")]
            disp = [e for e in p.calls() if e.d["callee"] is inv and q.recv(e) == SELF]
            veto = [e for e in p.calls() if q.call_name(e) == HOOK and q.recv(e) == SELF]
            atoms = dict((fmt(t), v) for t, v in p.branch_atoms())
            v = p.value
            okret = v in (("const", True), ("const", False)) or (stdc and v == q.result_of(stdc[0]))
            rep.ob("R-CANCEL", key0 + " returns a bool", okret, "cancel() returns %s" % fmt(v), where_of(cm), trace_of(p))
            if atoms.get("self.cancelled()") is True:
                seen.add("cancelled")
                rep.ob("R-CANCEL", key0 + ": already cancelled -> True, no effect", v == ("const", True) and not stdc and not notif and not disp and not veto, "an already-cancelled future must answer True without side effects", where_of(cm), trace_of(p))
            elif atoms.get("self.done()") is True:
                seen.add("done")
                rep.ob("R-CANCEL", key0 + ": finished -> False, no effect", v == ("const", False) and not stdc and not notif and not disp and not veto, "a finished future must answer False without side effects", where_of(cm), trace_of(p))
            elif not stdc:
                seen.add("veto")
                rep.ob("R-CANCEL", key0 + ": veto -> False, state untouched", v == ("const", False) and not notif and not disp and len(veto) == 1, "a vetoed cancel must answer False and leave the future alone", where_of(cm), trace_of(p))
            else:
                succeeded = q.truth_of(p, q.result_of(stdc[0]))
                seen.add("cancel-%s" % succeeded)
                L = ("attr", ("param", "self"), lockf)
                ok = len(stdc) == 1 and q.has_lock(stdc[0], L) and len(veto) == 1 and veto[0].seq < stdc[0].seq
                rep.ob("R-CANCEL", key0 + ": veto asked first, stdlib cancel under the lock", ok, "the subclass veto must be consulted before the stdlib cancel, which runs under self._me_lock", where_of(cm), trace_of(p))
                if succeeded:
                    ok = len(notif) == 1 and q.has_lock(notif[0], L) and notif[0].seq > stdc[0].seq
                    rep.ob("R-CANCEL", key0 + ": successful cancel notifies waiters", ok, "after a successful stdlib cancel, set_running_or_notify_cancel() must be called once under the lock (found %d): waiters in wait()/as_completed() are not released otherwise" % len(notif), where_of(cm), trace_of(p))
                    ok = len(disp) == 1 and not q.has_lock(disp[0], L) and disp[0].seq > stdc[0].seq
                    rep.ob("R-CANCEL", key0 + ": successful cancel dispatches callbacks once, outside the lock", ok, "found %d dispatches%s" % (len(disp), " (lock still held)" if disp and q.has_lock(disp[0], L) else ""), where_of(cm), trace_of(p))
                else:
                    rep.ob("R-CANCEL", key0 + ": failed stdlib cancel has no effect", not notif and not disp, "notification or dispatch after the stdlib cancel failed", where_of(cm), trace_of(p))
        rep.ob("R-CANCEL", "%s.cancel: all four cases present" % ci.name, {"cancelled", "done", "cancel-True"} <= seen, "cases found: %s" % sorted(seen), where_of(cm))

    # -------------------------------------------------------------------- R-NOTIFY
    # classes that extend the stdlib Future directly (not through _Future) and override cancel(): output futures
    outs = []
    for ci in prog.classes.values():
        if ci is fut or fut in ci.mro() or "cancel" not in ci.methods:
            continue
        if any(not isinstance(b, ClassInfo) and str(b).endswith("Future") for b in ci.mro()):
            outs.append(ci)
    rep.count("stdlib-Future subclasses overriding cancel()", len(outs), 1)
    for out in outs:
        cm = out.methods["cancel"]
        own = set(m.key for m in out.methods.values())
        ps, it = ctx.paths(cm, out, depth=3, inline=lambda callee, ev, path: callee.key in own)
        kinds = set()
        N = out.name
        for p in ps:
            if p.status == "raise":
                rep.ob("R-NOTIFY", "%s.cancel never raises" % N, False, fmt(p.value), where_of(cm), trace_of(p))
                continue
            stdc = [e for e in p.calls() if q.is_super_call(e, "cancel")]
            notif = [e for e in p.calls() if q.call_name(e) == "set_running_or_notify_cancel"]
            if not stdc:
                # answered without the stdlib transition: only for a future that already is cancelled
                was = q.truth_of(p, ("call", ("attr", SELF, "cancelled"), (), (), None))
                kinds.add("again")
                rep.ob("R-NOTIFY", "%s.cancel: answers without the stdlib cancel only when already cancelled" % N, was is True and p.value == ("const", True) and not notif, "cancel() returns %s without calling the stdlib cancel (self.cancelled() = %s)" % (fmt(p.value), was), where_of(cm), trace_of(p))
                continue
            rep.ob("R-NOTIFY", "%s.cancel: one stdlib cancel per path" % N, len(stdc) == 1, "%d stdlib cancel() calls on one path" % len(stdc), where_of(cm), trace_of(p))
            succ = q.truth_of(p, q.result_of(stdc[0]))
            if not succ:
                kinds.add("failed")
                rep.ob("R-NOTIFY", "%s.cancel: failed cancel -> False" % N, p.value in (("const", False), q.result_of(stdc[0])) and not notif, "", where_of(cm), trace_of(p))
                continue
            flags = [(t, v, e) for t, v, e in q.atoms(p) if q.self_field(t)]
            stores = [e for e in p.evs("store") if q.self_field(e.d["target"]) and e.d["value"] == ("const", True)]
            already = any(v for t, v, e in flags)
            kinds.add("again" if already else "first")
            if already:
                rep.ob("R-NOTIFY", "%s.cancel: repeated cancel does not notify again" % N, not notif and p.value in (("const", True), q.result_of(stdc[0])), "set_running_or_notify_cancel would raise on a second call", where_of(cm), trace_of(p))
            else:
                ok = len(notif) == 1 and len(stores) == 1 and bool(flags) and stores[0].d["target"] == flags[0][0] and p.value in (("const", True), q.result_of(stdc[0]))
                lk = [l for l in notif[0].locks] if notif else []
                same = ok and bool(lk) and all(l in flags[0][2].locks for l in lk) and all(l in stores[0].locks for l in lk)
                rep.ob("R-NOTIFY", "%s.cancel: first successful cancel notifies once, flag test-and-set under one lock" % N, ok and same, "the notified flag must be tested, set and the notification issued under one lock, exactly once", where_of(cm), trace_of(p))
        # the notified flag starts out false
        o_, oinit = out.lookup("__init__")
        flagf = set(t[2] for p_ in ps for t, v_, e_ in q.atoms(p_) if q.self_field(t))
        if oinit is not None and flagf:
            ips, iit = ctx.paths(oinit, out, depth=0)
            for ip in ips:
                if ip.status == "raise":
                    continue
                for f_ in sorted(flagf):
                    iv = ip.heap.get(("attr", SELF, f_))
                    rep.ob("R-NOTIFY", "%s: the notified flag starts out false" % N, iv == ("const", False), "%s is initialised to %s: the first successful cancel() would take the 'already notified' branch and waiters are never released" % (f_, fmt(iv) if iv is not None else "nothing"), where_of(oinit))
        rep.ob("R-NOTIFY", "%s.cancel: failed / first / repeated cancel are all handled" % N, kinds >= {"failed", "first", "again"}, "cases found: %s (a successful stdlib cancel that was already notified must be told apart from the first one)" % sorted(kinds), where_of(cm))

    # allocation sites: plain stdlib futures must be terminal before they escape; pending outputs must be OutputFuture/_Future
    nalloc = 0
    # private helpers that merely allocate a plain Future and hand it back to their caller are examined in that
    # caller (inlined there): the obligation belongs to the function that lets the future escape
    FACTORIES.clear()
    callers_of = ctx.callgraph()
    for fi in prog.functions.values():
        if fi.parent is None and fi.name.startswith("_") and not fi.name.startswith("__") and callers_of.get(fi.key):
            for ci in ctx.instances(fi):
                ps0, it0 = ctx.paths(fi, ci, depth=0)
                if any(p.status == "return" and isinstance(p.value, tuple) and p.value[0] == "extnew" and p.value[1] == "Future" and not any(_terminal_any(x, p.value) for x in p.calls()) for p in ps0):
                    FACTORIES.add(fi.key)
    for fi in sorted(prog.functions.values(), key=lambda f: f.key):
        if fi.parent is not None or fi.key in FACTORIES:
            continue
        for ci in ctx.instances(fi):
            ps, it = ctx.paths(fi, ci, depth=2, inline=_alloc_inline)
            for p in ps:
                if p.status != "return":
                    continue
                for e in p.calls():
                    f = e.d["func"]
                    if f == ("ext", "concurrent.futures.Future") and (e.fn is fi or e.fn.key in FACTORIES):
                        nalloc += 1
                        obj = None
                        for k, t in p.types.items():
                            if t == "E:Future" and k[0] == "extnew" and k[2].startswith("%d:%d:" % (e.node.lineno, e.node.col_offset)):
                                obj = k
                        rep.require(obj is not None, "%s: allocated Future object not tracked" % fi.qualname)
                        term = [x for x in p.calls() if x.seq > e.seq and _terminal_any(x, obj)]
                        key = "%s: plain Future() is terminal before it escapes" % fi.qualname
                        rep.ob("R-NOTIFY", key, bool(term), "a plain concurrent.futures.Future leaves %s still pending on path [%s]: cancel() on it would not release waiters (use a class whose cancel() notifies)" % (fi.qualname, q.path_sig(p)[:80]), where_of(fi, e.node), trace_of(p))
                        for x in term:
                            if q.call_name(x) == "cancel":
                                nt = [y for y in p.calls() if y.seq > x.seq and q.call_name(y) == "set_running_or_notify_cancel" and q.recv(y) == obj]
                                rep.ob("R-NOTIFY", "%s: cancel of a plain Future is followed by notification" % fi.qualname, len(nt) == 1, "", where_of(fi, x.node))
    rep.count("plain Future() allocation sites", nalloc, 5)

    # -------------------------------------------------------------------- R-JOBPOP
    rex = prog.cls("RetryExecutor")
    rfut = prog.cls("RetryFuture")
    callers = ctx.callgraph()
    # roots: entry points of the retry executor (public methods, registered callbacks, the thread loop);
    # private helpers that are only ever called from those are covered through inlining
    roots = [(m, rex) for m in rex.methods.values() if not (m.name.startswith("_") and callers.get(m.key))]
    layer = roles.Layer(ctx, rex)
    rep.require(layer.loop is not None, "RetryExecutor worker thread not found")
    roots.append((layer.loop, None))
    roots.append((fut.methods["cancel"], rfut))
    RQ = roles.Queue(ctx, rex)
    RREM = roles.removers(ctx, RQ)
    FUTF = RQ.roles["future"]
    npop = 0
    for m, ci in sorted(roots, key=lambda x: x[0].key):
        ps, it = ctx.paths(m, ci, depth=6, inline=_no_cb_inline)
        for p in ps:
            for e, j in roles.removal_actions(p, it, RQ, RREM):
                if True:
                    r = ("attr", q.recv(e), RQ.field) if j is not None else q.recv(e)
                    job = j if j is not None else _popped_job(p, e)
                    if job is None:
                        raise AnalysisError("%s: cannot identify the job removed at %s" % (m.qualname, e.where()))
                    npop += 1
                    D = ("attr", job, FUTF)
                    Dv = p.heap.get(D, D)
                    cands = [D, Dv]
                    if ci is rfut:
                        cands.append(("param", "self"))
                    resolved = any(x.seq < e.seq and any(terminal_on(x, d, it, p) for d in cands) for x in p.calls())
                    found_done = any(b.seq < e.seq and b.d[1] is True and isinstance(b.d[0], tuple) and b.d[0][0] == "call" and b.d[0][1][0] == "attr" and b.d[0][1][2] == "done" and b.d[0][1][1] in cands for b in p.evs("branch"))
                    locked = any(l[1] == ("attr", d, lockf) for l in e.locks for d in cands)
                    xlock = [l for l in e.locks if l[1][0] == "attr" and l[1][2] in RQ.locks and it.type_of(l[1][1], p) == "C:" + rex.key]
                    replaced = False
                    if xlock:
                        # same hold of the executor lock also inserts a job for the same future
                        # end of the outermost hold of the executor lock (it is re-entrant and may be nested)
                        end = 10 ** 9
                        for x in p.events:
                            if x.seq > e.seq and not any(l == xlock[0] for l in x.locks):
                                end = x.seq
                                break
                        for a in p.calls():
                            if e.seq < a.seq < end and q.call_name(a) == "append" and q.recv(a) == r and a.d["args"]:
                                nj = a.d["args"][0]
                                nf = p.heap.get(("attr", nj, FUTF))
                                if nf is not None and (nf in cands or nf == Dv):
                                    replaced = True
                    ok = resolved or found_done or locked or replaced
                    key = "%s: job removal is safe against a concurrent cancel()" % m.qualname
                    rep.ob("R-JOBPOP", key, ok, "the job of %s is removed while its future may still be pending, without that future's lock and without an atomic replacement: a cancel() arriving now finds no job ('Cancel called on orphan') [%s]" % (fmt(D), q.path_sig(p)[:120]), where_of(e.fn, e.node), trace_of(p, e.seq))
    rep.count("retry job removals analysed (per root path)", npop, 8)


def addcb_rule(ctx, rep):
    """shared with C01: registering a callback and the future's completion are atomic with respect to each other"""
    P = roles.proto(ctx)
    fut = P.fut
    lockf = P.lock
    rep.rule("R-ADDCB", "add_done_callback: `not done()` and the append happen under one hold of the future's lock; the direct call fn(self) happens without it, only on the done path")
    # ------------------------------------------------------------------- R-ADDCB
    adc = fut.methods.get("add_done_callback")
    rep.require(adc is not None, "_Future.add_done_callback not found")
    ps, it = ctx.paths(adc, fut, depth=0)
    L = ("attr", ("param", "self"), lockf)
    kinds = set()
    for p in ps:
        if p.status == "raise" :
            continue
        tests = [e for e in p.evs("branch") if isinstance(e.d[0], tuple) and e.d[0][0] == "call" and e.d[0][1] == ("attr", ("param", "self"), "done")]
        apps = [e for e in p.calls() if q.call_name(e) == "append" and q.recv(e) == P.CBS]
        direct = [e for e in p.calls() if e.d.get("user") and e.d["func"] == ("param", adc.params[1])]
        if len(tests) != 1:
            # "already done?" is decided by something other than done(): any stand-in (a flag, the list being None) is
            # written at a different moment than the state transition itself, and a callback registered in between
            # is neither called nor kept
            rep.ob("R-ADDCB", "add_done_callback decides by the future's own done()", False, "a path through add_done_callback makes %d tests of self.done() (path: %s): whether the callback is queued or called at once must be decided by done() itself, under the future's lock -- the transition is made under that lock, anything else that stands in for it is updated later" % (len(tests), q.path_sig(p)[-140:]), where_of(adc), trace_of(p))
            continue
        t = tests[0]
        is_done = t.d[1]
        kinds.add(is_done)
        key = "add_done_callback [%s]" % ("done" if is_done else "pending")
        rep.ob("R-ADDCB", key + ": done() tested under the lock", q.has_lock(t, L), "done() is tested without self._me_lock", where_of(adc, t.node), trace_of(p))
        if is_done:
            ok = not apps and len(direct) == 1 and not q.has_lock(direct[0], L) and direct[0].d["args"] == (("param", "self"),)
            rep.ob("R-ADDCB", key + ": direct call outside the lock", ok, "on a done future the callback must be called exactly once, with the future, without self._me_lock (appended: %d, called: %d, lock held at call: %s)" % (len(apps), len(direct), bool(direct and q.has_lock(direct[0], L))), where_of(adc), trace_of(p))
        else:
            same_hold = len(apps) == 1 and q.has_lock(apps[0], L) and roles.held_throughout(p, L, t, apps[0])
            ok = same_hold and not direct and apps[0].d["args"] == (("param", adc.params[1]),)
            rep.ob("R-ADDCB", key + ": append in the same critical section", ok, "on a pending future the callback must be appended under the same hold of the lock as the done() test and not called (appended: %d, called: %d)" % (len(apps), len(direct)), where_of(adc), trace_of(p))
    rep.ob("R-ADDCB", "add_done_callback has a done and a pending path decided by done()", kinds == {True, False}, "paths decided by done(): %s" % sorted(kinds), where_of(adc))



def _store_locked_in_caller(ctx, fi, ck, cik, field, lockf):
    """in the caller (ck, cik), with fi inlined: every store fi makes to <x>.<field> happens with <x>.<lockf> held"""
    cfi = ctx.prog.functions[ck]
    cci = ctx.prog.classes.get(cik) if cik else None
    ps, it = ctx.paths(cfi, cci, depth=1, inline=lambda callee, ev, path: callee is fi)
    seen = False
    for p in ps:
        for e in p.evs("store"):
            t = e.d["target"]
            if e.fn is fi and t[0] == "attr" and t[2] == field:
                seen = True
                if not any(l[1] == ("attr", t[1], lockf) for l in e.locks):
                    return False
    return seen


def reentry_rule(ctx, rep):
    """cancel() asks the subclass hook, which cancels the delegate, whose done-callbacks run at once and come back
    into this same future through the 'my delegate was cancelled' entry.  That entry must do nothing while cancel()
    is in progress (the flag cancel() raises around the hook): otherwise the future is cancelled and dispatched there,
    and cancel() then notifies a future that is already notified -- RuntimeError out of cancel()."""
    from .c03 import cancelling_flags
    P = roles.proto(ctx)
    m = P.cancelled_by_delegate
    if m is None:
        return
    flags = cancelling_flags(ctx)
    SELF = ("param", "self")
    rep.rule("R-REENTRY", "the cancelled-by-delegate entry of the future base class has no effect while cancel() is in progress (cancelling flag set) or when the future is already done")
    ps, it = ctx.paths(m, P.fut, depth=1, inline=lambda callee, ev, path: callee.owner is P.fut and not roles.is_dispatch(callee))
    tested = False
    for p in ps:
        inprog = any(q.truth_of(p, ("attr", SELF, f)) is True for f in flags)
        if any(q.truth_of(p, ("attr", SELF, f)) is not None for f in flags):
            tested = True
        if inprog:
            eff = [e for e in p.calls() if q.is_super_call(e, "cancel") or (e.d["callee"] is not None and roles.is_dispatch(e.d["callee"]))]
            rep.ob("R-REENTRY", "%s: no effect while cancel() is in progress" % m.qualname, not eff, "with the cancelling flag set the entry still cancels / dispatches: cancel() (which is waiting for its hook to return) then finds the future cancelled and notified already and raises RuntimeError('Future in unexpected state')", where_of(m), trace_of(p))
    # the flag belongs to the future's lock: cancel() raises and lowers it with the lock held (possibly on another
    # thread, where the request may still be refused), so it means "my own cancel() is in progress" only to a
    # reader that holds the lock too
    for p in ps:
        for b in p.evs("branch"):
            t = b.d[0]
            while isinstance(t, tuple) and t and t[0] == "not":
                t = t[1]
            hit = [f for f in flags if t == ("attr", SELF, f) or (isinstance(t, tuple) and contains(t, ("attr", SELF, f)))]
            if hit and b.fn is m:
                rep.ob("R-REENTRY", "%s reads the cancelling flag under the future's lock" % m.qualname, q.has_lock(b, P.LOCK), "self.%s is tested without self.%s: a cancel() running on another thread (which may yet be refused by the subclass) makes this entry give up, and if that cancel() is refused nobody ever resolves the future whose delegate was cancelled" % (hit[0], P.lock), where_of(m, b.node), trace_of(p, b.seq))
    rep.ob("R-REENTRY", "%s looks at the cancelling flag" % m.qualname, tested and bool(flags), "the entry never tests the flag cancel() raises around its hook (%s): a delegate cancelled by our own cancel() re-enters here and cancels the future a second time" % sorted(flags), where_of(m))


def dispatch_rule(ctx, rep):
    """the callback dispatcher of _Future: each callback called once, exceptions contained per callback, list dropped"""
    rep.rule("R-DISPATCH", "the callback dispatcher walks the private callback list, contains the exception of each callback separately (the later ones still run), never raises, and empties the list afterwards")
    P = roles.proto(ctx)
    inv = P.dispatch
    fut = P.fut
    # the dispatcher itself: each callback called once, exceptions contained, list dropped
    ps, it = ctx.paths(inv, fut, depth=0)
    for p in ps:
        if p.status == "raise":
            rep.ob("R-DISPATCH", "%s contains callback exceptions" % inv.name, False, "an exception from a callback escapes the dispatcher", where_of(inv), trace_of(p))
        resets = [e for e in p.evs("store") if q.self_field(e.d["target"], P.cbs)]
        if p.status == "return":
            rep.ob("R-DISPATCH", "%s drops the callbacks after dispatch" % inv.name, len(resets) == 1 and q.deref(p, resets[0].d["value"]) == ("list", ()), "the callback list is not reset after dispatch (a second dispatch would call them again)", where_of(inv), trace_of(p))
    # one raising callback must not end the dispatch: after its exception is caught the loop goes on
    for p in ps:
        for c in p.evs("catch"):
            ent = [l for l in p.evs("loop") if l.d[0] == "enter" and l.seq < c.seq]
            if not ent:
                continue
            on = [l for l in p.evs("loop") if l.seq > c.seq and l.node is ent[-1].node and l.d[0] in ("back", "exit") and l.d[1] != "break"]
            rep.ob("R-DISPATCH", "%s: a raising callback does not stop the dispatch" % inv.name, bool(on), "the exception of one callback is caught outside the loop over the callbacks: the callbacks registered after it never run (a chained future waiting on this one stays pending forever)", where_of(inv, c.node), trace_of(p, c.seq))
    loops = [e for p in ps for e in p.evs("loop") if e.d[0] == "enter"]
    rep.ob("R-DISPATCH", "%s iterates the private list" % inv.name, bool(loops) and all(roles.container_of(e.d[1]) == P.CBS for e in loops), "", where_of(inv))



def trans_rule(ctx, rep, concrete, inv, lockf):
    """evaluated on the entry points of each future class (methods that are not merely helpers of other methods
    of the same class), with the class's own helpers inlined: the lock context of a transition is the one of
    the whole call chain, so extracting `_finish()` out of `cancel()` changes nothing"""
    rep.rule("R-TRANS", "wherever a _Future changes its own state (stdlib cancel / set_*), it does so with its own _me_lock held, and wherever it dispatches its callbacks it does not hold that lock")
    callers = ctx.callgraph()
    for ci in concrete:
        seen_m = set()
        own = {}
        for c in ci.mro():
            if isinstance(c, ClassInfo):
                for name, m in c.methods.items():
                    if ci.lookup(name)[1] is m:
                        own[m.key] = m
        for key, m in sorted(own.items()):
            if m.name == inv.name:
                continue
            internal_callers = [ck for ck, _ in callers.get(key, set()) if ck in own and ck != key]
            if internal_callers and m.name.startswith("_") and not (m.name.startswith("__") and m.name.endswith("__")):
                continue  # a helper: covered through its callers
            ps, it = ctx.paths(m, ci, depth=4, inline=_same_class_inline(own))
            L = ("attr", ("param", "self"), lockf)
            for p in ps:
                for e in p.calls():
                    if terminal_on(e, ("param", "self"), it, p) or (q.call_name(e) == "set_running_or_notify_cancel" and q.recv(e) == ("param", "self") and e.d["callee"] is None):
                        rep.ob("R-TRANS", "%s[%s]: %s under the future's lock" % (m.qualname, ci.name, q.call_name(e)), q.has_lock(e, L),
                               "%s() changes the future's state without self._me_lock: a concurrent add_done_callback can see 'not done' and append to a callback list that is about to be / was already dispatched" % q.call_name(e), where_of(e.fn, e.node), trace_of(p, e.seq))
                    if e.d["callee"] is inv and q.recv(e) == ("param", "self"):
                        rep.ob("R-TRANS", "%s[%s]: callbacks dispatched without the future's lock" % (m.qualname, ci.name), not q.has_lock(e, L), "callbacks are dispatched with self._me_lock held", where_of(e.fn, e.node), trace_of(p, e.seq))
                # every successful stdlib cancel of this future -- on whatever entry point -- releases waiters
                # (set_running_or_notify_cancel) and dispatches the callbacks, exactly once; a failed one does neither
                if p.status != "return":
                    continue
                SELF_ = ("param", "self")
                stdc = [e for e in p.calls() if q.is_super_call(e, "cancel") and e.d["callee"] is None and isinstance(e.d["func"][1], tuple) and e.d["func"][1][2] == SELF_]
                if len(stdc) == 1:
                    c0 = stdc[0]
                    succ = q.truth_of(p, q.result_of(c0))
                    notif = [e for e in p.calls() if e.seq > c0.seq and q.call_name(e) == "set_running_or_notify_cancel" and q.recv(e) == SELF_ and e.d["callee"] is None]
                    disp = [e for e in p.calls() if e.seq > c0.seq and e.d["callee"] is inv and q.recv(e) == SELF_]
                    key = "%s[%s]: stdlib cancel" % (m.qualname, ci.name)
                    if succ is True:
                        rep.ob("R-TRANS", key + " that succeeded notifies waiters and dispatches callbacks once", len(notif) == 1 and len(disp) == 1, "after a successful cancel: set_running_or_notify_cancel x%d, callback dispatch x%d (waiters in wait()/as_completed() and chained futures are only released by these)" % (len(notif), len(disp)), where_of(c0.fn, c0.node), trace_of(p, c0.seq))
                    elif succ is False:
                        rep.ob("R-TRANS", key + " that failed has no further effect", not notif and not disp, "after a failed cancel: set_running_or_notify_cancel x%d, callback dispatch x%d" % (len(notif), len(disp)), where_of(c0.fn, c0.node), trace_of(p, c0.seq))


def _same_class_inline(own):
    def pol(callee, ev, path):
        if roles.is_dispatch(callee):
            return False
        if callee.key in own:
            r = q.recv(ev)
            return r == ("param", "self") or (isinstance(r, tuple) and r[0] == "super") or None
        return False
    return pol


def _no_cb_inline(callee, ev, path):
    # do not descend into the callback dispatcher (user code) nor into logging / metrics
    if roles.is_dispatch(callee):
        return False
    if callee.qualname in ("track_future", "record_done"):
        return False
    return None


FACTORIES = set()


def _alloc_inline(callee, ev, path):
    if callee.qualname in ("track_future", "record_done"):
        return False
    if callee.key in FACTORIES:
        return True
    # private module-level helpers next to the function that allocates (e.g. one that runs the callable into the
    # future it is given)
    root = path.frames[0].fi if path.frames else None
    if root is not None and callee.owner is None and callee.parent is None and callee.module is root.module and callee.name.startswith("_") and not any(fr.fi is callee for fr in path.frames) and len(path.frames) < 4:
        return True
    if callee.name in ("copy_exception", "copy_future_exception", "try_set_result"):
        return True
    return False


def _terminal_any(x, obj):
    n = q.call_name(x)
    if n in ("set_result", "set_exception", "set_exception_info", "cancel") and q.recv(x) == obj:
        return True
    return False


def _popped_job(p, e):
    """the job a direct pop/remove on the queue takes out: remove(job) / pop(index of the element found identical
    to a job)"""
    if q.call_name(e) == "remove" and e.d["args"]:
        return e.d["args"][0]
    for t, val, b in q.atoms(p):
        if val is True and b.seq < e.seq and isinstance(t, tuple) and t[0] == "cmp" and t[1] == "is":
            for J in (t[2], t[3]):
                if roles._removes(e, J, p):
                    return J
    return None
