"""C03 -- no future is lost: once its underlying work is finished, the future finishes.

Decided:
  R-WAKE-L / R-WAKE-P   the 'mutate state, then set event' / 'wait, clear, then re-scan' protocol of the four
                        worker loops (see sa/wake.py)
  R-CB-TOTAL            every exit of a delegate/input done-callback has resolved the derived future, handed it
                        to a worker (re-queue / poll registration), re-pointed it at a new delegate, or found it
                        already done / being cancelled by its own cancel() -- including the cancelled-delegate case
  R-DECIDED             a combinator that marks itself decided resolves (or cancels) its output on that path
  R-FIND                every walk over the retry job list is under the executor lock or over a copy (C05)
  R-ZIPTUPLE            f_zip's tuple construction in the last input's callback stays within the bounds of its
                        class table (shared with C15)
Not decided: completion 'no later than the virtual time implied by the configuration'; progress of user delegates.
"""
from ..core import where_of, trace_of
from ..interp import fmt, contains, subterms
from ..model import AnalysisError, ClassInfo
from .. import q
from .. import roles
from .. import wake

TERMINAL = {"set_result", "set_exception", "set_exception_info", "cancel"}


def cancelling_flags(ctx):
    """fields of the future base class set True around the subclass veto inside cancel() and reset afterwards
    (cancel() is looked at with the base class's own helpers inlined)"""
    P = roles.proto(ctx)
    base = P.fut
    cancel = base.methods.get("cancel")
    out = set()
    if cancel is None:
        return out
    ownf = set(m.key for m in base.methods.values())
    overridden = set(n for c in ctx.prog.subclasses(base, strict=True) for n in c.methods)
    ps, it = ctx.paths(cancel, base, depth=3, inline=lambda callee, ev, path: callee.key in ownf and callee.name not in overridden and not roles.is_dispatch(callee))
    bad = set()
    writers = set([cancel.key])
    for p in ps:
        st = [(e.d["target"][2], e.d["value"], e) for e in p.evs("store") if q.self_field(e.d["target"])]
        names = set(n for n, v, e in st)
        for n in names:
            vals = [v for m, v, e in st if m == n]
            if vals and vals[0] == ("const", True) and vals[-1] == ("const", False):
                out.add(n)
                writers.update(e.fn.key for m, v, e in st if m == n)
            elif ("const", True) in vals:
                # some exit of cancel() (return, veto or exception) leaves the flag set: it is not a reliable
                # 'cancel in progress' marker
                bad.add(n)
    out -= bad
    # the flag must not be written anywhere else (except its initialisation to False)
    for fi in ctx.prog.functions.values():
        if fi.key in writers or fi.parent is not None:
            continue
        try:
            ps, it = ctx.paths(fi, fi.owner, depth=0)
        except AnalysisError:
            continue
        for p in ps:
            for e in p.evs("store"):
                t = e.d["target"]
                if t[0] == "attr" and t[2] in out and e.fn is fi and e.d["value"] != ("const", False):
                    out.discard(t[2])
    return out


def terminal_on(e, D, it, p):
    """is call event e a stdlib state transition (or a library override of one) applied to future D?"""
    if e.kind != "call":
        return False
    f = e.d["func"]
    if not (isinstance(f, tuple) and f[0] == "attr" and f[2] in TERMINAL):
        return False
    r = f[1]
    if isinstance(r, tuple) and r[0] == "super":
        return r[2] == D and e.d["callee"] is None
    return r == D and e.d["callee"] is None


def infeasible(p):
    """a value established to be future-like (callable add_done_callback) is never falsy"""
    futurelike = set()
    for t, v in p.branch_atoms():
        if v and isinstance(t, tuple) and t[0] == "call" and t[1] == ("name", "callable") and t[2]:
            g = t[2][0]
            if isinstance(g, tuple) and g[0] == "call" and g[1] == ("name", "getattr") and len(g[2]) >= 2 and g[2][1] == ("const", "add_done_callback"):
                futurelike.add(g[2][0])
        if not v and t in futurelike:
            return True
    return False


def classify(p, D, it, loops, flags, cbname):
    """reason why this path leaves D in good hands, or None"""
    for e in p.events:
        if terminal_on(e, D, it, p):
            return "resolved: %s" % fmt(e.d["func"])
    for e in p.events:
        if e.kind == "branch":
            t, v = e.d
            if v and isinstance(t, tuple) and t[0] == "call" and t[1] == ("attr", D, "done"):
                return "already done"
            if v and isinstance(t, tuple) and t[0] == "attr" and t[1] == D and t[2] in flags:
                return "own cancel() in progress (it completes the cancellation)"
        if e.kind == "call":
            for li in loops:
                m = wake.mutation_of(li, e, it, p)
                if m and m[0] == "+":
                    return "handed to worker: %s" % m[1]
            if q.call_name(e) == "add_done_callback" and e.d["args"]:
                a = e.d["args"][0]
                if isinstance(a, tuple) and a[0] == "attr" and a[1] == D and a[2] == cbname:
                    return "re-pointed at a new delegate"
    return None


def check(ctx, rep):
    prog = ctx.prog
    rep.rule("R-WAKE-L", "per worker-loop iteration (cyclically): each clear() of the loop's event is followed by a scan of the loop's state before the next wait(); wait()/clear() are on the loop's own event; each wait() is followed by a clear()")
    rep.rule("R-WAKE-P", "every enabling mutation of a worker loop's scanned state (insertion into a scanned container, decrement of a scanned in-flight counter) is followed on the same path by set() of that loop's event, in the mutating function or in each of its callers")
    rep.rule("R-CB-TOTAL", "every exit of a delegate done-callback leaves the derived future resolved (stdlib transition reached), handed to a worker loop, re-pointed at a new delegate, already done, or inside its own cancel(); no exit by exception")
    rep.rule("R-DECIDED", "a combinator path that marks the operation decided resolves or cancels the output future on that same path")

    loops = wake.discover(ctx)
    rep.count("worker loops", len(loops), 4)
    for li in loops:
        rep.note("loop %s: event %s, scanned %s, counters %s" % (li.target.qualname, li.event_field, sorted(li.scanned), sorted(li.counters)))
    wake.check_loops(ctx, rep, loops, components="state")
    wake.check_producers(ctx, rep, loops)
    # a worker that rebuilds its work list from a walk must not lose what a producer appends meanwhile: the entry
    # would never be served and its future never complete (shared with C08 / C09)
    rep.rule("R-GUARDED", "a work list that is rebuilt from a walk over itself is walked and stored back in one hold of the owner's lock")
    for li in loops:
        for jf in sorted(li.scanned):
            roles.rebuild_rule(ctx, rep, li.owner, jf, "R-GUARDED", "%s.%s" % (li.owner.name, jf))

    # the retry completion callback must find the job of the finished attempt, or the future is never resolved
    # (shared with C05)
    rep.rule("R-FIND", "every walk over the retry job list happens with the executor lock held or over a copy of the list (an iterator over the live list skips an entry when another thread removes one: the finished attempt's job is not found and its future stays pending)")
    nwalk = roles.iteration_rule(ctx, rep, roles.Queue(ctx, ctx.prog.cls("RetryExecutor")), "R-FIND")
    rep.count("walks over the retry job list", nwalk, 3)
    # the last input's callback of f_zip builds the output tuple: an index error there leaves the output pending for
    # ever (shared with C15)
    from . import c15 as _c15
    from ..core import Report as _Report
    sub15 = _Report(rep.pid, ctx)
    _c15.check(ctx, sub15)
    rep.rule("R-ZIPTUPLE", "f_zip's tuple construction, run inside the last input's done-callback, cannot raise: the class table is indexed only within its bounds")
    nz = 0
    for o in sub15.obs:
        if o.rule == "R-INDEX" and o.key.startswith("maketuple"):
            nz += 1
            rep.ob("R-ZIPTUPLE", o.key, o.ok, o.detail, o.where, o.trace)
    rep.count("maketuple obligations", nz, 2)

    flags = cancelling_flags(ctx)
    depth = max(ctx.depth, 6)
    # a worker that stops serving while its executor is alive loses every future queued behind it (shared with C11)
    from .c11 import looptop_rule
    looptop_rule(ctx, rep)
    # a derived future that reached its final state must also tell the futures chained onto it: every transition
    # is followed by one dispatch of its callbacks (shared with C02)
    from .c02 import trans_rule
    P_ = roles.proto(ctx)
    trans_rule(ctx, rep, [c for c in prog.subclasses(P_.fut, strict=True)], P_.dispatch, P_.lock)
    from .c02 import dispatch_rule
    dispatch_rule(ctx, rep)
    from .c02 import reentry_rule
    reentry_rule(ctx, rep)

    # ---- delegate callbacks of _Future subclasses: methods registered on a delegate by the class itself
    n = 0
    fut = prog.cls("_Future")
    for ci in prog.subclasses(fut):
        cbs = set()
        for c in ci.mro():
            if not isinstance(c, ClassInfo):
                continue
            for m in c.methods.values():
                if ci.lookup(m.name)[1] is not m:
                    continue
                ps, it = ctx.paths(m, ci, depth=0)
                for p in ps:
                    for e in p.calls():
                        if q.call_name(e) == "add_done_callback" and q.recv(e) != ("param", "self") and e.d["args"]:
                            a = e.d["args"][0]
                            if isinstance(a, tuple) and a[0] == "attr" and a[1] == ("param", "self"):
                                o, cb = ci.lookup(a[2])
                                if cb is not None and not cb.is_classmethod:
                                    cbs.add(cb)
        for cb in sorted(cbs, key=lambda f: f.key):
            n += 1
            ps, it = ctx.paths(cb, ci, depth=depth)
            D = ("param", "self")
            for p in ps:
                if infeasible(p):
                    continue
                sig = q.path_sig(p)
                key = "%s.%s[%s] %s" % (cb.owner.name, cb.name, ci.name, _short(sig))
                if p.status == "raise":
                    if not any(terminal_on(e, D, it, p) for e in p.events):
                        rep.ob("R-CB-TOTAL", key, False, "the callback can exit by exception (%s) leaving the future unresolved" % fmt(p.value), where_of(cb), trace_of(p))
                    continue
                why = classify(p, D, it, loops, flags, cb.name)
                rep.ob("R-CB-TOTAL", key, why is not None, "this exit of the delegate callback neither resolves the future nor hands it on (delegate outcome: %s)" % _outcome(sig), where_of(cb), trace_of(p))
    rep.count("future classes x delegate callbacks", n, 6)

    # ---- RetryExecutor: callback registered by the executor; derived future is the job's future
    RR = roles.retry_roles(ctx)
    rex = RR.cls
    cb = RR.layer.callback
    ps, it = ctx.paths(cb, rex, depth=depth)
    DP = ("param", cb.params[1])
    n = 0
    for p in ps:
        # the job found for this delegate: a record whose in-flight field was found equal to the completed future
        D = None
        for t, v, b_ in q.atoms(p):
            if v is True and isinstance(t, tuple) and t[0] == "cmp" and t[1] in ("==", "is") and DP in (t[2], t[3]):
                o = t[2] if t[3] == DP else t[3]
                if isinstance(o, tuple) and o[0] == "attr" and o[2] == RR.inflight:
                    D = ("attr", o[1], RR.future)
        sig = q.path_sig(p)
        key = "RetryExecutor completion callback %s" % _short(sig)
        if D is None:
            # no job matched this delegate: nothing depends on it any more
            rep.ob("R-CB-TOTAL", key, p.status == "return", "no job found and the callback does not simply return", where_of(cb), trace_of(p))
            continue
        n += 1
        if p.status == "raise":
            rep.ob("R-CB-TOTAL", key, any(terminal_on(e, D, it, p) for e in p.events), "the callback can exit by exception (%s) leaving the future unresolved" % fmt(p.value), where_of(cb), trace_of(p))
            continue
        why = classify(p, D, it, loops, flags, cb.name)
        rep.ob("R-CB-TOTAL", key, why is not None, "this exit of the retry callback neither resolves the job's future nor re-queues the job (delegate outcome: %s)" % _outcome(sig), where_of(cb), trace_of(p))
    rep.require(n >= 4, "RetryExecutor completion callback: too few paths with a job (%d)" % n)

    # ---- combinators
    for cname in ("Zipper", "OrOperation", "AndOperation"):
        ci = prog.cls(cname)
        hd = roles.input_callback(ctx, ci)
        ps, it = ctx.paths(hd, ci, depth=depth)
        OR_ = roles.op_roles(ctx, ci)
        D = OR_.OUT
        nd = 0
        for p in ps:
            decided = [e for e in p.evs("store") if e.d["target"] == OR_.DONE and e.d["value"] == ("const", True)]
            if not decided:
                continue
            nd += 1
            sig = q.path_sig(p)
            ok = p.status == "return" and any(terminal_on(e, D, it, p) for e in p.events)
            rep.ob("R-DECIDED", "%s input callback decided %s" % (cname, _short(sig)), ok, "the operation is marked decided but the output is neither resolved nor cancelled on this path (status %s)" % p.status, where_of(hd), trace_of(p))
        rep.require(nd >= 2, "%s.%s: no deciding paths found" % (cname, hd.name))


def _short(sig):
    parts = []
    for s in sig.split("; "):
        if any(k in s for k in ("cancelled()", "exception()", "_error_fn", "done()", "should_retry", "stop_retry", "_me_cancelling", "flattened", "add_done_callback", "result()", "fs=", "count_remaining", "self.done", "exc-matches", "is inner_ex", "delegate_future ==")):
            parts.append(s.replace("('param', 'self')", "self"))
    return "{" + "; ".join(parts)[:200] + "}"


def _outcome(sig):
    if "cancelled()=True" in sig:
        return "cancelled"
    if "exception()=True" in sig or "is not None)=True" in sig:
        return "failed"
    return "value"
