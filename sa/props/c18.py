"""C18 -- faults in user code stay with their own future; worker threads survive.

Decided (every path of every worker loop, every library done-callback and every cancel(), helpers inlined to
depth 8, with an exceptional outcome injected at each call of user-supplied code and at each unguarded stdlib
state transition of a library future):
  R-MUSTCATCH  an exception raised by user code (submitted callable, map / error function, poll / cancel function,
               retry policy method, throttle count callable, done-callback dispatch) never leaves a worker loop, a
               library done-callback or cancel(): some enclosing handler for Exception turns it into a future's
               outcome or a log line
  R-TOLERANT   an InvalidStateError from setting a result / exception on a future that lost a race with cancel()
               never leaves a worker loop, a library done-callback or cancel(): the setter is applied through a
               tolerant helper or under a done()-guard held with the future's lock
  R-HANDLER    the handlers that contain user faults catch Exception (not a narrower class)
  R-PROBE      library code never probes a future it was handed with hasattr/getattr for a name outside the Future
               API (on a failed proxy future the lookup raises the callable's exception outside every handler;
               shared with C17)
  R-RECORD-EQ  a container of job records is searched by equality (remove / index / count / in) only if the
               record's first field is the job's own library future, or the element class has identity equality:
               tuple comparison never reaches __eq__ of submitted callables / arguments
Reasoned exceptions: the direct call in _Future.add_done_callback on an already-done future propagates to the
caller of add_done_callback (the repository's own test_broken_callback documents this), and the count callable's
first evaluation in ThrottleExecutor.__init__ propagates to whoever constructs the executor (no worker exists yet).
Not decided: faults inside a delegate executor's own submit(); BaseException.
"""
from ..core import where_of, trace_of
from ..interp import fmt, contains, subterms
from ..model import AnalysisError, ClassInfo
from .. import q
from .. import roles
from .c04 import roots as all_roots
from .c02 import _no_cb_inline

DEPTH = 8
SETTERS = ("set_result", "set_exception", "set_exception_info")


def may_raise(ev, interp, path):
    d = ev.d
    if d.get("user"):
        return ["Exception"]
    f = d["func"]
    if d["callee"] is None and isinstance(f, tuple) and f[0] == "attr" and f[2] in SETTERS:
        r = f[1]
        if isinstance(r, tuple) and r[0] == "super":
            inst = r[2]
            # guarded: done() was found false and the future's lock has been held since
            guarded = path.assume.get(("call", ("attr", inst, "done"), (), (), None)) is False and any(l[1] == ("attr", inst, LOCKF[0]) for l in path.locks)
            if not guarded:
                return ["InvalidStateError"]
        else:
            t = interp.type_of(r, path)
            if t is None or t in ("E:Future",) or (t.startswith("C:") and t.endswith(":OutputFuture")):
                # a stdlib / output future somebody else may have cancelled
                if not (isinstance(r, tuple) and r[0] in ("new", "extnew")):
                    if f[2] == "set_exception_info" and (t is None or t == "E:Future"):
                        # Python 3's stdlib Future has no set_exception_info: the py2-compat call fails with
                        # AttributeError and the fallback that follows is what really runs
                        return ["InvalidStateError", "AttributeError"]
                    return ["InvalidStateError"]
    return []


LOCKF = [None]


def check(ctx, rep):
    prog = ctx.prog
    LOCKF[0] = roles.proto(ctx).lock
    rep.rule("R-MUSTCATCH", "no path of a worker loop, a library done-callback or cancel() ends with an exception that originated in a call of user-supplied code")
    rep.rule("R-TOLERANT", "no path of a worker loop, a library done-callback or cancel() ends with an InvalidStateError from a state transition of a future that may already be cancelled")
    rep.rule("R-PROBE", "library code that handles a future it was given never uses hasattr/getattr on it with a name outside the Future API: on a failed proxy future the lookup raises the callable's own exception in the middle of a worker loop or callback, outside every handler")
    from .c17 import probe_rule
    probe_rule(ctx, rep, "R-PROBE")
    rep.rule("R-RECORD-EQ", "where a job record is looked up in a container by equality (remove / index / count / in), the record's first field is the job's own library future: tuple comparison of two different jobs is decided there, by identity, and never reaches the submitted callable or its arguments (whose __eq__ is user code that may raise)")
    record_eq_rule(ctx, rep, "R-RECORD-EQ")
    rep.rule("R-HANDLER", "every handler that is the innermost one around a call of user code catches Exception")
    rs = [(m, ci, why) for (m, ci, why) in all_roots(ctx) if why in ("worker thread", "done-callback")]
    fut = prog.cls("_Future")
    for ci in prog.subclasses(fut, strict=True):
        o, cm = ci.lookup("cancel")
        if cm is not None:
            rs.append((cm, ci, "cancel()"))
    pd = prog.cls("PollDescriptor")
    for n in ("yield_result", "yield_exception"):
        rs.append((pd.methods[n], pd, "poll descriptor"))
    # submit() of an executor that runs user code on the caller's thread (the sync executor, and map functions of
    # an already-finished delegate future): the fault belongs to the returned future, not to the caller of submit
    for ci in ctx.executor_classes():
        if not ctx.gate_field(ci):
            continue
        for c in ci.mro():
            if not isinstance(c, ClassInfo):
                continue
            for name, m in sorted(c.methods.items()):
                if (name == "submit" or name.startswith("submit_")) and ci.lookup(name)[1] is m:
                    rs.append((m, ci, "submit()"))
    rep.count("roots (worker loops, library done-callbacks, cancel())", len(rs), 25)
    sites = {}
    n_user = n_trans = 0
    for m, ci, why in sorted(rs, key=lambda x: (x[0].key, x[1].key if x[1] else "")):
        ps = None
        for dpt in (DEPTH, 6, 4):
            try:
                ps, it = ctx.paths(m, ci, depth=dpt, may_raise=may_raise, maxpaths=8000)
                break
            except AnalysisError:
                ctx.stats["truncated"] -= 1
        if ps is None:
            raise AnalysisError("%s: path enumeration does not fit" % m.qualname)
        rname = "%s%s (%s)" % (m.qualname, "[%s]" % ci.name if ci is not None and ci is not m.owner else "", why)
        for p in ps:
            for e in p.calls():
                if e.d.get("user"):
                    n_user += 1
                    sites.setdefault((e.fn.qualname, fmt(e.d["func"])), []).append(rname)
                    # innermost handler
                elif e.d["callee"] is None and q.call_name(e) in SETTERS:
                    n_trans += 1
                    if may_raise(e, it, p):
                        rep.ob("R-TOLERANT", "%s: %s in %s is tolerant of a lost race with cancel()" % (rname, fmt(e.d["func"]).split(".")[-1], e.fn.qualname), True, "", where_of(e.fn, e.node))
            if p.status != "raise":
                continue
            v = p.value
            if not (isinstance(v, tuple) and v[0] == "exc"):
                continue
            origin = v[2] if len(v) > 2 else None
            if isinstance(origin, tuple) and origin[:1] == ("from",):
                # find the raising call
                src = None
                for e in p.evs("raise"):
                    if e.d == v:
                        src = e
                call = None
                if src is not None:
                    for e in p.calls():
                        if e.seq < src.seq and e.node is src.node:
                            call = e
                what = fmt(call.d["func"]) if call is not None else "?"
                wherefn = call.fn.qualname if call is not None else "?"
                if v[1] == "InvalidStateError":
                    rep.ob("R-TOLERANT", "%s: %s in %s is tolerant of a lost race with cancel()" % (rname, what.split(".")[-1], wherefn), False,
                           "%s() at %s can raise InvalidStateError when the user cancelled the future first; nothing catches it before it leaves %s (a worker thread dies / a callback chain is cut)" % (what, call.where() if call else "?", rname), where_of(call.fn, call.node) if call else where_of(m), trace_of(p))
                else:
                    if call is not None and call.fn.qualname == "_Future.add_done_callback" and call.d["func"] == ("param", call.fn.params[1]):
                        rep.exception("R-MUSTCATCH", "%s: direct call in add_done_callback" % rname, "a callback added to an already-done future is called directly and its exception propagates to the caller of add_done_callback (documented by tests/test_executor.py::test_broken_callback)")
                        continue
                    rep.ob("R-MUSTCATCH", "%s: user code %s in %s is contained" % (rname, what, wherefn), False,
                           "an exception raised by %s (called at %s) is not caught before it leaves %s" % (what, call.where() if call else "?", rname), where_of(call.fn, call.node) if call else where_of(m), trace_of(p))
        # positive obligations: one per (root, user call site) that is contained on all paths
        seen = set()
        for p in ps:
            for e in p.calls():
                if e.d.get("user"):
                    k = "%s: user code %s in %s is contained" % (rname, fmt(e.d["func"]), e.fn.qualname)
                    if k not in seen:
                        seen.add(k)
                        rep.ob("R-MUSTCATCH", k, True, "", where_of(e.fn, e.node))
    rep.count("user-code call events under worker/callback/cancel roots", n_user, 30)
    rep.count("state transitions examined", n_trans, 20)

    # ---- handlers around user code catch Exception
    nh = 0
    for fi in sorted(prog.functions.values(), key=lambda f: f.key):
        if fi.parent is not None:
            continue
        for ci in ctx.instances(fi):
            ps, it = ctx.paths(fi, ci, depth=0)
            for p in ps:
                for c in p.evs("catch"):
                    exc = c.d["exc"]
                    if isinstance(exc, tuple) and len(exc) > 2 and isinstance(exc[2], tuple) and exc[2][:1] == ("from",) and exc[1] == "Exception" and c.fn is fi:
                        nh += 1
                        names = c.d["names"]
                        rep.ob("R-HANDLER", "%s: handler around user code catches Exception" % fi.qualname, names is None or "Exception" in names, "the handler catches %s only: other exceptions from user code escape" % names, where_of(fi, c.node))
    rep.count("handlers around user code", nh, 8)
    # ThrottleExecutor.__init__ evaluates the count callable unprotected: reasoned exception
    rep.exception("R-MUSTCATCH", "ThrottleExecutor.__init__: self._throttle()", "first evaluation of the count callable happens in the constructor, before any worker thread exists; its exception reaches the code constructing the executor")

    # a raising done-callback is logged and affects nothing else: the dispatcher contains each callback separately
    # (shared with C02)
    from .c02 import dispatch_rule
    dispatch_rule(ctx, rep)
    # the library's own bookkeeping callback (registered by track_future on every future handed out) must not raise
    # either: exception() / result() on a future raise CancelledError when it was cancelled, so they may only be
    # asked once cancelled() was found false -- the callback runs inline in add_done_callback on an already-done
    # future, so the error would come out of submit() / f_map() itself
    tfm = prog.fn("metrics:track_future").module
    nq = 0
    for fi in sorted([f for f in prog.functions.values() if f.module is tfm and f.parent is None], key=lambda f: f.key):
        ps0, it0 = ctx.paths(fi, None, depth=0)
        for p in ps0:
            for e in p.calls():
                r = q.recv(e)
                if e.fn is fi and q.call_name(e) in ("exception", "result") and isinstance(r, tuple) and r[0] == "param":
                    nq += 1
                    safe = any(t == ("call", ("attr", r, "cancelled"), (), (), None) and v is False and b.seq < e.seq for t, v, b in q.atoms(p)) or any(isinstance(t, tuple) and t[0] == "call" and t[1] == ("attr", r, "cancelled") and v is False and b.seq < e.seq for t, v, b in q.atoms(p))
                    rep.ob("R-MUSTCATCH", "%s asks %s() only of a future found not cancelled" % (fi.qualname, q.call_name(e)), safe, "%s.%s() is called on a path where cancelled() was not found false first: on a cancelled future it raises CancelledError out of the bookkeeping callback, which add_done_callback runs inline for an already-done future" % (fmt(r), q.call_name(e)), where_of(fi, e.node), trace_of(p, e.seq))
    rep.count("outcome queries in the metrics callbacks", nq, 1)
    # the poll worker counts its calls and errors inside the code that handles a raising poll function (shared with C20)
    from .c20 import labelnames_rule
    labelnames_rule(ctx, rep, "R-MUSTCATCH", ("POLL_ERROR", "POLL_TOTAL", "POLL_TIME"))


def record_eq_rule(ctx, rep, rule):
    """equality-based container operations on namedtuple job records: list.remove(job) / deque.remove(job) compare
    records field by field until one differs.  That is safe only while the first field is a library object with
    identity equality that differs between any two jobs (the job's future)."""
    import ast
    from ..model import mangle
    prog, types = ctx.prog, ctx.types
    n = 0
    for fi in sorted(prog.functions.values(), key=lambda f: f.key):
        if fi.cls is None or fi.node is None:
            continue
        owners = [c for c in fi.cls.mro() if isinstance(c, ClassInfo)]
        # subclasses share the fields of their bases
        def elems(field):
            out = set()
            for key, ets in types.elem_types.items():
                if key[1] == mangle(fi.cls.name, field) and any(key[0] == c.key for c in owners):
                    out |= ets
            return out
        sites = []
        for node in ast.walk(fi.node):
            if isinstance(node, ast.Call) and isinstance(node.func, ast.Attribute) and node.func.attr in ("remove", "index", "count") and node.args:
                sites.append((node, node.func.value, ".%s()" % node.func.attr))
            elif isinstance(node, ast.Compare) and len(node.ops) == 1 and isinstance(node.ops[0], (ast.In, ast.NotIn)):
                sites.append((node, node.comparators[0], "`in`"))
        for node, cont, what in sites:
            if not (isinstance(cont, ast.Attribute) and isinstance(cont.value, ast.Name) and cont.value.id == "self"):
                continue
            for et in sorted(elems(cont.attr)):
                rc = types.cls_of(et)
                if rc is None:
                    continue
                n += 1
                if rc.record_fields is None:
                    # an ordinary class: equality is identity unless the class says otherwise
                    eqs = [k.name for k in rc.mro() if isinstance(k, ClassInfo) and "__eq__" in k.methods]
                    rep.ob(rule, "%s: %s on self.%s compares %s objects by identity" % (fi.qualname, what, cont.attr, rc.name), not eqs, "%s on a container of %s objects uses the __eq__ defined by %s: it has to be shown that it never compares submitted callables / arguments" % (what, rc.name, eqs), where_of(fi, node))
                    continue
                f0 = rc.record_fields[0] if rc.record_fields else None
                fts = types.field_types.get((rc.key, f0), set()) if f0 else set()
                ok = bool(fts)
                why = ""
                for t in sorted(fts):
                    c = types.cls_of(t) if t.startswith("C:") else None
                    if c is None:
                        ok, why = False, "its first field `%s` can hold %s" % (f0, t)
                        break
                    if any("__eq__" in k.methods for k in c.mro() if isinstance(k, ClassInfo)):
                        ok, why = False, "its first field `%s` holds a %s, which defines __eq__" % (f0, c.name)
                        break
                if not fts:
                    why = "its first field `%s` is not a library object (nothing the library constructs is ever stored there)" % f0
                rep.ob(rule, "%s: %s on self.%s compares %s records by their future first" % (fi.qualname, what, cont.attr, rc.name), ok, "%s on a container of %s records compares them field by field, and %s: comparing two different jobs calls __eq__ of submitted callables / arguments -- user code that may raise out of cancel() or out of a worker thread" % (what, rc.name, why), where_of(fi, node))
    # zero is a legitimate count (a queue searched by identity only has nothing to show here); the seeded mutant
    # C18-p in the self-test corpus is the positive example that keeps this rule from passing vacuously
    rep.count("equality-based look-ups of job records", n, 0)
