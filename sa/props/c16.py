"""C16 -- f_apply calls the function once, with every argument in its place.

Everything is discovered from the public root f_apply: the recursive worker is the function reachable from it that
calls itself; the list it is given is reconstructed from how f_apply (helpers inlined) builds it; the partially
applied function is found through the closures the worker passes to with_flat_map / with_map.  No private name is
referred to.

Decided:
  R-WRAP    the list handed to the worker consists of one (TAG, future) pair per positional argument, in order,
            followed by one (name, future) pair per keyword argument -- whether it is built by loops that append,
            by a comprehension, by extend() or a mixture
  R-CURRY   each step peels one (key, future) pair off the list and recurses on the remainder; the partially
            applied function inserts the resolved value at the position that matches the peeling order
            (first peeled <-> inserted at the front), or binds it under exactly its own key; the positional tag
            is a unique sentinel recognised by identity
  R-ONCE    the user's function is called at exactly one place per step (inside the partially applied function,
            with the accumulated *args, **kwargs) and once in the base case with no arguments; nowhere else
  R-SHRINK  the recursion is on a strictly shorter list; the base case is the empty list
  R-PLUMB   each step resolves the argument future first (flat_map over it) and maps the function future with the
            partially applied function; free variables of the closures are resolved as Python does -- at the time
            the closure runs, i.e. to the *last* binding in the worker
  R-CAPTURE a closure that runs later does not refer to a local that is re-bound after the closure was created
Not decided: extensional equality for all arities (argued by induction from R-CURRY); failure propagation is the
map/flat_map behaviour of C13.
"""
import ast

from ..core import where_of, trace_of
from ..interp import fmt, contains, subterms, CLOSURES
from ..model import AnalysisError
from .. import q
from .. import roles


def fn_of(prog, v):
    if isinstance(v, tuple) and v and v[0] == "closure":
        return CLOSURES[v[2]][0]
    if isinstance(v, tuple) and v and v[0] == "func":
        return prog.functions.get(v[1])
    return None


def resolve_free(t, fi, R, renv):
    """what a free variable of the nested function fi denotes when fi runs: a parameter of an enclosing nested
    function -> ('outer', <that function>, name); a local of the worker R -> its last binding there"""
    if not (isinstance(t, tuple) and t and t[0] == "free"):
        return t
    f = fi.parent
    while f is not None:
        if f is R:
            return renv.get(t[1], t)
        if t[1] in f.all_param_names():
            return ("outer", f.key, t[1])
        f = f.parent
    return t


def history(p, L, upto):
    """how the list object L was filled, in order: [(seq, 'each', source, value, loop-id) | (seq, 'one', value) |
    (seq, 'bad', what)]"""
    out = []
    stack = []
    ELEM = ("<element>",)

    def bulk(seqno, X):
        X = q.deref(p, X) if isinstance(X, tuple) and X and X[0] == "ref" else X
        if isinstance(X, tuple) and X and X[0] == "comp":
            if X[1] in ("ListComp", "GeneratorExp") and len(X[3]) == 1 and not X[4] and len(X[2]) == 1:
                out.append((seqno, "each", X[3][0], X[2][0], None))
            else:
                out.append((seqno, "bad", "filtered or nested comprehension"))
        elif isinstance(X, tuple) and X and X[0] == "list":
            for v in X[1]:
                out.append((seqno, "one", v))
        elif isinstance(X, tuple) and X and X[0] == "listof":
            bulk(seqno, X[1])
            for v in X[2]:
                out.append((seqno, "one", v))
        else:
            out.append((seqno, "each", X, ELEM, None))

    if not (isinstance(L, tuple) and L and L[0] == "ref"):
        bulk(-1, L)
    for e in p.events:
        if e.seq >= upto:
            break
        if e.kind == "newlist" and e.d["ref"] == L:
            bulk(e.seq, e.d["content"])
        elif e.kind == "loop":
            if e.d[0] == "enter":
                stack.append([e, e.d[1], None])
            elif e.d[0] == "exit" and stack:
                stack.pop()
        elif e.kind == "call" and q.recv(e) == L:
            n = q.call_name(e)
            if n == "append" and len(e.d["args"]) == 1:
                if stack:
                    out.append((e.seq, "each", stack[-1][1], e.d["args"][0], stack[-1][0].seq))
                else:
                    out.append((e.seq, "one", e.d["args"][0]))
            elif n == "extend" and len(e.d["args"]) == 1:
                if stack:
                    out.append((e.seq, "bad", "extend inside a loop"))
                else:
                    bulk(e.seq, e.d["args"][0])
            else:
                out.append((e.seq, "bad", n))
    return out


def stmt_loops(p, upto):
    """statement loops of the path before `upto`: [(enter event, source, iterations)] (comprehensions excluded)"""
    out = []
    stack = []
    for e in p.events:
        if e.seq >= upto:
            break
        if e.kind != "loop":
            continue
        if e.d[0] == "enter":
            stack.append([e, e.d[1], 0])
        elif e.d[0] == "back" and stack:
            stack[-1][2] += 1
        elif e.d[0] == "exit" and stack:
            rec = stack.pop()
            if e.d[1] != "comprehension":
                out.append(tuple(rec))
    out.sort(key=lambda r: r[0].seq)
    return out


def check(ctx, rep):
    prog = ctx.prog
    rep.rule("R-WRAP", "the list given to the recursive worker is [(TAG, f) for f in positional futures] + [(k, v) for k, v in keyword futures.items()], in this order, nothing filtered")
    rep.rule("R-CURRY", "peeling pair (key, future) at index i of the list and recursing on the list without it must be matched by the insertion: index 0 / rest [1:] <-> insert(0, x); index -1 / rest [:-1] <-> append(x); keyword values are bound as kwargs[key] = x with the peeled key; the positional tag is a unique object() compared with `is`")
    rep.rule("R-ONCE", "the function value is called exactly once per partially applied function (return fn(*args, **kwargs)) and exactly once, without arguments, in the base case")
    rep.rule("R-SHRINK", "the worker returns the base case exactly when the list is empty and otherwise recurses on the remainder of the same list")
    rep.rule("R-PLUMB", "a step is W(future_x).with_flat_map(G)() with G(x) = W(future_fn).with_map(H)() and H(fn) = <partial application>(fn, x), where W(f) binds a function returning f; f_apply passes its function future and the list built from all its arguments to the worker")
    rep.rule("R-CAPTURE", "a closure created inside the worker and run later (as a map function) does not refer to a local variable of its defining function that is assigned again after the closure was created (Python closures bind late)")
    fa = prog.fn("apply:f_apply")
    rep.require(fa.vararg is not None and fa.kwarg is not None, "f_apply must take *future_args, **future_kwargs")
    capture_rule(ctx, rep, fa.module)
    # the inputs' outcomes travel through the chain of futures only: f_apply and its helpers never take a value
    # out of an input future themselves (result() on a failed or cancelled input raises out of f_apply instead of
    # failing the future it returns; on a pending one it blocks)
    for fi in sorted([f for f in prog.functions.values() if f.module is fa.module and f.parent is None], key=lambda f: f.key):
        ps0, it0 = ctx.paths(fi, None, depth=0)
        for p in ps0:
            for e in p.calls():
                if e.fn is fi and q.call_name(e) in ("result", "exception") and isinstance(q.recv(e), tuple):
                    rep.ob("R-PLUMB", "%s takes no outcome out of an input future itself" % fi.qualname, False, "%s() is called on %s while the chain is being built: if that input failed or was cancelled its exception is raised out of f_apply (instead of becoming the exception of the returned future); the outcome has to be passed on with with_map / with_flat_map" % (q.call_name(e), fmt(q.recv(e))), where_of(fi, e.node), trace_of(p, e.seq))

    # ---- the recursive worker
    cands = []
    for fi in prog.functions.values():
        if fi.module is fa.module and fi.parent is None and fi is not fa:
            ps, it = ctx.paths(fi, None, depth=0)
            if any(e.d["callee"] is fi for p in ps for e in p.calls()):
                cands.append(fi)
    rep.require(len(cands) == 1, "f_apply: expected exactly one recursive worker function in %s, found %s" % (fa.module.relpath, [f.qualname for f in cands]))
    R = cands[0]
    rep.require(len(R.params) == 2 and not R.vararg and not R.kwarg, "%s: expected (function future, list of pairs)" % R.qualname)

    # ---- f_apply: plumbing and the list
    ps, it = ctx.paths(fa, None, depth=4, inline=lambda callee, ev, path: False if callee is R else roles.std_inline(callee, ev, path))
    FNp = LSTp = None
    ARGSEQ = ("seq", (), ("param", fa.vararg), 0)
    KW = ("kw", (), ("param", fa.kwarg))
    tags = set()
    full = False
    nret = 0
    for p in ps:
        if p.status != "return":
            rep.ob("R-PLUMB", "f_apply does not raise on its own", False, "raises %s" % fmt(p.value), where_of(fa), trace_of(p))
            continue
        nret += 1
        rc = [e for e in p.calls() if e.d["callee"] is R]
        ok = len(rc) == 1 and p.value == q.result_of(rc[0])
        rep.ob("R-PLUMB", "f_apply returns the worker's result", ok, "returns %s" % fmt(p.value), where_of(fa), trace_of(p))
        if not ok:
            continue
        b = roles.bound(rc[0], prog)
        fnp = [k for k in R.params if b.get(k) == ("param", fa.params[0])]
        rep.ob("R-PLUMB", "f_apply passes its function future to the worker", len(fnp) == 1, "worker called with %s" % dict((k, fmt(v)) for k, v in b.items() if isinstance(v, tuple)), where_of(fa, rc[0].node), trace_of(p))
        if len(fnp) != 1:
            continue
        FNp = fnp[0]
        LSTp = [k for k in R.params if k != FNp][0]
        L = b.get(LSTp)
        hist = history(p, L, rc[0].seq)
        loops = stmt_loops(p, rc[0].seq)
        kinds = []
        bad = None
        per_loop = {}
        for h in hist:
            if h[1] != "each":
                bad = "an element outside any iteration over the arguments: %s" % (fmt(h[2]) if isinstance(h[2], tuple) else h[2])
                break
            src, val, lid = h[2], h[3], h[4]
            k = None
            if isinstance(val, tuple) and val[0] == "tuple" and len(val[1]) == 2 and isinstance(val[1][0], tuple) and val[1][0][0] == "global":
                tags.add(val[1][0])
            if roles.container_of(src) == ARGSEQ:
                okv = isinstance(val, tuple) and val[0] == "tuple" and len(val[1]) == 2 and isinstance(val[1][0], tuple) and val[1][0][0] == "global" and isinstance(val[1][1], tuple) and val[1][1][0] == "elem" and val[1][1][1] == src
                if okv:
                    k = "pos"
                    tags.add(val[1][0])
                else:
                    bad = "positional futures must be stored as (TAG, future), found %s" % fmt(val)
            elif _is_items(src, KW):
                okv = val == ("<element>",) or (isinstance(val, tuple) and val[0] == "elem" and val[1] == src)
                if not okv and isinstance(val, tuple) and val[0] == "tuple" and len(val[1]) == 2:
                    a, c = val[1]
                    okv = isinstance(a, tuple) and isinstance(c, tuple) and a[0] == "unpack" and c[0] == "unpack" and a[1] == c[1] and a[2] == 0 and c[2] == 1 and a[1][0] == "elem" and a[1][1] == src
                if okv:
                    k = "kw"
                else:
                    bad = "keyword futures must be stored as (name, future) of the same item, found %s" % fmt(val)
            else:
                bad = "elements taken from %s, which is neither the positional nor the keyword futures" % fmt(src)
            if bad:
                break
            if lid is None:
                kinds.append((h[0], k))
            else:
                per_loop[lid] = per_loop.get(lid, 0) + 1
        if not bad:
            for ent, src, n in loops:
                k = "pos" if roles.container_of(src) == ARGSEQ else "kw" if _is_items(src, KW) else None
                if k is None:
                    continue
                kinds.append((ent.seq, k))
                if per_loop.get(ent.seq, 0) != (1 if n else 0):
                    bad = "the loop over %s adds %d pairs in %d iterations (every argument must be added exactly once)" % (fmt(src), per_loop.get(ent.seq, 0), n)
                if n and k:
                    pass
            order = [k for s_, k in sorted(kinds)]
            if not bad and order != ["pos", "kw"]:
                bad = "the list is filled in the order %s: it must hold all positional futures, then all keyword futures" % order
            if all(n for ent, src, n in loops):
                full = True
        rep.ob("R-WRAP", "f_apply hands the worker every argument future, tagged, in order", not bad, bad or "", where_of(fa, rc[0].node), trace_of(p))
    rep.require(nret > 0 and FNp is not None, "f_apply: call of the recursive worker not found")
    rep.ob("R-WRAP", "f_apply: a path on which every argument loop iterates was analysed", full, "", where_of(fa))
    rep.ob("R-WRAP", "f_apply: one positional tag", len(tags) == 1, "tags: %s" % sorted(fmt(t) for t in tags), where_of(fa))
    TAG = sorted(tags)[0] if tags else None
    if TAG is not None:
        tagmod = [m for m in prog.modules.values() if m.name == TAG[1]]
        tagdef = tagmod[0].assigns.get(TAG[2], []) if tagmod else []
        uniq = len(tagdef) == 1 and isinstance(tagdef[0], ast.Call) and isinstance(tagdef[0].func, ast.Name) and tagdef[0].func.id == "object" and not tagdef[0].args
        rep.ob("R-CURRY", "the positional tag is a unique sentinel", uniq, "%s is defined as %s: it can collide with a keyword argument's name" % (TAG[2], ast.unparse(tagdef[0]) if tagdef else None), fa.module.relpath)

    # ---- the worker
    FN, LST = ("param", FNp), ("param", LSTp)
    ps, it = ctx.paths(R, None, depth=0)
    kinds = set()
    peel = None
    runner = None
    fnP = xP = None
    renv = None
    KEY = None
    W = None
    for p in ps:
        if p.status != "return":
            continue
        empty = None
        for t, v, e in q.atoms(p):
            if t == LST:
                empty = not v
            elif isinstance(t, tuple) and t[0] == "cmp" and t[1] in ("==", "!=", ">", "<", ">=") and ("call", ("name", "len"), (LST,), (), None) in (t[2], t[3]) and ("const", 0) in (t[2], t[3]):
                empty = (v if t[1] == "==" else not v) if t[1] in ("==", "!=", ">") else None
        rep.require(empty is not None, "%s: test of the argument list not found" % R.qualname)
        rec = [e for e in p.calls() if e.d["callee"] is R]
        env = p.frames[0].env if p.frames else {}
        if empty:
            kinds.add("base")
            rep.ob("R-SHRINK", "worker: the empty list is the base case (no recursion)", not rec, "", where_of(R), trace_of(p))
            w = [e for e in p.calls() if e.d["args"] == (FN,) and not e.d["kwargs"] and e.d["callee"] is not None]
            m = [e for e in p.calls() if q.call_name(e) == "with_map"]
            ok = len(w) == 1 and len(m) == 1 and q.recv(m[0]) == q.result_of(w[0])
            sub = None
            if ok:
                W = w[0].d["callee"]
                vals = list(m[0].d["args"]) + [v for k, v in m[0].d["kwargs"]]
                sub = fn_of(prog, vals[0]) if len(vals) == 1 else None
                ok = sub is not None and len(sub.params) == 1
            if ok:
                ps2, it2 = ctx.paths(sub, None, depth=0)
                for p2 in ps2:
                    if p2.status == "raise":
                        continue  # the function itself raised: the map layer turns that into the outcome (C13)
                    uc = [e for e in p2.calls() if e.d["func"] == ("param", sub.params[0])]
                    rep.ob("R-ONCE", "base case: the fully applied function is called once, without arguments", len(uc) == 1 and len(p2.calls()) == 1 and not uc[0].d["args"] and not uc[0].d["kwargs"] and p2.status == "return" and p2.value == q.result_of(uc[0]), "calls: %s" % [fmt(e.d["func"]) for e in p2.calls()], where_of(sub), trace_of(p2))
            fin = [e for e in p.calls() if m and e.d["func"] == q.result_of(m[0])]
            rep.ob("R-PLUMB", "base case: W(future_fn).with_map(<call it>)()", ok and len(fin) == 1 and not fin[0].d["args"] and not fin[0].d["kwargs"] and p.value == q.result_of(fin[0]), "returns %s" % fmt(p.value), where_of(R), trace_of(p))
            continue
        kinds.add("step")
        rep.ob("R-SHRINK", "worker: exactly one recursive call per step", len(rec) == 1 and p.value == q.result_of(rec[0]), "recursive calls: %d" % len(rec), where_of(R), trace_of(p))
        if len(rec) != 1:
            continue
        renv = env
        rb = roles.bound(rec[0], prog)
        rest_arg = rb.get(LSTp)
        fm = [e for e in p.calls() if q.call_name(e) == "with_flat_map"]
        rep.require(len(fm) == 1 and isinstance(q.recv(fm[0]), tuple) and q.recv(fm[0])[0] == "call", "%s: step structure (W(future).with_flat_map(...)) not recognised" % R.qualname)
        w = [e for e in p.calls() if q.result_of(e) == q.recv(fm[0])]
        rep.require(len(w) == 1 and len(w[0].d["args"]) == 1 and w[0].d["callee"] is not None, "%s: step structure (W(future).with_flat_map(...)) not recognised" % R.qualname)
        if W is None:
            W = w[0].d["callee"]
        rep.ob("R-PLUMB", "step and base case wrap futures with the same function", w[0].d["callee"] is W, "", where_of(R, w[0].node))
        fx = w[0].d["args"][0]
        ok = isinstance(fx, tuple) and fx[0] == "unpack" and fx[2] == 1 and isinstance(fx[1], tuple) and fx[1][0] == "sub" and fx[1][1] == LST and fx[1][2][0] == "const"
        rep.ob("R-CURRY", "step: the future resolved first is the peeled pair's future", ok, "W(%s)" % fmt(fx), where_of(R, w[0].node), trace_of(p))
        if not ok:
            continue
        peel = fx[1][2][1]
        KEY = ("unpack", fx[1], 0)
        want_rest = {0: ("sub", LST, ("slice", ("const", 1), ("const", None), ("const", None))), -1: ("sub", LST, ("slice", ("const", None), ("const", -1), ("const", None)))}.get(peel)
        rep.ob("R-SHRINK", "step: recursion on the list without the peeled pair", want_rest is not None and rest_arg == want_rest, "peeled index %s, recursion on %s" % (peel, fmt(rest_arg) if rest_arg else None), where_of(R, rec[0].node), trace_of(p))
        nf = rb.get(FNp)
        fin = [e for e in p.calls() if e.d["func"] == q.result_of(fm[0])]
        rep.ob("R-PLUMB", "step: the recursion continues with the partially applied function future", len(fin) == 1 and not fin[0].d["args"] and not fin[0].d["kwargs"] and nf == q.result_of(fin[0]), "first argument %s" % (fmt(nf) if nf else None), where_of(R, rec[0].node))
        # G(x) = W(future_fn).with_map(H)()
        vals = list(fm[0].d["args"]) + [v for k, v in fm[0].d["kwargs"]]
        G = fn_of(prog, vals[0]) if len(vals) == 1 else None
        rep.require(G is not None and len(G.params) == 1, "%s: flat-map function not analysable" % R.qualname)
        ps2, it2 = ctx.paths(G, None, depth=0)
        for p2 in ps2:
            if p2.status != "return":
                rep.ob("R-PLUMB", "step: the flat-map function returns", False, "status %s" % p2.status, where_of(G), trace_of(p2))
                continue
            m2 = [e for e in p2.calls() if q.call_name(e) == "with_map"]
            w2 = [e for e in p2.calls() if m2 and q.result_of(e) == q.recv(m2[0])]
            fin2 = [e for e in p2.calls() if m2 and e.d["func"] == q.result_of(m2[0])]
            ok2 = len(m2) == 1 and len(w2) == 1 and len(fin2) == 1 and w2[0].d["callee"] is W and len(w2[0].d["args"]) == 1 and not fin2[0].d["args"] and p2.value == q.result_of(fin2[0])
            got = resolve_free(w2[0].d["args"][0], G, R, renv) if ok2 else None
            rep.ob("R-PLUMB", "step: the function future is mapped with the partial application", ok2 and got == FN, "when this closure runs it wraps %s, not the worker's function future" % (fmt(got) if got is not None else "?"), where_of(G), trace_of(p2))
            if not ok2:
                continue
            vals2 = list(m2[0].d["args"]) + [v for k, v in m2[0].d["kwargs"]]
            H = fn_of(prog, vals2[0]) if len(vals2) == 1 else None
            rep.require(H is not None and len(H.params) == 1, "%s: map function of a step not analysable" % R.qualname)
            ps3, it3 = ctx.paths(H, None, depth=0)
            for p3 in ps3:
                cs = p3.calls()
                ok3 = len(cs) == 1 and len(cs[0].d["args"]) == 2 and not cs[0].d["kwargs"] and p3.status == "return" and p3.value == q.result_of(cs[0])
                if ok3:
                    rv = resolve_free(cs[0].d["func"], H, R, renv)
                    rn = fn_of(prog, rv)
                    a0 = resolve_free(cs[0].d["args"][0], H, R, renv)
                    a1 = resolve_free(cs[0].d["args"][1], H, R, renv)
                    ok3 = rn is not None and rn.parent is R and len(rn.params) == 2
                    if ok3:
                        runner = rn
                        pos = {a0: rn.params[0], a1: rn.params[1]}
                        fnP = pos.get(("param", H.params[0]))
                        xP = pos.get(("outer", G.key, G.params[0]))
                        ok3 = fnP is not None and xP is not None and fnP != xP
                rep.ob("R-PLUMB", "step: the partial application receives the function and the resolved argument", ok3, "calls %s" % [("%s(%s)" % (fmt(e.d["func"]), ", ".join(fmt(a) for a in e.d["args"]))) for e in cs], where_of(H), trace_of(p3))
    rep.require(kinds == {"base", "step"}, "%s: expected base and step paths" % R.qualname)
    rep.require(runner is not None and peel is not None and fnP is not None, "%s: partial application function not identified" % R.qualname)
    _wrapper_fn(ctx, rep, W)

    # ---- the partially applied function
    ps, it = ctx.paths(runner, None, depth=0)
    outs = set()
    for p in ps:
        if p.status == "return":
            o = fn_of(prog, p.value)
            rep.ob("R-PLUMB", "the partial application returns a function", o is not None and o.parent is runner, "returns %s" % fmt(p.value), where_of(runner), trace_of(p))
            if o is not None:
                outs.add(o)
    rep.require(len(outs) == 1, "%s: expected one returned nested function" % runner.qualname)
    out = outs.pop()
    rep.require(out.vararg is not None and out.kwarg is not None, "%s must take *args, **kwargs" % out.qualname)
    FNV = ("outer", runner.key, fnP)
    XV = ("outer", runner.key, xP)
    ps, it = ctx.paths(out, None, depth=0)
    kinds = set()
    for p in ps:
        if p.status == "raise" and isinstance(p.value, tuple) and isinstance(p.value[2], tuple) and p.value[2][:1] == ("from",):
            continue  # the user's function raised
        if p.status != "return":
            rep.ob("R-ONCE", "the partially applied function returns", False, "status %s" % p.status, where_of(out), trace_of(p))
            continue
        uc = [e for e in p.calls() if resolve_free(e.d["func"], out, R, renv) == FNV]
        rep.ob("R-ONCE", "the function is called exactly once by the partially applied function", len(uc) == 1, "calls of the function: %d" % len(uc), where_of(out), trace_of(p))
        if len(uc) != 1:
            kinds.update({"positional", "keyword"})
            continue
        u = uc[0]
        rep.ob("R-ONCE", "the result of that call is returned", p.value == q.result_of(u), "", where_of(out))
        positional = None
        for t, v, b in q.atoms(p):
            if isinstance(t, tuple) and t[0] == "cmp" and TAG is not None and TAG in (t[2], t[3]):
                other = t[3] if t[2] == TAG else t[2]
                if resolve_free(other, out, R, renv) != KEY:
                    continue
                positional = v if t[1] in ("is", "==") else (not v)
                rep.ob("R-CURRY", "the positional tag is recognised by identity", t[1] in ("is", "is not"), "`key %s TAG`: a keyword argument whose name compares equal to the tag would be passed positionally" % t[1], where_of(out, b.node), trace_of(p, b.seq))
        if positional is None and TAG is None:
            continue  # already reported under R-WRAP: no positional tag identified
        rep.require(positional is not None, "%s: test of the peeled key against the positional tag not found" % out.qualname)
        # the list that is starred into the call, and the mapping that is double-starred
        a = u.d["args"]
        okp = len(a) == 1 and a[0][0] == "star"
        AL = a[0][1] if okp else None
        rep.ob("R-CURRY", "the call passes the accumulated positional arguments", okp, "fn called with %s" % [fmt(x) for x in a], where_of(out))
        kws = u.d["kwargs"]
        okk = len(kws) == 1 and kws[0][0] is None
        KD = kws[0][1] if okk else None
        rep.ob("R-CURRY", "the call passes the accumulated keyword arguments", okk, "fn called with keywords %s" % [(k, fmt(v)) for k, v in kws], where_of(out))
        if not (okp and okk):
            continue
        VSEQ = ("seq", (), ("param", out.vararg), 0)
        init = [e for e in p.evs("newlist") if e.d["ref"] == AL]
        is_list = len(init) == 1 and init[0].d["content"] in (("listof", VSEQ, ()), ("listof", ("param", out.vararg), ()))
        # *args is a tuple: it can be passed on as it is, but a value can only be inserted into a list copy of it
        base_ok = is_list or (AL == VSEQ and not positional)
        kd_ok = KD == ("kw", (), ("param", out.kwarg)) or (isinstance(KD, tuple) and KD[0] == "call" and ((KD[1] == ("attr", ("kw", (), ("param", out.kwarg)), "copy") and not KD[2]) or (KD[1] == ("name", "dict") and KD[2] == (("kw", (), ("param", out.kwarg)),))))
        rep.ob("R-CURRY", "the accumulated arguments start from the caller's own *args, **kwargs", base_ok and kd_ok, "positional from %s, keywords from %s" % (fmt(q.deref(p, AL)), fmt(KD)), where_of(out), trace_of(p))
        ins = [e for e in p.calls() if q.recv(e) == AL and q.call_name(e) in roles_MUT]
        kwst = [e for e in p.evs("store") if e.d["target"][0] == "sub"] + [e for e in p.calls() if q.recv(e) == KD and q.call_name(e) in roles_MUT]
        if positional:
            kinds.add("positional")
            ok = len(ins) == 1 and not kwst
            how = None
            if ok:
                e = ins[0]
                av = [resolve_free(x, out, R, renv) for x in e.d["args"]]
                if q.call_name(e) == "insert" and len(av) == 2 and av[0] == ("const", 0) and av[1] == XV:
                    how = 0
                elif q.call_name(e) == "append" and len(av) == 1 and av[0] == XV:
                    how = -1
            rep.ob("R-CURRY", "positional value inserted where the peeling order requires", ok and how == peel, "the list is peeled at index %s but the value is %s: positional arguments arrive in the wrong order" % (peel, ("inserted with %s(%s)" % (q.call_name(ins[0]), ", ".join(fmt(x) for x in ins[0].d["args"]))) if ins else "not inserted"), where_of(out), trace_of(p))
        else:
            kinds.add("keyword")
            ok = len(kwst) == 1 and not ins and kwst[0].kind == "store" and kwst[0].d["target"][1] == KD and resolve_free(kwst[0].d["target"][2], out, R, renv) == KEY and resolve_free(kwst[0].d["value"], out, R, renv) == XV
            rep.ob("R-CURRY", "keyword value bound under its own name", ok, "stores: %s" % [("%s = %s" % (fmt(e.d["target"]), fmt(e.d["value"]))) for e in kwst if e.kind == "store"], where_of(out), trace_of(p))
    rep.require(kinds == {"positional", "keyword"} or TAG is None, "%s: expected a positional and a keyword path" % out.qualname)

    # ---- a failing argument future must fail the output: the helper that copies the failure on must cope with any
    # future the user passes, including proxies (shared with C17)
    # every currying level is a flat-map future that the next level subscribes to from another thread: its completion
    # and that registration must exclude each other, or a level's callback -- and with it the output -- is lost
    # (shared with C02)
    from .c02 import trans_rule, addcb_rule
    P_ = roles.proto(ctx)
    MR_ = roles.map_roles(ctx)
    trans_rule(ctx, rep, [c for c in prog.subclasses(MR_.mf)], P_.dispatch, P_.lock)
    addcb_rule(ctx, rep)
    from .c02 import dispatch_rule
    dispatch_rule(ctx, rep)
    # f_apply is a composition of with_map / with_flat_map stages (no error function): the rows of the map table
    # it goes through -- input cancelled / value / failed without error function, and the flat-map hand-over --
    # are part of its correctness ("if any input fails the output fails with that exception").  Shared with C13.
    from . import c13
    from ..core import Report
    sub = Report(rep.pid, ctx)
    c13.check(ctx, sub)
    rep.rule("R-MAPTABLE", "the map / flat-map stages f_apply is built from: delegate cancelled -> cancelled; value -> fn(value) (flat-map: the returned future becomes the delegate); failed, no error function -> the same exception, decided by `exception() is not None`; executors keep and pass on fn")
    for o in sub.obs:
        if o.rule in ("R-TRANS", "R-ADDCB", "R-DISPATCH"):
            continue
        k = o.key
        if k.split(":")[0].split(" ")[0] in ("NoCancelFuture", "ProxyFuture", "ThrottleFuture"):
            continue
        if ("error_fn" in k or "error function" in k) and "no error_fn" not in k:
            continue
        if k.startswith("f_map =") or k.startswith("f_flat_map ="):
            continue
        if k.endswith("all table rows reached"):
            continue  # includes the error-function rows, which f_apply never goes through
        rep.ob("R-MAPTABLE", k, o.ok, o.detail, o.where, o.trace)
    from .c17 import probe_rule
    rep.rule("R-PROBE", "library code that handles a future it was given never uses hasattr/getattr on it with a name outside the Future API (a proxy argument would forward the lookup to the awaited result and the failure would never be copied to the output)")
    probe_rule(ctx, rep, "R-PROBE")



def capture_rule(ctx, rep, module):
    """closures that run later must not see a variable that is re-bound after they were created (python closures bind
    late): a name assigned again further down, or bound anew by every iteration of a loop the closure is created in.
    Values handed over as parameter defaults are read at creation time and are fine."""
    prog = ctx.prog
    for owner in sorted([f for f in prog.functions.values() if f.module is module], key=lambda f: f.key):
        assigned = {}
        for node in _own_nodes(owner.node):
            if isinstance(node, ast.Name) and isinstance(node.ctx, ast.Store):
                assigned.setdefault(node.id, []).append(_stmt_end(owner.node, node))
        for sub in owner.nested.values():
            free = _free_names(sub.node, defaults=False)
            created = (sub.node.lineno, sub.node.col_offset)
            for name in sorted(free):
                later = [pos for pos in assigned.get(name, []) if pos >= created]
                rep.ob("R-CAPTURE", "%s does not capture a variable re-bound later (%s)" % (sub.qualname, name), not later,
                       "closure %s refers to `%s`, which %s assigns again after the closure is created (or on the next round of the loop it is created in): when the closure runs later it sees the new value" % (sub.qualname, name, owner.qualname), where_of(sub))


_SCOPES = (ast.FunctionDef, ast.AsyncFunctionDef, ast.Lambda, ast.ListComp, ast.SetComp, ast.DictComp, ast.GeneratorExp)


def _free_names(scope, defaults=True):
    """names a function / lambda / comprehension reads from an enclosing scope (python's scoping: a name bound
    anywhere in a scope -- parameter, assignment, loop or comprehension target, import, def -- is local to it)"""
    bound, used, declared = set(), set(), set()
    if isinstance(scope, (ast.FunctionDef, ast.AsyncFunctionDef, ast.Lambda)):
        a = scope.args
        for x in a.posonlyargs + a.args + a.kwonlyargs + ([a.vararg] if a.vararg else []) + ([a.kwarg] if a.kwarg else []):
            bound.add(x.arg)
        body = scope.body if isinstance(scope.body, list) else [scope.body]
        outer_exprs = list(a.defaults) + [d for d in a.kw_defaults if d is not None]
    else:
        body = [scope]
        outer_exprs = []
    stack = list(body)
    first_iter = scope.generators[0].iter if not isinstance(scope, (ast.FunctionDef, ast.AsyncFunctionDef, ast.Lambda)) else None
    while stack:
        n = stack.pop()
        if n is not scope and isinstance(n, _SCOPES + (ast.ClassDef,)):
            if isinstance(n, (ast.FunctionDef, ast.AsyncFunctionDef, ast.ClassDef)):
                bound.add(n.name)
            if not isinstance(n, ast.ClassDef):
                used |= _free_names(n, True)  # a nested scope's defaults are evaluated when *this* scope runs
            continue
        if isinstance(n, ast.Name):
            (bound if isinstance(n.ctx, (ast.Store, ast.Del)) else used).add(n.id)
        elif isinstance(n, (ast.Global, ast.Nonlocal)):
            declared.update(n.names)
        elif isinstance(n, ast.ExceptHandler) and n.name:
            bound.add(n.name)
        elif isinstance(n, (ast.Import, ast.ImportFrom)):
            for al in n.names:
                bound.add((al.asname or al.name).split(".")[0])
        stack.extend(ast.iter_child_nodes(n))
    free = (used - bound) | (declared & used)
    if defaults:
        for e in outer_exprs:
            free |= set(x.id for x in ast.walk(e) if isinstance(x, ast.Name))
    return free


roles_MUT = ("append", "insert", "extend", "pop", "remove", "clear", "reverse", "sort", "update", "setdefault", "__setitem__")


def _is_items(src, KW):
    s = roles.container_of(src)
    if isinstance(src, tuple) and src[0] == "call" and src[1] == ("attr", KW, "items") and not src[2]:
        return True
    return isinstance(s, tuple) and s[0] == "call" and s[1] == ("attr", KW, "items") and not s[2]


def _wrapper_fn(ctx, rep, W):
    """W(f) must bind a function that returns f itself (so that with_map / with_flat_map see f's outcome)"""
    prog = ctx.prog
    rep.require(W is not None and len(W.params) == 1, "function wrapping a future into a bound callable not identified")
    ps, it = ctx.paths(W, None, depth=0)
    for p in ps:
        fb = [e for e in p.calls() if q.call_name(e) == "flat_bind"]
        ok = p.status == "return" and len(fb) == 1 and p.value == q.result_of(fb[0]) and len(fb[0].d["args"]) == 1
        if ok:
            c = fn_of(prog, fb[0].d["args"][0])
            ok = c is not None and not c.params and not c.vararg
            if ok:
                ps2, _ = ctx.paths(c, None, depth=0)
                ok = all(p2.status == "return" and p2.value in (("free", W.params[0]), ("param", W.params[0])) and not p2.calls() for p2 in ps2)
        rep.ob("R-PLUMB", "%s(f) binds a function that returns f" % W.qualname, ok, "", where_of(W), trace_of(p))


def _top(f):
    while f.parent is not None:
        f = f.parent
    return f


def _own_nodes(fnode):
    """nodes of a function body, not descending into nested functions / lambdas"""
    stack = list(ast.iter_child_nodes(fnode))
    while stack:
        n = stack.pop()
        yield n
        if isinstance(n, (ast.FunctionDef, ast.AsyncFunctionDef, ast.Lambda)):
            continue
        stack.extend(ast.iter_child_nodes(n))


def _stmt_end(fnode, name_node):
    """position at which the assignment to name_node takes effect: the end of its statement (the value is
    evaluated first, so a closure inside the value is created before the assignment)"""
    best = None
    for st in ast.walk(fnode):
        if isinstance(st, ast.stmt) and hasattr(st, "end_lineno"):
            if (st.lineno, st.col_offset) <= (name_node.lineno, name_node.col_offset) <= (st.end_lineno, st.end_col_offset):
                if isinstance(st, (ast.Assign, ast.AugAssign, ast.AnnAssign, ast.For, ast.With)):
                    if best is None or (st.lineno, st.col_offset) >= best[0]:
                        best = ((st.lineno, st.col_offset), (st.end_lineno, st.end_col_offset))
    return best[1] if best else (name_node.lineno, name_node.col_offset)
