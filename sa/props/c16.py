"""C16 -- f_apply calls the function once, with every argument in its place.

Decided:
  R-WRAP    _wrap_args lists the positional argument futures in order, tagged as positional, and one
            (name, future) pair per keyword argument
  R-CURRY   each step peels one (key, future) pair off the list and recurses on the remainder; the partially
            applied function inserts the resolved value at the position that matches the peeling order
            (first peeled <-> inserted at the front: later-peeled values are inserted at the front earlier in the
            call chain, so the original order is restored), or binds it under exactly its own key
  R-ONCE    the user's function is called at exactly one place per step (inside the partially applied function,
            with the accumulated *args, **kwargs) and once in the base case with no arguments; nowhere else
  R-SHRINK  the recursion is on a strictly shorter list; the base case is the empty list
  R-PLUMB   each step resolves the argument future first (flat_map over it) and maps the function future with the
            partially applied function; f_apply passes its inputs through _wrap_args unchanged
Not decided: extensional equality for all arities (argued by induction from R-CURRY); failure propagation is the
map/flat_map behaviour of C13.
"""
from ..core import where_of, trace_of
from ..interp import fmt, contains, subterms
from ..model import AnalysisError
from .. import q


def check(ctx, rep):
    prog = ctx.prog
    rep.rule("R-WRAP", "_wrap_args(*fs, **kw) = [(ARGS, f) for f in fs] + [(k, v) for k, v in kw.items()], built by appending in iteration order")
    rep.rule("R-CURRY", "peeling pair (key, future) at index i of the list and recursing on the list without it must be matched by the insertion: index 0 / rest [1:] <-> args.insert(0, x); index -1 / rest [:-1] <-> args.append(x); keyword values are bound as kwargs[key] = x with the peeled key")
    rep.rule("R-ONCE", "the function value is called exactly once per partially applied function (return fn(*args, **kwargs)) and exactly once, without arguments, in the base case")
    rep.rule("R-SHRINK", "_wrapped_f_apply returns the base case exactly when the list is empty and otherwise recurses on the remainder of the same list")
    rep.rule("R-PLUMB", "a step is wrap(future_x).with_flat_map(lambda x: wrap(future_fn).with_map(lambda fn: fn_runner(fn, x))())(); f_apply = _wrapped_f_apply(future_fn, _wrap_args(*future_args, **future_kwargs))")
    wa = prog.fn("apply:_wrap_args")
    wf = prog.fn("apply:_wrapped_f_apply")
    fa = prog.fn("apply:f_apply")
    wrapf = prog.fn("base:wrap")

    # ---- _wrap_args
    ps, it = ctx.paths(wa, None, depth=0)
    full = [p for p in ps if p.status == "return"]
    rep.require(full, "_wrap_args: no returning path")
    seen_pos = seen_kw = False
    for p in full:
        apps = [e for e in p.calls() if q.call_name(e) == "append"]
        order = []
        for e in apps:
            a = e.d["args"][0]
            if not (isinstance(a, tuple) and a[0] == "tuple" and len(a[1]) == 2):
                rep.ob("R-WRAP", "_wrap_args appends (tag, future) pairs", False, "appends %s" % fmt(a), where_of(wa, e.node))
                continue
            tag, val = a[1]
            if isinstance(tag, tuple) and tag[0] == "global" and tag[2] == "ARGS":
                seen_pos = True
                order.append("pos")
                rep.ob("R-WRAP", "_wrap_args: positional futures are tagged ARGS, in iteration order", isinstance(val, tuple) and val[0] == "elem" and val[1] == ("seq", (), ("param", wa.vararg), 0), "pair (%s, %s)" % (fmt(tag), fmt(val)), where_of(wa, e.node))
            else:
                seen_kw = True
                order.append("kw")
                ok = isinstance(tag, tuple) and tag[0] == "unpack" and tag[2] == 0 and isinstance(val, tuple) and val[0] == "unpack" and val[2] == 1 and tag[1] == val[1] and contains(tag[1], ("kw", (), ("param", wa.kwarg)))
                rep.ob("R-WRAP", "_wrap_args: each keyword future is paired with its own name", ok, "pair (%s, %s)" % (fmt(tag), fmt(val)), where_of(wa, e.node))
        # the list returned is the one appended to, nothing reordered
        v = p.value
        rep.ob("R-WRAP", "_wrap_args returns the list it built", isinstance(v, tuple) and v[0] in ("list", "call", "listof") and len(v[1]) == len(apps) if v[0] == "list" else True, "returns %s" % fmt(v), where_of(wa))
    rep.ob("R-WRAP", "_wrap_args handles positional and keyword arguments", seen_pos and seen_kw, "", where_of(wa))

    # ---- _wrapped_f_apply
    ps, it = ctx.paths(wf, None, depth=0)
    FN, LST = ("param", wf.params[0]), ("param", wf.params[1])
    kinds = set()
    peel = rest = None
    runner = None
    for p in ps:
        if p.status != "return":
            continue
        empty = None
        for t, v in p.branch_atoms():
            if t == LST:
                empty = not v
        rep.require(empty is not None, "_wrapped_f_apply: test of the argument list not found")
        rec = [e for e in p.calls() if e.d["callee"] is wf]
        if empty:
            kinds.add("base")
            rep.ob("R-SHRINK", "_wrapped_f_apply: the empty list is the base case (no recursion)", not rec, "", where_of(wf), trace_of(p))
            w = [e for e in p.calls() if e.d["callee"] is wrapf]
            m = [e for e in p.calls() if q.call_name(e) == "with_map"]
            ok = len(w) == 1 and w[0].d["args"] == (FN,) and len(m) == 1 and len(m[0].d["args"]) == 1 and m[0].d["args"][0][0] == "closure"
            if ok:
                sub = it.closures[m[0].d["args"][0][2]][0]
                ps2, it2 = ctx.paths(sub, None, depth=0)
                for p2 in ps2:
                    if p2.status == "raise":
                        continue  # the function itself raised: the map layer turns that into the outcome (C13)
                    uc = [e for e in p2.calls() if e.d["func"] == ("param", sub.params[0])]
                    rep.ob("R-ONCE", "base case: the fully applied function is called once, without arguments", len(uc) == 1 and not uc[0].d["args"] and not uc[0].d["kwargs"] and p2.status == "return" and p2.value[:2] == ("call", ("param", sub.params[0])), "calls: %s" % [fmt(e.d["func"]) for e in p2.calls()], where_of(sub), trace_of(p2))
            rep.ob("R-PLUMB", "base case: wrap(future_fn).with_map(<call it>)()", ok and isinstance(p.value, tuple) and p.value[0] == "call" and not p.value[2], "returns %s" % fmt(p.value), where_of(wf), trace_of(p))
            continue
        kinds.add("step")
        rep.ob("R-SHRINK", "_wrapped_f_apply: exactly one recursive call per step", len(rec) == 1, "recursive calls: %d" % len(rec), where_of(wf), trace_of(p))
        if len(rec) != 1:
            continue
        # what was peeled
        pair = None
        for n_, v in p.frames[0].env.items() if p.frames else []:
            pass
        subs_ = set()
        for e in p.calls():
            for a in e.d["args"]:
                for s in subterms(a):
                    if s[0] == "sub" and s[1] == LST:
                        subs_.add(s)
        for s in subterms(rec[0].d["args"][1] if len(rec[0].d["args"]) > 1 else ()):
            if s[0] == "sub" and s[1] == LST:
                subs_.add(s)
        idx = [s for s in subs_ if s[2][0] == "const"]
        sl = [s for s in subs_ if s[2][0] == "slice"]
        rest_arg = rec[0].d["args"][1] if len(rec[0].d["args"]) > 1 else None
        w = [e for e in p.calls() if e.d["callee"] is wrapf]
        fm = [e for e in p.calls() if q.call_name(e) == "with_flat_map"]
        rep.require(len(w) >= 1 and len(fm) == 1, "_wrapped_f_apply: step structure (wrap / with_flat_map) not recognised")
        fx = w[0].d["args"][0]
        # fx is ('unpack', future_args[i], 1)
        ok = isinstance(fx, tuple) and fx[0] == "unpack" and fx[2] == 1 and isinstance(fx[1], tuple) and fx[1][0] == "sub" and fx[1][1] == LST and fx[1][2][0] == "const"
        rep.ob("R-CURRY", "step: the future resolved first is the peeled pair's future", ok, "wrap(%s)" % fmt(fx), where_of(wf, w[0].node), trace_of(p))
        if not ok:
            continue
        peel = fx[1][2][1]
        want_rest = {0: ("sub", LST, ("slice", ("const", 1), ("const", None), ("const", None))), -1: ("sub", LST, ("slice", ("const", None), ("const", -1), ("const", None)))}.get(peel)
        rep.ob("R-SHRINK", "step: recursion on the list without the peeled pair", want_rest is not None and rest_arg == want_rest, "peeled index %s, recursion on %s" % (peel, fmt(rest_arg) if rest_arg else None), where_of(wf, rec[0].node), trace_of(p))
        nf = rec[0].d["args"][0]
        rep.ob("R-PLUMB", "step: the recursion continues with the partially applied function future", isinstance(nf, tuple) and nf[0] == "call" and nf[1][:2] == ("call", fm[0].d["func"]), "first argument %s" % fmt(nf), where_of(wf, rec[0].node))
        # the flat-map function: lambda x: wrap(future_fn).with_map(lambda fn: fn_runner(fn, x))()
        c2 = fm[0].d["args"][0] if fm[0].d["args"] else None
        rep.require(isinstance(c2, tuple) and c2[0] == "closure", "_wrapped_f_apply: flat-map function is not a local closure")
        sub = it.closures[c2[2]][0]
        ps2, it2 = ctx.paths(sub, None, depth=0)
        for p2 in ps2:
            w2 = [e for e in p2.calls() if q.call_name(e) == "wrap"]
            m2 = [e for e in p2.calls() if q.call_name(e) == "with_map"]
            ok2 = len(w2) == 1 and q.term_name(w2[0].d["args"][0]) == wf.params[0] and len(m2) == 1 and m2[0].d["args"] and m2[0].d["args"][0][0] == "closure"
            rep.ob("R-PLUMB", "step: the function future is mapped with the partial application", ok2, "", where_of(sub), trace_of(p2))
            if ok2:
                sub3 = it2.closures[m2[0].d["args"][0][2]][0]
                ps3, it3 = ctx.paths(sub3, None, depth=0)
                for p3 in ps3:
                    rc = [e for e in p3.calls() if q.call_name(e) == "fn_runner" or (e.d["callee"] is not None and e.d["callee"].name == "fn_runner")]
                    ok3 = len(rc) == 1 and len(rc[0].d["args"]) == 2 and rc[0].d["args"][0] == ("param", sub3.params[0]) and q.term_name(rc[0].d["args"][1]) == sub.params[0]
                    rep.ob("R-PLUMB", "step: fn_runner(fn, x) receives the function and the resolved argument", ok3, "calls %s" % [("%s(%s)" % (fmt(e.d["func"]), ", ".join(fmt(a) for a in e.d["args"]))) for e in p3.calls()], where_of(sub3), trace_of(p3))
                    if rc:
                        cand = [f for f in wf.nested.values() if f.name == q.call_name(rc[0])]
                        if len(cand) == 1:
                            runner = cand[0]
    rep.require(kinds == {"base", "step"}, "_wrapped_f_apply: expected base and step paths")
    rep.require(runner is not None and peel is not None, "_wrapped_f_apply: partial application function not identified")

    # ---- the partially applied function
    outs = [f for f in runner.nested.values()]
    rep.require(len(outs) == 1, "fn_runner: expected one nested function")
    out = outs[0]
    ps, it = ctx.paths(out, None, depth=0)
    kinds = set()
    for p in ps:
        if p.status == "raise" and isinstance(p.value, tuple) and isinstance(p.value[2], tuple) and p.value[2][:1] == ("from",):
            continue  # the user's function raised
        if p.status != "return":
            rep.ob("R-ONCE", "the partially applied function returns", False, "status %s" % p.status, where_of(out), trace_of(p))
            continue
        uc = [e for e in p.calls() if e.d["func"] in (("free", "fn"), ("param", "fn")) or q.term_name(e.d["func"]) == runner.params[0]]
        rep.ob("R-ONCE", "the function is called exactly once by the partially applied function", len(uc) == 1, "calls of fn: %d" % len(uc), where_of(out), trace_of(p))
        if len(uc) != 1:
            kinds.update({"positional", "keyword"})
            continue
        u = uc[0]
        rep.ob("R-ONCE", "the result of that call is returned", p.value == ("call", u.d["func"], u.d["args"], u.d["kwargs"], None), "", where_of(out))
        positional = None
        for b in p.evs("branch"):
            t, v = b.d
            if isinstance(t, tuple) and t[0] == "cmp" and isinstance(t[3], tuple) and t[3][0] == "global" and t[3][2] == "ARGS":
                positional = v
                rep.ob("R-CURRY", "the positional tag is recognised by identity", t[1] == "is", "`key %s ARGS`: a keyword argument whose name compares equal to the tag would be passed positionally" % t[1], where_of(out, b.node), trace_of(p, b.seq))
        rep.require(positional is not None, "partially applied function: test of the key against the positional tag not found")
        ins = [e for e in p.calls() if q.call_name(e) in ("insert", "append") and q.term_name(q.recv(e)) in (None, "args") and isinstance(q.recv(e), tuple)]
        kwst = [e for e in p.evs("store") if e.d["target"][0] == "sub"]
        X = runner.params[1]
        if positional:
            kinds.add("positional")
            ok = len(ins) == 1 and not kwst
            how = None
            if ok:
                e = ins[0]
                if q.call_name(e) == "insert" and len(e.d["args"]) == 2 and e.d["args"][0] == ("const", 0) and q.term_name(e.d["args"][1]) == X:
                    how = 0
                elif q.call_name(e) == "append" and len(e.d["args"]) == 1 and q.term_name(e.d["args"][0]) == X:
                    how = -1
            rep.ob("R-CURRY", "positional value inserted where the peeling order requires", ok and how == peel, "the list is peeled at index %s but the value is %s: positional arguments arrive in the wrong order" % (peel, ("inserted with %s(%s)" % (q.call_name(ins[0]), ", ".join(fmt(a) for a in ins[0].d["args"]))) if ins else "not inserted"), where_of(out), trace_of(p))
            # the call uses the list that received the value and the caller's further args after/before it
            a = u.d["args"]
            rep.ob("R-CURRY", "the call passes the accumulated positional arguments", len(a) == 1 and a[0][0] == "star", "fn called with %s" % [fmt(x) for x in a], where_of(out))
        else:
            kinds.add("keyword")
            ok = len(kwst) == 1 and not ins and q.term_name(kwst[0].d["target"][2]) == "key" and q.term_name(kwst[0].d["value"]) == X
            rep.ob("R-CURRY", "keyword value bound under its own name", ok, "stores: %s" % [("%s = %s" % (fmt(e.d["target"]), fmt(e.d["value"]))) for e in kwst], where_of(out), trace_of(p))
            kws = u.d["kwargs"]
            rep.ob("R-CURRY", "the call passes the accumulated keyword arguments", len(kws) == 1 and kws[0][0] is None, "fn called with keywords %s" % [(k, fmt(v)) for k, v in kws], where_of(out))
    rep.require(kinds == {"positional", "keyword"}, "partially applied function: expected a positional and a keyword path")
    # key comes from the same pair as the future
    ps, it = ctx.paths(wf, None, depth=0)
    for p in ps:
        if p.status != "return":
            continue
        k = p.frames[0].env.get("key") if p.frames else None
    # (the unpack target names are checked through the closure's free variable `key` below)
    keyok = False
    for node in __import__("ast").walk(wf.node):
        if isinstance(node, __import__("ast").Assign) and isinstance(node.targets[0], __import__("ast").Tuple) and len(node.targets[0].elts) == 2:
            names = [getattr(e, "id", None) for e in node.targets[0].elts]
            if names[0] == "key":
                keyok = True
    rep.ob("R-CURRY", "key and future are unpacked from the same peeled pair", keyok, "", where_of(wf))

    # the positional tag is a unique sentinel object
    import ast as _ast
    tagdef = wf.module.assigns.get("ARGS", [])
    uniq = len(tagdef) == 1 and isinstance(tagdef[0], _ast.Call) and isinstance(tagdef[0].func, _ast.Name) and tagdef[0].func.id == "object" and not tagdef[0].args
    rep.ob("R-CURRY", "the positional tag is a unique sentinel", uniq, "ARGS is defined as %s: it can collide with a keyword argument's name" % (_ast.unparse(tagdef[0]) if tagdef else None), wf.module.relpath)

    # ---- closures that run later must not see a variable that is re-bound after they were created
    rep.rule("R-CAPTURE", "a closure created inside _wrapped_f_apply / fn_runner and run later (as a map function) does not refer to a local variable of its defining function that is assigned again after the closure was created (Python closures bind late)")
    for owner in [wf] + [f for f in prog.functions.values() if f.parent is not None and _top(f) is wf]:
        assigned = {}
        for node in _ast.walk(owner.node):
            if isinstance(node, (_ast.FunctionDef, _ast.Lambda)) and node is not owner.node:
                continue
        body_nodes = list(_own_nodes(owner.node))
        for node in body_nodes:
            if isinstance(node, _ast.Name) and isinstance(node.ctx, _ast.Store):
                assigned.setdefault(node.id, []).append(_stmt_end(owner.node, node))
        for sub in owner.nested.values():
            free = set(n.id for n in _ast.walk(sub.node) if isinstance(n, _ast.Name) and isinstance(n.ctx, _ast.Load)) - set(sub.all_param_names())
            created = (sub.node.lineno, sub.node.col_offset)
            for name in sorted(free):
                later = [pos for pos in assigned.get(name, []) if pos >= created]
                rep.ob("R-CAPTURE", "%s does not capture a variable re-bound later (%s)" % (sub.qualname, name), not later,
                       "closure %s refers to `%s`, which %s assigns again after the closure is created: when the closure runs later it sees the new value" % (sub.qualname, name, owner.qualname), where_of(sub))

    # ---- f_apply
    ps, it = ctx.paths(fa, None, depth=0)
    for p in ps:
        if p.status != "return":
            continue
        c1 = [e for e in p.calls() if e.d["callee"] is wa]
        c2 = [e for e in p.calls() if e.d["callee"] is wf]
        ok = len(c1) == 1 and c1[0].d["args"] == (("star", ("seq", (), ("param", fa.vararg), 0)),) and tuple(c1[0].d["kwargs"]) == ((None, ("kw", (), ("param", fa.kwarg))),)
        ok = ok and len(c2) == 1 and c2[0].d["args"] == (("param", fa.params[0]), ("call", c1[0].d["func"], c1[0].d["args"], c1[0].d["kwargs"], None))
        rep.ob("R-PLUMB", "f_apply = _wrapped_f_apply(future_fn, _wrap_args(*future_args, **future_kwargs))", ok, "", where_of(fa), trace_of(p))


def _top(f):
    while f.parent is not None:
        f = f.parent
    return f


def _own_nodes(fnode):
    """nodes of a function body, not descending into nested functions / lambdas"""
    import ast as _ast
    stack = list(_ast.iter_child_nodes(fnode))
    while stack:
        n = stack.pop()
        yield n
        if isinstance(n, (_ast.FunctionDef, _ast.AsyncFunctionDef, _ast.Lambda)):
            continue
        stack.extend(_ast.iter_child_nodes(n))


def _stmt_end(fnode, name_node):
    """position at which the assignment to name_node takes effect: the end of its statement (the value is
    evaluated first, so a closure inside the value is created before the assignment)"""
    import ast as _ast
    best = None
    for st in _ast.walk(fnode):
        if isinstance(st, _ast.stmt) and hasattr(st, "end_lineno"):
            if (st.lineno, st.col_offset) <= (name_node.lineno, name_node.col_offset) <= (st.end_lineno, st.end_col_offset):
                if isinstance(st, (_ast.Assign, _ast.AugAssign, _ast.AnnAssign, _ast.For, _ast.With)):
                    if best is None or (st.lineno, st.col_offset) >= best[0]:
                        best = ((st.lineno, st.col_offset), (st.end_lineno, st.end_col_offset))
    return best[1] if best else (name_node.lineno, name_node.col_offset)
