"""C01 -- composed executors deliver each callable's own outcome, exactly once.

Decided, per layer (and therefore for any stack built from these layers):
  R-ONCE      every normal path of every public submit* performs exactly one hand-over of the submission: one
              delegate / base-class submit, one direct invocation (sync), or one enqueue of a job record;
              every deferred hand-over (retry, throttle) performs exactly one delegate submit per job
  R-FORWARD   the callable and its arguments reach the hand-over unchanged: positional and keyword arguments of
              the public entry point are forwarded in order, job records copy (fn, args, kwargs) from the entry
              point's parameters, deferred hand-overs submit (job.fn, *job.args, **job.kwargs)
  R-LINK      the future returned is the hand-over's own future, a library future constructed on it, or the future
              stored in the job record that was enqueued; deferred hand-overs link the delegate future to the
              future of the same job
  R-EXC-ID    the copy helpers pass the very exception object on (parameter, f.exception(), or the exception
              being handled); the sync executor stores fn's result / the exception being handled in the future it
              returns
              ... and hand it on unchanged (no with_traceback / add_note / attribute store on it; shared with C13)
  R-FIND      every walk over the retry job list is under the executor lock or over a copy: the finished attempt's
              job is always found (shared with C05)
Not decided: equality with a sequential evaluation for arbitrary stacks and scripts; absence of mis-routing
caused by data races in code that satisfies these rules.
"""
from ..core import where_of, trace_of
from ..interp import fmt, contains, subterms
from ..model import AnalysisError, ClassInfo
from .. import q
from .. import roles

SELF = ("param", "self")


def norm_seq(items, rest):
    """[.., T[k-1]] + *T[k:]  ==  [..] + *T[k-1:]"""
    items = list(items)
    while items and rest is not None and items[-1] == ("sub", rest[0], ("const", rest[1] - 1)) and rest[1] > 0:
        items.pop()
        rest = (rest[0], rest[1] - 1)
    return tuple(items), rest


def flatten_pos(args):
    items = []
    rest = None
    for a in args:
        if isinstance(a, tuple) and a and a[0] == "star":
            v = a[1]
            if isinstance(v, tuple) and v[0] == "seq":
                items.extend(v[1])
                if v[2] is not None:
                    rest = (v[2], v[3])
            elif isinstance(v, tuple) and v[0] in ("tuple", "list"):
                items.extend(v[1])
            else:
                rest = (v, 0)
        else:
            if rest is not None:
                return None
            items.append(a)
    return norm_seq(items, rest)


def flatten_kw(kwargs):
    named = []
    rest = None
    for k, v in kwargs:
        if k is None:
            if isinstance(v, tuple) and v[0] == "kw":
                named.extend(v[1])
                rest = v[2] if v[2] is not None else rest
            else:
                rest = v
        else:
            named.append((k, v))
    return tuple(named), rest


def expected_of(m):
    """what the public entry point m is asked to run: (positional sequence, keyword part)"""
    params = m.params[1:]
    if "fn" in params:
        params = params[params.index("fn"):]
    elif m.vararg is None:
        params = params
    else:
        params = []
    items = [("param", x) for x in params]
    rest = (("param", m.vararg), 0) if m.vararg else None
    kw = ("param", m.kwarg) if m.kwarg else None
    return norm_seq(items, rest), ((), kw)


def check(ctx, rep):
    prog = ctx.prog
    rep.rule("R-ONCE", "exactly one hand-over (delegate/base submit, direct call of the callable, or enqueue of one job record) on every normal path of a public submit*; exactly one delegate submit per job in a deferred hand-over")
    rep.rule("R-FORWARD", "the (callable, *args, **kwargs) of the hand-over are the entry point's own, in order; job records copy them field for field; deferred hand-overs use the fields of the job they were given")
    rep.rule("R-LINK", "the returned future is, wraps, or is stored next to the future of this very hand-over; a deferred hand-over links its delegate future to its own job's future")
    rep.rule("R-EXC-ID", "copy_exception / copy_future_exception / the sync executor propagate the identical exception object and the callable's own result")
    records = []
    from ..roles import record_roles as _rr0
    for xc in ctx.executor_classes():
        try:
            rc_ = _rr0(ctx, xc)[1]
        except AnalysisError:
            continue
        if rc_ not in records:
            records.append(rc_)
    rep.require(len(records) >= 2, "job record classes of the queueing executors not identified (%s)" % [r.name for r in records])
    n_entry = 0
    for ci in ctx.executor_classes():
        if not ctx.gate_field(ci):
            continue
        for c in ci.mro():
            if not isinstance(c, ClassInfo):
                continue
            for name, m in sorted(c.methods.items()):
                if not (name == "submit" or name.startswith("submit_")) or ci.lookup(name)[1] is not m:
                    continue
                n_entry += 1
                _entry(ctx, rep, ci, m, records)
    rep.count("public submit entry points", n_entry, 12)
    _deferred(ctx, rep)
    _copy_helpers(ctx, rep)
    # outcomes travel outward through done-callbacks: a layer's callback must not be lost (state changes and
    # callback registration exclude each other -- shared with C02/C04), and a poll failure is routed to exactly
    # the futures that poll call was shown (shared with C08)
    from .c02 import trans_rule
    from .c08 import snapshot_rule
    futc = prog.cls("_Future")
    trans_rule(ctx, rep, [c for c in prog.subclasses(futc, strict=True)], roles.proto(ctx).dispatch, roles.proto(ctx).lock)
    snapshot_rule(ctx, rep)
    # a callback registered while the inner future completes must not be lost (shared with C02), and the flat-map
    # layer must deliver the returned future's own outcome (shared with C13)
    from .c02 import addcb_rule
    from .c13 import flatten_rule
    addcb_rule(ctx, rep)
    from .c02 import dispatch_rule
    dispatch_rule(ctx, rep)
    flatten_rule(ctx, rep)
    # "never dropped": every exit of a layer's completion callback has passed the outcome on -- resolved the derived
    # future, queued it for the worker or re-pointed it -- and none leaves by exception (shared with C03)
    from . import c03
    from ..core import Report
    sub = Report(rep.pid, ctx)
    c03.check(ctx, sub)
    rep.rule("R-CB-TOTAL", sub.rules.get("R-CB-TOTAL", ""))
    for o in sub.obs:
        if o.rule == "R-CB-TOTAL":
            rep.ob("R-CB-TOTAL", o.key, o.ok, o.detail, o.where, o.trace)
    # "never dropped", retry layer: the completion callback finds the job of the finished attempt only if its walk over
    # the job list cannot skip an entry (shared with C05)
    rep.rule("R-FIND", "every walk over the retry job list happens with the executor lock held or over a copy of the list (an iterator over the live list skips an entry when another thread removes one: the finished attempt's job is not found and its outcome is dropped)")
    nwalk = roles.iteration_rule(ctx, rep, roles.Queue(ctx, ctx.prog.cls("RetryExecutor")), "R-FIND")
    rep.count("walks over the retry job list", nwalk, 3)
    # "invoked with exactly the submitted arguments", whatever they are called: submit() must not have named parameters
    # of its own that a keyword argument meant for the callable can collide with -- neither directly nor in the
    # method it forwards **kwargs to (ThreadPoolExecutor.submit takes its own parameters positionally only)
    rep.rule("R-KWNAMES", "no executor's submit() path binds a caller keyword argument to a parameter of the library: submit(self, *args, **kwargs) all the way down to the delegate's submit / the job record")
    for ci in sorted(ctx.executor_classes(), key=lambda c: c.key):
        o, sm = ci.lookup("submit")
        if sm is None or not isinstance(o, ClassInfo) or sm.kwarg is None:
            continue
        names = [n for n in sm.params[1:]]
        ps_, it_ = ctx.paths(sm, ci, depth=0)
        for p_ in ps_:
            for e in p_.calls():
                c = e.d["callee"]
                if c is not None and c.owner is not None and c.owner in ci.mro() and any(k is None and v == ("kw", (), ("param", sm.kwarg)) for k, v in e.d["kwargs"]):
                    for n in c.params[1:]:
                        if n not in names:
                            names.append(n)
        if not names:
            rep.ob("R-KWNAMES", "%s.submit: a keyword argument of any name reaches the callable" % ci.name, True, "", where_of(sm))
        for n in names:
            rep.ob("R-KWNAMES", "%s.submit: the keyword name `%s` is free for the callable" % (ci.name, n), False, "a callable submitted with a keyword argument named `%s` cannot be passed through %s.submit(): the name is taken by a parameter of the library (TypeError: got multiple values for argument '%s'), although the executor underneath would accept it" % (n, ci.name, n), where_of(sm))
    # every with_map / with_flat_map / throttle / timeout layer passes outcomes on through the map future's table:
    # value -> fn(value), failure -> the same exception object (error function: its result, or the exception it
    # raised -- identity decides "the same"), cancelled -> cancelled (shared with C13)
    from . import c13
    sub13 = Report(rep.pid, ctx)
    c13.check(ctx, sub13)
    rep.rule("R-MAPTABLE", sub13.rules.get("R-TABLE", ""))
    for o in sub13.obs:
        if o.rule in ("R-TABLE", "R-DEFAULT", "R-PLUMB"):
            rep.ob("R-MAPTABLE", o.key, o.ok, o.detail, o.where, o.trace)


def _inline_policy(ci, records=()):
    rkeys = set(r.key for r in records)

    def pol(callee, ev, path):
        if callee.name == "__init__" and callee.owner is not None and callee.owner.key in rkeys:
            return True
        # follow the executor's own helpers and record constructors; keep futures / metrics opaque
        if callee.owner is not None and (callee.owner is ci or callee.owner in [x for x in ci.mro() if isinstance(x, ClassInfo)]):
            return True
        if callee.name == "ensure_alive":
            return True
        if callee.owner is None and callee.parent is None and callee.module is ci.module and callee.name.startswith("_") and not any(fr.fi is callee for fr in path.frames) and len(path.frames) < 4:
            return True  # private module-level helpers of the executor's module
        return False
    return pol


def _entry(ctx, rep, ci, m, records):
    prog = ctx.prog
    ps, it = ctx.paths(m, ci, depth=3, inline=_inline_policy(ci, records))
    (want_items, want_rest), (want_named, want_kwrest) = expected_of(m)
    key0 = "%s.%s" % (ci.name, m.name)
    nnorm = 0
    for p in ps:
        if p.status != "return":
            continue
        nnorm += 1
        hand = []
        for e in p.calls():
            d = e.d
            f = d["func"]
            if q.call_name(e) == "submit" and (q.is_super_call(e) or q.recv(e) == ("attr", SELF, "_delegate")) and d["callee"] is None:
                hand.append(("submit", e))
            elif d.get("user") and isinstance(f, tuple) and f in (("param", "fn"), ("sub", ("param", m.vararg), ("const", 0))):
                hand.append(("call", e))
            elif q.call_name(e) in ("append", "appendleft", "add", "insert") and isinstance(q.recv(e), tuple) and q.recv(e)[0] == "attr" and q.recv(e)[1] == SELF and d["args"]:
                a = d["args"][0]
                t = it.type_of(a, p)
                if t and any(t == "C:" + r.key for r in records):
                    hand.append(("enqueue", e))
        rep.ob("R-ONCE", key0 + ": exactly one hand-over per submission", len(hand) == 1, "%d hand-overs on a normal path: %s" % (len(hand), [fmt(e.d["func"]) for k, e in hand]), where_of(m), trace_of(p))
        if len(hand) != 1:
            continue
        kind, e = hand[0]
        if kind in ("submit", "call"):
            got = flatten_pos(((e.d["func"],) if kind == "call" else ()) + tuple(e.d["args"]))
            gkw = flatten_kw(e.d["kwargs"])
            ok = got == (want_items, want_rest) and gkw == (want_named, want_kwrest)
            rep.ob("R-FORWARD", key0 + ": callable and arguments forwarded unchanged", ok, "entry point received (%s%s; **%s) but hands over (%s%s; %s **%s)" % (
                ", ".join(fmt(x) for x in want_items), (", *%s[%d:]" % (fmt(want_rest[0]), want_rest[1])) if want_rest else "", fmt(want_kwrest) if want_kwrest else None,
                ", ".join(fmt(x) for x in got[0]) if got else "?", (", *%s[%d:]" % (fmt(got[1][0]), got[1][1])) if got and got[1] else "", [(k, fmt(v)) for k, v in gkw[0]], fmt(gkw[1]) if gkw[1] else None), where_of(e.fn, e.node), trace_of(p, e.seq))
            res = ("call", e.d["func"], e.d["args"], e.d["kwargs"], e.d.get("site"))
            v = p.value
            linked = _linked(v, e, p, it)
            rep.ob("R-LINK", key0 + ": the returned future belongs to this hand-over", linked, "returns %s, which is not built on the result of %s" % (fmt(v), fmt(e.d["func"])), where_of(m), trace_of(p))
        else:
            job = e.d["args"][0]
            from ..roles import record_roles as _rr
            _qf, _rc, RR = _rr(ctx, ci)
            jf = dict((f, p.heap.get(("attr", job, RR[f]))) for f in ("fn", "args", "kwargs", "future"))
            seq = flatten_pos((jf["fn"], ("star", jf["args"]))) if jf["fn"] is not None and jf["args"] is not None else None
            gkw = flatten_kw(((None, jf["kwargs"]),)) if jf["kwargs"] is not None else None
            ok = seq == (want_items, want_rest) and gkw == (want_named, want_kwrest)
            rep.ob("R-FORWARD", key0 + ": the job record holds the caller's callable and arguments", ok, "job fields fn=%s args=%s kwargs=%s" % tuple(fmt(jf[k]) if jf[k] is not None else None for k in ("fn", "args", "kwargs")), where_of(e.fn, e.node), trace_of(p, e.seq))
            rep.ob("R-LINK", key0 + ": the returned future is the one stored in the job record", jf["future"] is not None and p.value == jf["future"], "returns %s, job holds %s" % (fmt(p.value), fmt(jf["future"]) if jf["future"] else None), where_of(m), trace_of(p))
    rep.ob("R-ONCE", key0 + ": has a normal path", nnorm > 0, "", where_of(m))


def _linked(v, e, p, it):
    res_prefix = ("call", e.d["func"])
    if isinstance(v, tuple) and v[:2] == res_prefix:
        return True
    # track_future(x) / asyncio.wrap_future(x) -> look through
    seen = 0
    while isinstance(v, tuple) and v[0] == "call" and v[2] and seen < 3:
        inner = v[2][0]
        if isinstance(inner, tuple) and inner[:2] == res_prefix:
            return True
        v = inner
        seen += 1
    if isinstance(v, tuple) and v[0] in ("new", "extnew"):
        # constructed on the hand-over's result, or resolved from it (sync)
        for c in p.calls():
            if c.d["func"] == ("class", v[1]) if v[0] == "new" else False:
                vals = list(c.d["args"]) + [x for k_, x in c.d["kwargs"]]
                if it.site(c.node) == v[2] and any(isinstance(a, tuple) and a[:2] == res_prefix for a in vals):
                    return True
        for c in p.calls():
            if q.call_name(c) in ("set_result",) and q.recv(c) == v and c.d["args"] and isinstance(c.d["args"][0], tuple) and c.d["args"][0][:2] == res_prefix:
                return True
        # the callable raised: the exception being handled is copied into the returned future
        if p.evs("catch"):
            for c in p.calls():
                if c.d["callee"] is not None and c.d["callee"].name == "copy_exception" and c.d["args"] == (v,):
                    return True
    return False


def _deferred(ctx, rep):
    """retry and throttle hand the submission to the delegate later, from their worker loop"""
    prog = ctx.prog
    from ..roles import Layer, record_roles, std_inline
    for cname in ("RetryExecutor", "ThrottleExecutor"):
        ci = prog.cls(cname)
        lay = Layer(ctx, ci)
        rep.require(lay.loop is not None, "%s: worker loop not found" % cname)
        qfield, rec_cls, R = record_roles(ctx, ci)
        ps, it = ctx.paths(lay.loop, lay.loop.owner, depth=8, inline=std_inline, maxpaths=20000)
        nh = 0
        for p in ps:
            if p.status == "raise":
                continue
            subs = [e for e in p.calls() if q.call_name(e) == "submit" and isinstance(q.recv(e), tuple) and q.recv(e)[0] == "attr" and q.recv(e)[2] == "_delegate" and it.type_of(q.recv(e)[1], p) == "C:" + ci.key]
            pops = [e for e in p.calls() if q.call_name(e) in ("popleft", "pop") and isinstance(q.recv(e), tuple) and q.recv(e)[0] == "attr" and q.recv(e)[2] == qfield]
            if cname == "ThrottleExecutor":
                popped = [q.result_of(e) for e in pops]
                jobs = [e.d["args"][0][1] for e in subs if e.d["args"] and isinstance(e.d["args"][0], tuple) and e.d["args"][0][0] == "attr"]
                rep.ob("R-ONCE", "%s loop: each dequeued job is handed over exactly once" % cname, sorted(map(repr, popped)) == sorted(map(repr, jobs)), "dequeued %d, handed over %s" % (len(pops), [fmt(j) for j in jobs]), where_of(lay.loop), trace_of(p))
            for e in subs:
                nh += 1
                a = e.d["args"]
                job = a[0][1] if a and isinstance(a[0], tuple) and a[0][0] == "attr" and a[0][2] == R["fn"] else None
                ok = job is not None and a == (("attr", job, R["fn"]), ("star", ("attr", job, R["args"]))) and tuple(e.d["kwargs"]) == ((None, ("attr", job, R["kwargs"])),)
                rep.ob("R-FORWARD", "%s loop: the hand-over submits the job's own (fn, *args, **kwargs)" % cname, ok, "submits (%s; %s)" % ([fmt(x) for x in a], [(k, fmt(v)) for k, v in e.d["kwargs"]]), where_of(e.fn, e.node), trace_of(p, e.seq))
                if job is None:
                    continue
                others = [x for x in subs if x is not e and x.d["args"] and x.d["args"][0] == a[0]]
                rep.ob("R-ONCE", "%s loop: exactly one delegate submit per job" % cname, not others, "the same job is submitted %d times" % (1 + len(others)), where_of(e.fn, e.node), trace_of(p))
                pre = ("call", e.d["func"])
                JF = ("attr", job, R["future"])
                linked = False
                for x in p.events:
                    if x.seq < e.seq:
                        continue
                    if x.kind == "store" and isinstance(x.d["target"], tuple) and x.d["target"][0] == "attr" and x.d["target"][1] == JF and isinstance(x.d["value"], tuple) and x.d["value"][:2] == pre:
                        linked = True
                    if x.kind == "call" and q.recv(x) == JF and x.d["args"] and isinstance(x.d["args"][0], tuple) and x.d["args"][0][:2] == pre:
                        linked = True
                regs = []
                for c in p.calls():
                    if q.call_name(c) == "add_done_callback" and isinstance(q.recv(c), tuple) and q.recv(c)[:2] == pre and c.d["args"]:
                        cbv = c.d["args"][0]
                        boundv = ()
                        if isinstance(cbv, tuple) and cbv[0] == "partial":
                            boundv = tuple(cbv[2]) + tuple(v for k, v in cbv[3])
                            cbv = cbv[1]
                        # the executor's own completion callback (the future's mirroring callback is the link itself):
                        # a method of the executor, or a function / closure bound to the executor's state
                        if isinstance(cbv, tuple) and cbv[0] == "attr" and it.type_of(cbv[1], p) == "C:" + ci.key:
                            regs.append(c)
                        elif isinstance(cbv, tuple) and cbv[0] in ("func", "closure") and any(isinstance(v, tuple) and v[0] == "attr" and it.type_of(v[1], p) == "C:" + ci.key for v in boundv):
                            regs.append(c)
                rep.ob("R-LINK", "%s loop: the delegate future is linked to this job's own future, one completion callback" % cname, linked and len(regs) == 1, "linked to the job's future: %s; callbacks registered on the delegate future: %d" % (linked, len(regs)), where_of(e.fn, e.node), trace_of(p, e.seq))
        rep.ob("R-ONCE", "%s loop: has hand-over paths" % cname, nh > 0, "", where_of(lay.loop))
        if cname == "RetryExecutor" and lay.callback is not None:
            cb = lay.callback
            ps, it = ctx.paths(cb, ci, depth=8, inline=std_inline, maxpaths=20000)
            DF = ("param", cb.params[1])
            for p in ps:
                if p.status != "return":
                    continue
                found = [b for b in p.evs("branch") if isinstance(b.d[0], tuple) and b.d[0][0] == "cmp" and b.d[0][1] in ("==", "is") and DF in (b.d[0][2], b.d[0][3]) and b.d[1] is True]
                resolved = [e for e in p.calls() if q.call_name(e) in ("set_result", "set_exception", "set_exception_info") and e.d["callee"] is None]
                if not resolved:
                    continue
                other = None
                if found:
                    other = found[0].d[0][2] if found[0].d[0][3] == DF else found[0].d[0][3]
                r = q.recv(resolved[0])
                if isinstance(r, tuple) and r[0] == "super":
                    r = r[2]
                ok = isinstance(other, tuple) and other[0] == "attr" and r == ("attr", other[1], R["future"])
                rep.ob("R-LINK", "retry callback: the outcome goes to the future of the job whose delegate completed", ok, "job selected by %s, outcome set on %s" % (fmt(found[0].d[0]) if found else None, fmt(r)), where_of(cb), trace_of(p))


EXC_CHANGERS = ("with_traceback", "add_note", "__setattr__", "__setstate__", "__init__")


def exc_untouched_rule(ctx, rep, rule):
    """the copy helpers hand the exception object on without changing it (shared with C13): no with_traceback() /
    add_note() on it, no store into its attributes (args, __traceback__, __cause__, __context__ ...).  The traceback a
    user sees on the propagated exception is the one it was raised with."""
    prog = ctx.prog
    from .c18 import may_raise as _may_raise
    n = 0
    for name in ("common:copy_exception", "common:copy_future_exception"):
        fi = prog.fn(name)
        ps, it = ctx.paths(fi, None, depth=1, may_raise=_may_raise)
        for p in ps:
            # the terms that are handed to a setter as "the exception" on this path
            excs = set()
            for e in p.calls():
                if q.call_name(e) in ("set_exception_info", "set_exception") and e.d["args"]:
                    a0 = e.d["args"][0]
                    excs.add(a0)
                    while isinstance(a0, tuple) and a0 and a0[0] == "call" and isinstance(a0[1], tuple) and a0[1][0] == "attr" and a0[1][2] in EXC_CHANGERS:
                        a0 = a0[1][1]
                        excs.add(a0)
            if not excs:
                continue
            n += 1
            bad = None
            for e in p.events:
                if e.kind == "call":
                    f = e.d["func"]
                    if isinstance(f, tuple) and f[0] == "attr" and f[2] in EXC_CHANGERS and f[1] in excs:
                        bad = (e, "%s.%s(...)" % (fmt(f[1]), f[2]))
                        break
                    if q.call_name(e) == "setattr" and e.d["args"] and e.d["args"][0] in excs:
                        bad = (e, "setattr(%s, ...)" % fmt(e.d["args"][0]))
                        break
                elif e.kind in ("store", "del"):
                    t = e.d.get("target")
                    if isinstance(t, tuple) and t and t[0] == "attr" and t[1] in excs:
                        bad = (e, "store into %s" % fmt(t))
                        break
            rep.ob(rule, "%s: the exception object is handed on unchanged" % fi.name, bad is None, "%s changes the exception object that is being propagated (its traceback / notes / attributes are no longer the ones it was raised with -- e.g. the traceback of whatever unrelated exception the resolving thread happens to be handling replaces its own)" % (bad[1] if bad else ""), where_of(bad[0].fn, bad[0].node) if bad else where_of(fi), trace_of(p, bad[0].seq) if bad else None)
    rep.require(n >= 3, "copy helpers: paths that store an exception not found")


def copy_complete_rule(ctx, rep, rule):
    """shared with the combinators (C14, C15) whose failure rows end in this helper"""
    prog = ctx.prog
    ce = prog.fn("common:copy_exception")
    FUT = ("param", ce.params[0])
    # every way out of copy_exception has stored the exception (a setter call that did not raise), unless the future
    # turned out to be decided already (InvalidStateError caught): a future that has no set_exception_info (every
    # stdlib Future) must reach the plain set_exception
    from .c18 import may_raise as _may_raise
    ps2, it2 = ctx.paths(ce, None, depth=0, may_raise=_may_raise)
    nout = 0
    for p in ps2:
        if p.status != "return":
            continue
        nout += 1
        sets = [e for e in p.calls() if q.call_name(e) in ("set_exception_info", "set_exception") and q.recv(e) == FUT]
        raised = set(r.d.get("from") if isinstance(r.d, dict) else None for r in p.evs("raise"))
        done = [e for e in sets if not any(r.seq == e.seq + 1 for r in p.evs("raise"))]
        lost = any("InvalidStateError" in (c.d.get("names") or []) or "InvalidStateError" in str(c.d.get("exc")) for c in p.evs("catch"))
        rep.ob(rule, "copy_exception: every exit has stored the exception or found the future already decided", bool(done) or lost, "a path returns without a completed set_exception_info()/set_exception() on the future (setter calls on the path: %s; the one for futures without set_exception_info -- every stdlib Future -- is missing): the failure is dropped and the future stays pending" % [q.call_name(e) for e in sets], where_of(ce), trace_of(p))
    rep.require(nout >= 2, "copy_exception: returning paths not found")


def _copy_helpers(ctx, rep):
    prog = ctx.prog
    ce = prog.fn("common:copy_exception")
    from .c18 import may_raise as _may_raise
    ps, it = ctx.paths(ce, None, depth=0, may_raise=_may_raise)
    FUT, EXC, TB = (("param", x) for x in ce.params[:3])
    n = 0
    for p in ps:
        sets = [e for e in p.calls() if q.call_name(e) in ("set_exception_info", "set_exception") and q.recv(e) == FUT]
        given = None
        for t, v in p.branch_atoms():
            if isinstance(t, tuple) and t[0] == "cmp" and t[1] == "is" and t[2] == EXC and t[3] == ("const", None):
                given = not v
        for e in sets:
            n += 1
            a0 = e.d["args"][0] if e.d["args"] else None
            if given is False:
                ok = q.exc_info_item(a0, 1)
                rep.ob("R-EXC-ID", "copy_exception: without an explicit exception, the one being handled is stored", ok, "%s(%s)" % (q.call_name(e), fmt(a0) if a0 else None), where_of(ce, e.node), trace_of(p, e.seq))
            else:
                rep.ob("R-EXC-ID", "copy_exception: the given exception object is stored as is", a0 == EXC, "%s(%s)" % (q.call_name(e), fmt(a0) if a0 else None), where_of(ce, e.node), trace_of(p, e.seq))
    rep.require(n >= 4, "copy_exception: setter calls not found")
    copy_complete_rule(ctx, rep, "R-EXC-ID")
    exc_untouched_rule(ctx, rep, "R-EXC-ID")
    cfe = prog.fn("common:copy_future_exception")
    ps, it = ctx.paths(cfe, None, depth=0)
    F1, F2 = ("param", cfe.params[0]), ("param", cfe.params[1])
    for p in ps:
        c = [e for e in p.calls() if e.d["callee"] is ce]
        rep.require(len(c) == 1, "copy_future_exception: expected one copy_exception call per path")
        from ..roles import bound
        b = bound(c[0], prog)
        a1 = b.get(ce.params[1])
        ok = b.get(ce.params[0]) == F2 and isinstance(a1, tuple) and (a1[:2] == ("call", ("attr", F1, "exception")) or (a1[0] == "unpack" and a1[2] == 0 and a1[1][:2] == ("call", ("attr", F1, "exception_info"))))
        rep.ob("R-EXC-ID", "copy_future_exception passes the source future's own exception object", ok, "copy_exception(%s)" % dict((k, fmt(v)) for k, v in b.items() if isinstance(v, tuple)), where_of(cfe, c[0].node), trace_of(p))
    ts = prog.fn("common:try_set_result")
    ps, it = ctx.paths(ts, None, depth=0)
    for p in ps:
        s = [e for e in p.calls() if q.call_name(e) == "set_result"]
        rep.ob("R-EXC-ID", "try_set_result stores the given value in the given future", len(s) == 1 and q.recv(s[0]) == ("param", ts.params[0]) and s[0].d["args"] == (("param", ts.params[1]),), "", where_of(ts))
    sy = prog.cls("SyncExecutor")
    sm = sy.methods.get("submit")
    ownsy = set(m.key for c in sy.mro() if isinstance(c, ClassInfo) for m in c.methods.values() if m.name != "__init__")
    ps, it = ctx.paths(sm, sy, depth=3, inline=lambda callee, ev, path: callee.name == "ensure_alive" or callee.key in ownsy or (callee.owner is None and callee.parent is None and callee.module is sy.module and callee.name.startswith("_")))
    kinds = set()
    for p in ps:
        if p.status != "return":
            continue
        uc = [e for e in p.calls() if e.d.get("user")]
        if len(uc) != 1:
            continue
        res = ("call", uc[0].d["func"], uc[0].d["args"], uc[0].d["kwargs"], None)
        if p.evs("catch"):
            kinds.add("raised")
            c = [e for e in p.calls() if e.d["callee"] is ce]
            ok = len(c) == 1 and c[0].d["args"] == (p.value,) and not c[0].d["kwargs"]
            rep.ob("R-EXC-ID", "SyncExecutor.submit: the exception being handled is stored in the returned future", ok, "", where_of(sm), trace_of(p))
            rep.ob("R-EXC-ID", "SyncExecutor.submit catches Exception from the callable", p.evs("catch")[0].d["names"] in (["Exception"], None), "", where_of(sm))
        else:
            kinds.add("returned")
            s = [e for e in p.calls() if q.call_name(e) == "set_result" and q.recv(e) == p.value]
            rep.ob("R-EXC-ID", "SyncExecutor.submit: the callable's result is stored in the returned future", len(s) == 1 and s[0].d["args"] == (res,), "", where_of(sm), trace_of(p))
    rep.ob("R-EXC-ID", "SyncExecutor.submit: one call of the callable, whose result or exception becomes the future's outcome", kinds == {"raised", "returned"}, "paths found: %s" % sorted(kinds), where_of(sm))


FACT = set()


def _gate_only(callee, ev, path):
    return callee.name == "ensure_alive"
