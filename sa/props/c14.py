"""C14 -- f_and / f_or are `and` / `or` folds over the order in which inputs finish.

Decided:
  R-TABLE    the decision table extracted from handle_done (with get_state_update inlined) for OrOperation and
             AndOperation equals the specified table over {cancelled, exception, truthy, falsy} x {last, not last}:
             whether the operation is decided, what the output receives, and that every remaining input is
             handed to the cancel loop
  R-ATOMIC   the 'already decided' test, the removal of the reporting input and the decision are one critical
             section; the output is written and the losers are cancelled outside it
  R-DUPKEY   callbacks are registered per argument while state is keyed per distinct future: removal is idempotent
  R-FANOUT   every input gets chain_cancel(output, input) and a done-callback; a single input is returned as is
Not decided: real-time linearisation of concurrent completions.
"""
from ..core import where_of, trace_of
from ..interp import fmt, contains, subterms
from ..model import AnalysisError
from .. import q
from .. import roles
from .c03 import terminal_on

KINDS = ("cancelled", "exception", "truthy", "falsy")


def oracle(op, kind, last):
    """(decided, out, cancel_rest)"""
    if op == "or":
        if kind == "truthy":
            return (True, "res", True)
        if not last:
            return (False, None, False)
        return (True, {"falsy": "res", "exception": "exc", "cancelled": "cxl"}[kind], True)
    if kind == "cancelled":
        return (True, "cxl", True)
    if kind == "exception":
        return (True, "exc", True)
    if kind == "falsy":
        return (True, "res", True)
    if last:
        return (True, "res", True)
    return (False, None, False)


def check(ctx, rep):
    prog = ctx.prog
    rep.rule("R-TABLE", "for every (how the reporting input finished, whether it is the last one) the path of handle_done decides / leaves open the operation, gives the output the input's result / exception / a cancel, and cancels every remaining input, exactly as the and/or fold specifies")
    rep.rule("R-ATOMIC", "`self.done` is tested, the input removed and the decision stored under one hold of the operation's lock; writing the output and cancelling inputs happen without it")
    rep.rule("R-DUPKEY", "done-callbacks are registered once per argument but the remaining-inputs map has one key per distinct future: removing the reporting input must tolerate that it was removed before")
    rep.rule("R-FANOUT", "the constructor registers chain_cancel(output, input) and the done-callback for every input; f_or/f_and return a single input unchanged")
    base = prog.cls("BoolOperation")
    for cname, op in (("OrOperation", "or"), ("AndOperation", "and")):
        ci = prog.cls(cname)
        hd = roles.input_callback(ctx, ci)
        ps, it = ctx.paths(hd, ci, depth=6)
        F = ("param", hd.params[1])
        OR_ = roles.op_roles(ctx, ci)
        rep.require(OR_.rest is not None, "%s: the map of outstanding inputs was not identified" % cname)
        OUT, L, DONE, REST = OR_.OUT, OR_.LOCK, OR_.DONE, OR_.REST
        REST_[0] = REST
        rest = None
        covered = set()
        for p in ps:
            if p.status == "raise":
                rep.ob("R-TABLE", "%s.handle_done does not raise" % cname, False, "handle_done can raise %s [%s]" % (fmt(p.value), q.path_sig(p)[:120]), where_of(hd), trace_of(p))
                continue
            atoms = {}
            for e in p.evs("branch"):
                t, v = e.d
                s = fmt(t)
                if t == DONE:
                    atoms.setdefault("done", v)
                elif t == REST:
                    atoms.setdefault("more", v)
                elif isinstance(t, tuple) and t[0] == "call" and t[1] == ("attr", F, "cancelled"):
                    atoms.setdefault("cancelled", v)
                elif isinstance(t, tuple) and t[0] == "call" and t[1] == ("attr", F, "exception"):
                    atoms.setdefault("exception", v)
                elif isinstance(t, tuple) and t[0] == "call" and t[1] == ("attr", F, "result"):
                    atoms.setdefault("truthy", v)
            # effects
            dec = [e for e in p.evs("store") if e.d["target"] == DONE and e.d["value"] == ("const", True)]
            res = [e for e in p.calls() if terminal_on(e, OUT, it, p) and q.call_name(e) == "set_result"]
            exc = [e for e in p.calls() if terminal_on(e, OUT, it, p) and q.call_name(e) in ("set_exception", "set_exception_info")]
            cxl = [e for e in p.calls() if q.call_name(e) == "cancel" and q.recv(e) == OUT]
            cancels = [e for e in p.calls() if q.call_name(e) == "cancel" and isinstance(q.recv(e), tuple) and q.recv(e)[0] == "elem"]
            cancel_rest = any(_is_remaining(q.recv(e)[1]) for e in cancels)
            out = "res" if res else "exc" if exc else "cxl" if cxl else None
            if len(res) + len(exc) + len(cxl) > 1:
                out = "several"
            if atoms.get("done") is True:
                ok = not dec and out is None and not cancels
                rep.ob("R-TABLE", "%s: a report after the decision changes nothing" % cname, ok, "already decided, yet handle_done %s" % ("writes the output" if out else "cancels inputs" if cancels else "re-decides"), where_of(hd), trace_of(p))
                # removal must not even happen (the input map is not touched after the decision)
                continue
            # R-ATOMIC
            tests = [e for e in p.evs("branch") if e.d[0] == DONE]
            rem = [e for e in p.events if (e.kind == "del" and e.d["target"][:2] == ("sub", REST)) or (e.kind == "call" and q.call_name(e) in ("pop", "discard", "remove") and q.recv(e) == REST)]
            rep.ob("R-ATOMIC", "%s: decided-test, removal and decision under the lock" % cname, bool(tests) and all(q.has_lock(e, L) for e in tests + rem + dec) and len(rem) >= 1 and _one_hold(p, L, tests + rem + dec),
                   "the test of self.done, the removal of the input and the store of the decision must share one hold of self.lock", where_of(hd), trace_of(p))
            for e in res + exc + cxl + cancels:
                rep.ob("R-ATOMIC", "%s: output written / inputs cancelled outside the lock" % cname, not q.has_lock(e, L), "%s runs with self.lock held" % fmt(e.d["func"]), where_of(e.fn, e.node), trace_of(p, e.seq))
            for e in rem:
                if e.kind == "del":
                    guarded = any(b.seq < e.seq and isinstance(b.d[0], tuple) and b.d[0][0] == "cmp" and b.d[0][1] == "in" and b.d[0][2] == F and b.d[1] is True for b in p.evs("branch"))
                    rep.ob("R-DUPKEY", "%s: removal of the reporting input is idempotent" % cname, guarded, "`del self.fs[f]` raises KeyError when the same future was passed twice (its callback fires once per occurrence, the map has one key)", where_of(e.fn, e.node), trace_of(p, e.seq))
                else:
                    idem = (q.call_name(e) == "pop" and len(e.d["args"]) == 2) or q.call_name(e) == "discard"
                    rep.ob("R-DUPKEY", "%s: removal of the reporting input is idempotent" % cname, idem and e.d["args"][:1] == (F,), "%s(%s) raises when the same future was passed twice" % (q.call_name(e), ", ".join(fmt(a) for a in e.d["args"])), where_of(e.fn, e.node), trace_of(p, e.seq))
            # value given to the output is this input's
            for e in res:
                val = e.d["args"][0] if q.recv(e) == OUT and e.d["args"] else None
                rep.ob("R-TABLE", "%s: the output's value is the reporting input's result" % cname, isinstance(val, tuple) and val[0] == "call" and val[1] == ("attr", F, "result"), "set_result(%s)" % (fmt(val) if val else "?"), where_of(e.fn, e.node))
            # the cases this path covers.  A path that never tested whether inputs remain stands for
            # 'inputs remain' when its cancel loop iterates and for 'none remain' when it does not
            more = atoms.get("more")
            if more is None and dec:
                more = cancel_rest
            for kind in KINDS:
                for last in (True, False):
                    if more is not None and more == last:
                        continue
                    if "cancelled" in atoms and atoms["cancelled"] != (kind == "cancelled"):
                        continue
                    if "exception" in atoms and kind != "cancelled" and atoms["exception"] != (kind == "exception"):
                        continue
                    if "truthy" in atoms and kind in ("truthy", "falsy") and atoms["truthy"] != (kind == "truthy"):
                        continue
                    if "exception" in atoms and atoms["exception"] and kind == "cancelled" and "cancelled" not in atoms:
                        continue
                    want = oracle(op, kind, last)
                    got = (bool(dec), out, cancel_rest if want[0] else False)
                    covered.add((kind, last))
                    # when the input is the last one there is nothing left to cancel: either answer is right
                    ok = got[0] == want[0] and got[1] == want[1] and (last or not want[0] or got[2] == want[2]) and (want[0] or not cancels)
                    rep.ob("R-TABLE", "%s: input finished %s, %s" % (cname, kind, "last" if last else "others outstanding"), ok,
                           "specified (decided=%s, output=%s, cancel remaining=%s) but the code does (decided=%s, output=%s, cancel remaining=%s)" % (want + (bool(dec), out, cancel_rest)), where_of(hd), trace_of(p))
        missing = [(k, l) for k in KINDS for l in (True, False) if (k, l) not in covered]
        rep.ob("R-TABLE", "%s: all 8 cases reached by some path" % cname, not missing, "no path of handle_done handles %s as specified (for a deciding case with inputs outstanding this means the remaining inputs are not cancelled)" % missing, where_of(hd))

    # ---- constructor fan-out
    init = base.methods.get("__init__")
    rep.require(init is not None, "BoolOperation.__init__ not found")
    ps, it = ctx.paths(init, prog.cls("OrOperation"), depth=1, inline=_no_init_inline)
    saw = False
    for p in ps:
        regs = [e for e in p.calls() if q.call_name(e) == "add_done_callback" and isinstance(q.recv(e), tuple) and q.recv(e)[0] == "elem"]
        chains = [e for e in p.calls() if e.d["callee"] is not None and e.d["callee"].name == "chain_cancel"]
        if not regs:
            continue
        saw = True
        r = regs[0]
        it_term = q.recv(r)[1]
        rep.ob("R-FANOUT", "BoolOperation.__init__: a done-callback per input", it_term == ("param", init.params[1]), "callbacks are registered over %s, not over the inputs" % fmt(it_term), where_of(init, r.node))
        cb = r.d["args"][0]
        inner = roles.unwrap(ctx, p, cb, it)
        rep.ob("R-FANOUT", "BoolOperation.__init__: the callback is a method of the operation", isinstance(inner, tuple) and inner[0] == "attr" and inner[1] == ("param", "self") and prog.cls("OrOperation").lookup(inner[2])[1] is not None, "registered callback is %s" % fmt(inner), where_of(init, r.node))
        OUT0 = roles.op_roles(ctx, prog.cls("OrOperation")).OUT
        outv = p.heap.get(OUT0, OUT0)
        okc = any(c.d["args"] in ((OUT0, q.recv(r)), (outv, q.recv(r))) for c in chains)
        rep.ob("R-FANOUT", "BoolOperation.__init__: chain_cancel(output, input) per input", okc, "cancelling the output would not reach this input", where_of(init, r.node))
    rep.require(saw, "BoolOperation.__init__: registration loop not found")
    for cname2 in ("OrOperation", "AndOperation"):
        ps2, it2 = ctx.paths(init, prog.cls(cname2), depth=5, immediate_callbacks=True, unroll=2)
        early = [e for p in ps2 for e in p.evs("loop") if e.fn is init and e.d[0] == "exit" and e.d[1] == "break"]
        rep.ob("R-FANOUT", "BoolOperation.__init__[%s]: the registration loop visits every input" % cname2, not early, "the loop over the inputs can be left early: the remaining inputs get neither chain_cancel nor a callback", where_of(init, early[0].node) if early else where_of(init))
    _chain_cancel(ctx, rep)
    for fname, cname in (("f_or", "OrOperation"), ("f_and", "AndOperation")):
        fi = prog.fn("bool:" + fname)
        # helpers of the module inlined (a shared `start_operation(cls, inputs, ...)` is fine), constructors and
        # metrics bookkeeping not
        ps, it = ctx.paths(fi, None, depth=2, inline=lambda callee, ev, path: callee.module is fi.module and callee.owner is None and callee.parent is None)
        kinds = set()
        for p in ps:
            if p.status != "return":
                continue
            mk = [e for e in p.calls() if e.d["func"] == ("class", prog.cls(cname).key)]
            FS = ("seq", (), ("param", fi.vararg), 0)
            more = None
            for t_, v_, b_ in q.atoms(p):
                if t_ == FS or t_ == ("param", fi.vararg):
                    more = v_
                elif isinstance(t_, tuple) and t_[0] == "call" and t_[1] == ("name", "len") and t_[2] in ((FS,), (("param", fi.vararg),)):
                    more = v_
            if more is not None:
                rep.ob("R-FANOUT", "%s: a lone input is returned as is, several inputs are combined" % fname, bool(mk) == bool(more), "with %s further inputs the function %s" % ("some" if more else "no", "builds the operation" if mk else "returns its first input alone (the others are ignored)"), where_of(fi), trace_of(p))
            if not mk:
                kinds.add("single")
                rep.ob("R-FANOUT", "%s: a single input is returned as is" % fname, p.value == ("param", fi.params[0]), "returns %s" % fmt(p.value), where_of(fi))
            else:
                kinds.add("many")
                a = list(roles.bound(mk[0], prog).values())[0] if roles.bound(mk[0], prog) else None
                a = q.deref(p, a) if isinstance(a, tuple) else a
                ok = a == ("bin", "+", ("list", (("param", fi.params[0]),)), ("listof", ("seq", (), ("param", fi.vararg), 0), ())) or (isinstance(a, tuple) and a[0] in ("bin", "list", "seq") and contains(a, ("param", fi.params[0])) and contains(a, ("param", fi.vararg)))
                rep.ob("R-FANOUT", "%s: the operation is built over all inputs" % fname, ok and isinstance(p.value, tuple) and p.value[0] == "attr" and p.value[2] == roles.op_roles(ctx, prog.cls(cname)).out, "constructed with %s" % (fmt(a) if a else None), where_of(fi, mk[0].node))
        rep.require(kinds == {"single", "many"}, "%s: expected single-input and many-input paths" % fname)
    # the failure rows end in copy_exception: it must store the exception on every way out (shared with C01)
    from .c01 import copy_complete_rule
    copy_complete_rule(ctx, rep, "R-TABLE")



def _chain_cancel(ctx, rep, rule="R-FANOUT"):
    prog = ctx.prog
    cc = prog.fn("base:chain_cancel")
    ps, it = ctx.paths(cc, None, depth=1)
    rep.require(len(cc.params) == 2 and not cc.vararg, "chain_cancel no longer has the shape chain_cancel(outer, inner): the rule 'the callback cancels the inner future iff the outer was cancelled' is stated for one inner future per call and has to be re-confirmed for %s(%s%s)" % (cc.name, ", ".join(cc.params), ", *" + cc.vararg if cc.vararg else ""))
    for p in ps:
        regs = [e for e in p.calls() if q.call_name(e) == "add_done_callback"]
        ok = len(regs) == 1 and q.recv(regs[0]) == ("param", cc.params[0])
        rep.ob(rule, "chain_cancel registers on the outer future", ok, "", where_of(cc))
        if not ok:
            continue
        cb = regs[0].d["args"][0]
        inner = roles.unwrap(ctx, p, cb, it)
        if not (isinstance(inner, tuple) and inner[0] == "closure"):
            rep.ob(rule, "chain_cancel callback cancels the inner future iff the outer was cancelled", False, "callback %s not analysable" % fmt(inner), where_of(cc))
            continue
        sub = it.closures[inner[2]][0]
        ps2, it2 = ctx.paths(sub, None, depth=0)
        for p2 in ps2:
            was = None
            for t, v in p2.branch_atoms():
                if isinstance(t, tuple) and t[0] == "call" and t[1] == ("attr", ("param", sub.params[0]), "cancelled"):
                    was = v
            cs = [e for e in p2.calls() if q.call_name(e) == "cancel"]
            ok2 = was is not None and ((len(cs) == 1 and q.term_name(q.recv(cs[0])) == cc.params[1]) if was else not cs)
            rep.ob(rule, "chain_cancel callback cancels the inner future iff the outer was cancelled", ok2, "outer cancelled=%s but %d cancel calls" % (was, len(cs)), where_of(sub), trace_of(p2))


REST_ = [None]


def _no_init_inline(callee, ev, path):
    return roles.inline_wrapper_ctor(callee, ev, path)


def _is_remaining(it_term):
    """iteration over the remaining inputs: list(self.fs.keys()) / self.fs / list(self.fs) (possibly + [out])"""
    for s in subterms(it_term):
        if s == REST_[0]:
            return True
    return False


def _one_hold(p, L, evs):
    if not evs:
        return True
    lo = min(e.seq for e in evs)
    hi = max(e.seq for e in evs)
    return not [x for x in p.evs("exit") if x.d[1] == L and lo < x.seq < hi]
