"""C04 -- no deadlock among API calls and internal threads, including nested submission.

Decided (lock discipline, from deeply inlined paths of every entry point, with callbacks that may run
immediately at registration followed on the spot):
  R-LOCK-USER   no non-reentrant lock is held where user code can run: calls of user-supplied callables and
                policy objects, dispatch of done-callbacks, and completion / cancellation / callback registration
                on futures that users can hold (their callbacks run synchronously)
  R-LOCK-KIND   a lock acquired while the same lock (same access path) is already held is re-entrant
  R-LOCK-BLOCK  no Event.wait / Thread.join / executor shutdown with a library lock held (one reasoned exception)
  R-LOCK-OBJ    within one layer (an executor, its gate, its counters and the futures it creates) the relation
                'held -> acquired' over lock roles is acyclic
  R-GATE-REENTRANT  the shutdown gate, held by submit() across user code, is re-entrant
  R-GATE-FIRST  shutdown() sets the executor's own flag before it calls the delegate's / base class's shutdown (a
                callback the delegate runs under its own non-reentrant shutdown lock is refused at the gate instead
                of blocking on that lock; shared with C11)
  R-BLOCK-SELF  the throttle executor's blocking submit waits on the queue length only, so a running callable's
                nested submit never waits for its own caller (rows shared with C07)
Not decided: freedom from deadlock of arbitrary stacks and client programs; cross-layer cycles through the
per-future locks of different layers cannot be separated at class granularity.
"""
from ..core import where_of, trace_of
from ..interp import fmt, contains, subterms
from ..model import AnalysisError, ClassInfo
from .. import q
from .. import roles
from .c11 import helper_lock_field

DISPATCHING = {"set_result", "set_exception", "set_exception_info", "cancel", "add_done_callback"}
DEPTH = 8


def roots(ctx):
    prog = ctx.prog
    out = []
    seen = set()
    classes = list(ctx.executor_classes()) + list(ctx.future_classes())
    for n in ("PollDescriptor", "BoundCallable", "Zipper", "OrOperation", "AndOperation", "OutputFuture", "WeakCallback", "ShutdownAwareEventHandler"):
        try:
            classes.append(prog.cls(n))
        except AnalysisError:
            pass
    for o, t, n, i in ctx.types.thread_targets:
        out.append((t, t.owner, "worker thread"))
    # library callbacks: methods / functions passed to add_done_callback, weakref callbacks, atexit hooks
    for fi in prog.functions.values():
        if fi.parent is not None:
            continue
        for ci in ctx.instances(fi):
            ps, it = ctx.paths(fi, ci, depth=0)
            for p in ps:
                for e in p.calls():
                    if q.call_name(e) in ("add_done_callback", "register") and e.d["args"]:
                        cb = e.d["args"][0]
                        if isinstance(cb, tuple) and cb[0] == "new":
                            # a wrapper object around the real callback (WeakCallback(x)): unwrap its argument
                            for c in p.calls():
                                if c.d["func"] == ("class", cb[1]) and it.site(c.node) == cb[2] and c.d["args"]:
                                    cb = c.d["args"][0]
                                    break
                        if isinstance(cb, tuple) and cb[0] == "partial":
                            cb = cb[1]
                        if isinstance(cb, tuple) and cb[0] == "attr":
                            oc = it.class_of(cb[1], p)
                            if oc is not None:
                                o2, m = oc.lookup(cb[2])
                                if m is not None:
                                    for sc in ctx.instances(m):
                                        k = (m.key, sc.key if sc else None)
                                        if k not in seen and (sc is None or oc in sc.mro() or sc in oc.mro()):
                                            seen.add(k)
                                            out.append((m, sc, "done-callback"))
                        elif isinstance(cb, tuple) and cb[0] == "func":
                            m = prog.functions.get(cb[1])
                            k = (m.key, None)
                            if m is not None and k not in seen:
                                seen.add(k)
                                out.append((m, None, "done-callback"))
    for ci in classes:
        for c in ci.mro():
            if isinstance(c, ClassInfo):
                for n, m in c.methods.items():
                    if ci.lookup(n)[1] is m and (not n.startswith("_") or n in ("__call__", "__init__")) and not n.startswith("with_"):
                        k = (m.key, ci.key)
                        if k not in seen:
                            seen.add(k)
                            out.append((m, ci, "public method"))
    for mod in prog.modules.values():
        if ".futures" in mod.name:
            for fi in mod.functions.values():
                if fi.name.startswith("f_") or fi.name in ("wrap", "chain_cancel", "timeout_executor"):
                    out.append((fi, None, "combinator"))
    # private methods of the future classes that link the future to a delegate (they register one of the future's own
    # methods as done-callback): when the delegate is already done the whole resolution runs from inside them
    for ci in ctx.future_classes():
        for c in ci.mro():
            if not isinstance(c, ClassInfo):
                continue
            for n, m in c.methods.items():
                if ci.lookup(n)[1] is not m or (m.key, ci.key) in seen:
                    continue
                ps, it = ctx.paths(m, ci, depth=0)
                if any(q.call_name(e) == "add_done_callback" and e.fn is m and e.d["args"] and isinstance(e.d["args"][0], tuple) and e.d["args"][0][:2] == ("attr", ("param", "self")) for p in ps for e in p.calls()):
                    seen.add((m.key, ci.key))
                    out.append((m, ci, "delegate link"))
    return out


def lock_role(it, p, lockterm):
    """(owner class name, field) of a lock term, or None"""
    if isinstance(lockterm, tuple) and lockterm[0] == "attr":
        t = it.type_of(lockterm[1], p)
        if t and t.startswith("C:"):
            return (t[2:].split(":")[-1], lockterm[2])
        if isinstance(lockterm[1], tuple) and lockterm[1][0] == "new":
            return (lockterm[1][1].split(":")[-1], lockterm[2])
        return ("?", lockterm[2])
    if isinstance(lockterm, tuple) and lockterm[0] == "global":
        return ("<module %s>" % lockterm[1].split(".")[-1], lockterm[2])
    if isinstance(lockterm, tuple) and lockterm[0] == "extnew":
        return ("<local>", lockterm[1])
    return None


_SUBMIT_ROLES = {}


def submit_lock_roles(ctx, cls):
    """lock roles (owner class, field) acquired somewhere along cls.submit(), helpers inlined"""
    if cls.key not in _SUBMIT_ROLES:
        out = []
        o, sm = cls.lookup("submit")
        if sm is not None:
            try:
                ps, it = ctx.paths(sm, cls, depth=4, maxpaths=6000)
            except AnalysisError:
                ps, it = ctx.paths(sm, cls, depth=2, maxpaths=6000)
            for p in ps:
                for e in p.events:
                    if e.kind == "enter":
                        r = lock_role(it, p, e.d[1])
                        if r and r not in out and r[0] in EXEC_LEVEL(ctx):
                            out.append(r)
        _SUBMIT_ROLES[cls.key] = out
    return _SUBMIT_ROLES[cls.key]


def EXEC_LEVEL(ctx):
    """classes whose locks exist once per executor (not once per future)"""
    if getattr(ctx, "_exec_level", None) is None:
        helper, _f = helper_lock_field(ctx)
        ctx._exec_level = set(c.name for c in ctx.executor_classes()) | {helper.name}
    return ctx._exec_level


def fresh(term, p):
    """a future object allocated on this very path (nobody else can hold it yet)"""
    return isinstance(term, tuple) and term[0] in ("new", "extnew")


def check(ctx, rep):
    prog = ctx.prog
    rep.rule("R-LOCK-USER", "no non-reentrant lock (threading.Lock) is held at a point where user code can run: a call of a user-supplied callable or policy method, the dispatch of done-callbacks, or set_result/set_exception/cancel/add_done_callback on a future that was not allocated on this very path")
    rep.rule("R-LOCK-KIND", "a lock that is acquired while the same lock (same object path) is already held by this thread is an RLock")
    rep.rule("R-LOCK-BLOCK", "no Event.wait, Thread.join or executor shutdown() is called with a library lock held")
    rep.rule("R-LOCK-OBJ", "per layer (executor + gate + counters + the futures it creates) the 'held -> acquired' relation over lock roles (owner class, field) has no cycle")
    rep.rule("R-GATE-REENTRANT", "ShutdownHelper's lock, which submit() holds while user code may run (callables of the sync executor, map functions and callbacks invoked inline), is re-entrant so that nested submission to the same executor returns")

    helper, gatefield = helper_lock_field(ctx)
    kind = ctx.types.lock_kind_of_field(helper, gatefield)
    rep.ob("R-GATE-REENTRANT", "ShutdownHelper.%s is an RLock" % gatefield, kind == "RLock", "the shutdown gate is a %s: ex.submit(lambda: ex.submit(f)) on a sync-based executor blocks on itself" % kind, helper.module.relpath)

    # callbacks are dispatched outside the dispatching future's own lock (shared with C02)
    from .c02 import trans_rule
    futc = prog.cls("_Future")
    trans_rule(ctx, rep, [c for c in prog.subclasses(futc, strict=True)], roles.proto(ctx).dispatch, roles.proto(ctx).lock)

    PROTO = roles.proto(ctx)
    rs = roots(ctx)
    rep.count("entry points analysed (public methods, worker loops, callbacks, combinators)", len(rs), 120)
    n_user = n_disp = n_enter = n_block = 0
    edges = {}
    reentry = {}
    locks_seen = {}
    for m, ci, why in sorted(rs, key=lambda x: (x[0].key, x[1].key if x[1] else "")):
        ps = None
        main = DEPTH if ctx.tier == "quick" else DEPTH + 2
        for dpt in ((main, 6, 4, 3) if why != "combinator" else ((3, 2) if ctx.tier == "quick" else (5, 4, 3))):
            try:
                ps, it = ctx.paths(m, ci, depth=dpt, immediate_callbacks=True, maxpaths=6000, record_field_types=True)
                if dpt != main:
                    rep.note("%s analysed with inlining depth %d (%d paths)" % (m.qualname, dpt, len(ps)))
                break
            except AnalysisError:
                ctx.stats["truncated"] -= 1
                continue
        if ps is None:
            raise AnalysisError("%s: path enumeration does not fit even at depth 3" % m.qualname)
        rname = "%s%s" % (m.qualname, "[%s]" % ci.name if ci and ci is not m.owner else "")
        for p in ps:
            for e in p.events:
                if e.kind == "enter":
                    n_enter += 1
                    lk = e.d
                    role = lock_role(it, p, lk[1])
                    if role:
                        locks_seen.setdefault(role, set()).add(lk[2])
                    # e.locks = locks held *before* this acquisition.  Taking a lock this thread already holds does
                    # not wait (it has to be re-entrant, checked below), so it orders nothing.
                    again = any(h[1] == lk[1] for h in e.locks)
                    for h in e.locks:
                        if again and h[1] != lk[1]:
                            continue
                        if h[1] == lk[1]:
                            rep.ob("R-LOCK-KIND", "%s re-acquired while held" % _role_s(role), lk[2] == "RLock",
                                   "%s (%s) is acquired at %s while the same lock is already held on this path from %s: a %s blocks on itself" % (fmt(lk[1]), lk[2], e.where(), rname, lk[2]), where_of(e.fn, e.node), trace_of(p, e.seq))
                        else:
                            hr = lock_role(it, p, h[1])
                            if hr and role and hr != role:
                                edges.setdefault((hr, role), (e, p, rname, h[1], lk[1]))
                elif e.kind == "call":
                    d = e.d
                    name = q.call_name(e)
                    hard = [l for l in e.locks if l[2] == "Lock"]
                    # a delegate's submit() may run the callable on the spot (the sync executor), and that callable
                    # may submit to this same executor: the locks submit() takes are then taken *after* every
                    # executor-level lock held here.  (Re-entrant acquisition of a lock already held does not wait,
                    # and a future's own lock is a different object for every future: neither gives an order.)
                    r0 = q.recv(e)
                    if name == "submit" and d["callee"] is None and isinstance(r0, tuple) and r0[0] == "attr" and e.locks:
                        xt = it.type_of(r0[1], p)
                        xc = ctx.types.cls_of(xt) if xt else None
                        if xc is not None and xc in ctx.executor_classes() and r0[2] == roles.delegate_field(ctx, xc):
                            held_roles = [(lock_role(it, p, h[1]), h) for h in e.locks]
                            held_set = set(hr for hr, h in held_roles if hr)
                            for a_role in submit_lock_roles(ctx, xc):
                                if a_role in held_set:
                                    continue
                                for hr, h in held_roles:
                                    if hr and hr[0] in EXEC_LEVEL(ctx) and hr != a_role:
                                        reentry.setdefault((hr, a_role), (e, p, rname, h[1], xc.name))
                    if d.get("user") and isinstance(d["func"], tuple) and d["func"][0] == "elem" and isinstance(d["func"][1], tuple) and d["func"][1][0] == "attr" and d["func"][1][2] == PROTO.cbs:
                        # a future's done-callbacks run with that future's own lock held (even a re-entrant one):
                        # a callback that touches a second future takes the two locks in one order, a callback of
                        # the second future that touches the first takes them in the other
                        F_ = d["func"][1][1]
                        own = [l for l in e.locks if l[1] == ("attr", F_, PROTO.lock)]
                        rep.ob("R-LOCK-USER", "%s: done-callbacks of %s run without that future's own lock" % (rname, fmt(F_)), not own, "the callbacks of %s are dispatched while %s is still held on this path (reached from %s): two futures whose callbacks touch each other deadlock on the order of their locks" % (fmt(F_), fmt(("attr", F_, PROTO.lock)), rname), where_of(e.fn, e.node), trace_of(p, e.seq))
                    if d.get("user"):
                        n_user += 1
                        key = "%s: user code %s" % (e.fn.qualname, _callee_s(d["func"]))
                        rep.ob("R-LOCK-USER", key, not hard, "user code %s runs with the non-reentrant %s held (reached from %s)" % (fmt(d["func"]), ", ".join(fmt(l[1]) for l in hard), rname), where_of(e.fn, e.node), trace_of(p, e.seq))
                    elif d["callee"] is None and name in DISPATCHING and isinstance(d["func"], tuple) and d["func"][0] == "attr":
                        r = d["func"][1]
                        if isinstance(r, tuple) and r[0] == "super":
                            r = r[2]
                        if fresh(r, p) and name != "add_done_callback":
                            continue
                        if name == "add_done_callback" and fresh(r, p):
                            continue
                        if it.type_of(r, p) in ("E:list", "E:dict", "E:set", "E:deque", "E:Event"):
                            continue
                        n_disp += 1
                        key = "%s: %s on a future users may hold" % (e.fn.qualname, name)
                        rep.ob("R-LOCK-USER", key, not hard, "%s.%s() runs that future's done-callbacks synchronously, with the non-reentrant %s held (reached from %s)" % (fmt(r), name, ", ".join(fmt(l[1]) for l in hard), rname), where_of(e.fn, e.node), trace_of(p, e.seq))
                    if d["callee"] is None and e.locks:
                        r = q.recv(e)
                        rt = it.type_of(r, p) if r is not None else None
                        blocking = (name == "wait" and rt == "E:Event") or (name == "join" and rt == "E:Thread") or (name == "shutdown" and isinstance(r, tuple) and r[0] == "attr" and r[2] == "_delegate")
                        if blocking:
                            n_block += 1
                            key = "%s: %s() with a lock held" % (e.fn.qualname, name)
                            held = [fmt(l[1]) for l in e.locks]
                            if rname.startswith("ThrottleExecutor.submit") and name == "wait" and e.d["args"] and all(lock_role(it, p, l[1]) == ("ShutdownHelper", gatefield) for l in e.locks):
                                # only in blocking mode: the flag kept from the constructor's `block` was found true
                                bf = roles.ctor_param_fields(ctx, prog.cls("ThrottleExecutor"), "block")
                                inmode = any(q.truth_of(p, ("attr", ("param", "self"), f)) is True for f in bf)
                                rep.ob("R-LOCK-BLOCK", "ThrottleExecutor.submit waits only in blocking mode", inmode, "submit() reaches the wait on a path where the blocking-mode flag (%s) was not found true: an executor created without block=True must never block in submit() (a callable that resubmits to its own full executor would wait for itself)" % ", ".join(bf), where_of(e.fn, e.node), trace_of(p, e.seq))
                                key = "ThrottleExecutor.submit (blocking mode): timed wait() inside the shutdown gate"
                                rep.exception("R-LOCK-BLOCK", key, "blocking mode of ThrottleExecutor: submit() is documented to block, and it does so inside the shutdown gate; the wait is timed (30 s) and re-checks the shutdown flag")
                                continue
                            rep.ob("R-LOCK-BLOCK", key, False, "%s.%s() blocks while %s is held (reached from %s)" % (fmt(r), name, ", ".join(held), rname), where_of(e.fn, e.node), trace_of(p, e.seq))
    rep.count("user-code call events", n_user, 40)
    rep.count("future completion/cancel/registration events on shared futures", n_disp, 40)
    rep.count("lock acquisitions", n_enter, 200)
    rep.ob("R-LOCK-BLOCK", "blocking calls examined", True, "%d blocking calls with a lock held were examined" % n_block)
    rep.note("lock roles seen: %s" % sorted("%s.%s:%s" % (a, b, "/".join(sorted(str(x) for x in k))) for (a, b), k in locks_seen.items()))

    # ---- two orders that keep foreign code, run by a delegate while it holds its own non-reentrant lock, from
    # coming back into a blocking wait of this library (shared with C11 and C07)
    from . import c11 as _c11, c07 as _c07
    from ..core import Report as _Report
    rep.rule("R-GATE-FIRST", "shutdown() sets the executor's own shutdown flag before it calls the delegate's / base class's shutdown(): a submit() made by a callback that the delegate runs during its shutdown (cancel_futures) is refused at the gate instead of blocking on the delegate's shutdown lock, which its own thread holds")
    sub11 = _Report(rep.pid, ctx)
    _c11.check(ctx, sub11)
    ng = 0
    for o in sub11.obs:
        if o.rule == "R-SHUT" and "closes the gate before" in o.key:
            ng += 1
            rep.ob("R-GATE-FIRST", o.key, o.ok, o.detail, o.where, o.trace)
    rep.count("first-shutdown paths with a delegate shutdown", ng, 8)
    rep.rule("R-BLOCK-SELF", "the blocking submit of the throttle executor waits on the queue length only: a running callable counts for nothing there, so a submit() made from inside a running callable never waits for its own caller to finish (and never sits on the shutdown gate, which it holds, for ever)")
    sub07 = _Report(rep.pid, ctx)
    err07 = None
    try:
        _c07.check(ctx, sub07)
    except AnalysisError as e:  # what was found before the anchor was lost still counts (as in check.py)
        err07 = e
    nbq = nbad = 0
    for o in sub07.obs:
        if o.rule in ("R-ADMIT", "R-NULLABLE") and o.key.startswith("blocking submit"):
            nbq += 1
            nbad += 0 if o.ok else 1
            rep.ob("R-BLOCK-SELF", o.key, o.ok, o.detail, o.where, o.trace)
    if err07 is not None and not nbad:
        raise err07
    if err07 is None:
        rep.count("blocking-submit obligations", nbq, 2)

    # ---- weak-reference callbacks run wherever the garbage collector happens to run -- in particular inside this
    # thread's own critical sections (any allocation can trigger a collection).  A lock such a callback takes must
    # be re-entrant, or the thread blocks on a lock it already holds.
    rep.rule("R-LOCK-GC", "every lock acquired by a weakref callback (weakref.ref(obj, callback)) is an RLock")
    ngc = 0
    for fi in sorted(prog.functions.values(), key=lambda f: f.key):
        if fi.parent is not None:
            continue
        for ci in ctx.instances(fi):
            ps, it = ctx.paths(fi, ci, depth=0)
            seen_cb = set()
            for p in ps:
                for e in p.calls():
                    if isinstance(e.d["func"], tuple) and e.d["func"][0] == "ext" and e.d["func"][1] in ("weakref.ref", "weakref.proxy", "weakref.finalize") and len(e.d["args"]) >= 2 and e.fn is fi:
                        cb = e.d["args"][1]
                        target = None
                        if isinstance(cb, tuple) and cb[0] == "attr" and cb[1] == ("param", "self") and ci is not None:
                            o, target = ci.lookup(cb[2])
                            tci = ci
                        elif isinstance(cb, tuple) and cb[0] == "closure":
                            target, tci = roles.closure_fn(cb), None
                        if target is None or (target.key, e.node.lineno) in seen_cb:
                            continue
                        seen_cb.add((target.key, e.node.lineno))
                        ngc += 1
                        ps2, it2 = ctx.paths(target, tci, depth=2)
                        kinds = sorted(set((fmt(x.d[1]), x.d[2]) for p2 in ps2 for x in p2.events if x.kind == "enter"))
                        badk = [k for k in kinds if k[1] != "RLock"]
                        rep.ob("R-LOCK-GC", "%s (weakref callback registered in %s): locks it takes are re-entrant" % (target.qualname, fi.qualname), not badk, "the callback acquires %s: when the collector runs it while this thread holds that lock (any allocation inside the critical section can trigger it) the thread waits for itself" % ", ".join("%s (%s)" % k for k in badk), where_of(target), None)
    rep.count("weakref callbacks examined", ngc, 4)

    for k, v in reentry.items():
        if k not in edges:
            e_, p_, rname_, h_, xname = v
            edges[k] = (e_, p_, rname_ + " (the delegate's submit() may run the callable inline, which may call %s.submit())" % xname, h_, ("attr", ("name", "<%s>" % xname), k[1][1]))
    # ---- layers and order
    layers = layer_classes(ctx)
    rep.count("layers", len(layers), 8)
    for lname, members in sorted(layers.items()):
        es = [(a, b) for (a, b) in edges if a[0] in members and b[0] in members]
        cyc = find_cycle(es)
        if cyc:
            first = edges[(cyc[0], cyc[1])]
            detail = "lock order cycle in layer %s: %s" % (lname, " -> ".join(_role_s(r) for r in cyc))
            witness = []
            for i in range(len(cyc) - 1):
                e, p, rname, h, l = edges[(cyc[i], cyc[i + 1])]
                witness.append("%s then %s in %s (%s)" % (fmt(h), fmt(l), rname, e.where()))
            rep.ob("R-LOCK-OBJ", "layer %s: lock order is acyclic" % lname, False, detail + "; " + "; ".join(witness), where_of(first[0].fn, first[0].node), trace_of(first[1], first[0].seq))
        else:
            rep.ob("R-LOCK-OBJ", "layer %s: lock order is acyclic" % lname, True, "edges: %s" % sorted("%s->%s" % (_role_s(a), _role_s(b)) for a, b in es))
    rep.note("order edges: %s" % sorted("%s->%s" % (_role_s(a), _role_s(b)) for a, b in edges))


def layer_classes(ctx):
    """executor class name -> set of class names forming its layer"""
    prog = ctx.prog
    out = {}
    for ci in ctx.executor_classes():
        if not ctx.gate_field(ci):
            continue
        members = {ci.name, "ShutdownHelper"}
        for c in ci.mro():
            if not isinstance(c, ClassInfo):
                continue
            for (ck, f), ts in ctx.types.field_types.items():
                if ck == c.key:
                    for t in ts:
                        cc = ctx.types.cls_of(t)
                        if cc is not None and cc.name not in ("LogWrapper",) and not any(isinstance(b, str) and "Executor" in b for b in cc.mro()):
                            members.add(cc.name)
            for m in c.methods.values():
                if ci.lookup(m.name)[1] is not m:
                    continue
                ps, it = ctx.paths(m, ci, depth=0)
                for p in ps:
                    for e in p.calls():
                        f = e.d["func"]
                        if isinstance(f, tuple) and f[0] == "class":
                            k = prog.classes.get(f[1])
                            if k is not None and k.node is not None and any(x.name == "_Future" for x in k.mro() if isinstance(x, ClassInfo)):
                                members.add(k.name)
                                for x in k.mro():
                                    if isinstance(x, ClassInfo):
                                        members.add(x.name)
                        if isinstance(f, tuple) and f[0] == "attr" and f[2] == "_FUTURE_CLASS":
                            pass
        out[ci.name] = members
    # the combinators own their output future and lock
    for n in ("Zipper", "OrOperation", "AndOperation"):
        out[n] = {n, "BoolOperation", "OutputFuture"}
    return out


def find_cycle(es):
    g = {}
    for a, b in es:
        g.setdefault(a, set()).add(b)
    color = {}
    stack = []

    def dfs(u):
        color[u] = 1
        stack.append(u)
        for v in sorted(g.get(u, ())):
            if color.get(v) == 1:
                i = stack.index(v)
                return stack[i:] + [v]
            if v not in color:
                r = dfs(v)
                if r:
                    return r
        stack.pop()
        color[u] = 2
        return None

    for u in sorted(g):
        if u not in color:
            r = dfs(u)
            if r:
                return r
    return None


def _role_s(r):
    return "%s.%s" % r if r else "?"


def _callee_s(f):
    s = fmt(f)
    return s if len(s) < 60 else s[:57] + "..."
