"""C10 -- cancel-on-shutdown covers every future the executor ever accepted.

Decided:
  R-REGISTER  submit(): the future returned is the one obtained from this call's delegate submit; it is added to the
              tracked set inside the shutdown gate (and the set's lock), before its discard callback is registered
  R-SWEEP     shutdown(): the flag is flipped (through the gate, which waits out in-flight submits) before the
              snapshot; the snapshot is a copy taken under the set's lock; the cancel loop walks the snapshot (not
              the live set, which discard callbacks mutate) with exactly one cancel() per member; the delegate is
              shut down after the loop with the caller's arguments
Not decided: the linearisation argument itself (it follows from R-REGISTER + R-SWEEP + the gate rules of C11).
"""
from ..core import where_of, trace_of
from ..interp import fmt, contains
from ..model import AnalysisError
from .. import q
from .c11 import gate_flag
from .c11 import gate_held, helper_lock_field
from ..roles import std_inline


def check(ctx, rep):
    prog = ctx.prog
    rep.rule("R-REGISTER", "submit: future := this call's delegate.submit(...) with the caller's arguments; tracked.add(future) happens with the shutdown gate held, before future.add_done_callback(tracked.discard); that same future is returned")
    rep.rule("R-SWEEP", "shutdown: flag flip precedes the snapshot; snapshot = copy of the tracked set under its lock; the loop cancels each snapshot member exactly once; the delegate shutdown follows the loop")
    ci = prog.cls("CancelOnShutdownExecutor")
    SELF = ("param", "self")
    helper, lockfield = helper_lock_field(ctx)
    # the gate itself: refusing and flag flipping are atomic with respect to each other (shared with C11)
    from .c11 import check_helper
    check_helper(ctx, rep, helper, lockfield)
    sm = ci.methods.get("submit")
    sh = ci.methods.get("shutdown")
    rep.require(sm is not None and sh is not None, "CancelOnShutdownExecutor.submit / shutdown not found")
    # the tracked set: the self field that receives .add(<delegate future>)
    ps, it = ctx.paths(sm, ci, depth=5, inline=std_inline)
    tracked = set()
    nok = 0
    for p in ps:
        if p.status != "return":
            continue
        nok += 1
        subs = [e for e in p.calls() if q.call_name(e) == "submit" and q.recv(e) == ("attr", SELF, "_delegate")]
        rep.ob("R-REGISTER", "submit: exactly one delegate submit, caller's arguments forwarded", len(subs) == 1 and q.args_forwarded(subs[0], sm)[0], "delegate submits: %d; %s" % (len(subs), q.args_forwarded(subs[0], sm)[1] if subs else ""), where_of(sm), trace_of(p))
        if len(subs) != 1:
            continue
        fut = ("call", subs[0].d["func"], subs[0].d["args"], subs[0].d["kwargs"], subs[0].d.get("site"))
        futs = [v for v in [p.value] if isinstance(v, tuple) and v[:2] == ("call", subs[0].d["func"])]
        rep.ob("R-REGISTER", "submit returns this call's delegate future", bool(futs), "returns %s" % fmt(p.value), where_of(sm))
        fut = p.value
        adds = [e for e in p.calls() if q.call_name(e) == "add" and q.self_field(q.recv(e)) and e.d["args"] == (fut,)]
        rep.ob("R-REGISTER", "submit: the future is added to the tracked set", len(adds) == 1, "add() calls with the returned future: %d" % len(adds), where_of(sm), trace_of(p))
        if len(adds) != 1:
            continue
        T = q.recv(adds[0])
        tracked.add(T[2])
        rep.ob("R-REGISTER", "submit: registration inside the shutdown gate", gate_held(ctx, it, p, adds[0]), "the future is registered after the gate was released: a shutdown() in between sweeps without it and the future escapes", where_of(sm, adds[0].node), trace_of(p, adds[0].seq))
        rep.ob("R-REGISTER", "submit: the delegate submit itself is inside the gate", gate_held(ctx, it, p, subs[0]), "", where_of(sm, subs[0].node))
        regs = [e for e in p.calls() if q.call_name(e) == "add_done_callback" and q.recv(e) == fut]
        ok = len(regs) == 1 and regs[0].d["args"] == (("attr", T, "discard"),)
        rep.ob("R-REGISTER", "submit: a done future removes itself (discard callback)", ok, "callbacks registered on the future: %s" % [[fmt(a) for a in e.d["args"]] for e in regs], where_of(sm), trace_of(p))
        if ok:
            rep.ob("R-REGISTER", "submit: added before the discard callback is registered", adds[0].seq < regs[0].seq, "an already-done future would be discarded before it is added and then stay in the set for ever", where_of(sm, regs[0].node), trace_of(p))
        lk = [l for l in adds[0].locks if l[1][0] == "attr" and l[1][1] == SELF and l[1][2] != "_shutdown"]
        rep.ob("R-REGISTER", "submit: the set is mutated under its own lock", bool(lk), "", where_of(sm, adds[0].node))
    rep.require(nok >= 1 and len(tracked) == 1, "CancelOnShutdownExecutor.submit: tracked set not identified (%s)" % sorted(tracked))
    T = ("attr", SELF, tracked.pop())

    # ---- shutdown
    ps, it = ctx.paths(sh, ci, depth=5, inline=std_inline)
    nfirst = 0
    for p in ps:
        if p.status == "raise":
            continue
        flips = [e for e in p.evs("store") if e.d["target"][0] == "attr" and e.d["target"][2] == gate_flag(ctx) and e.d["value"] == ("const", True)]
        snaps = [e for e in p.calls() if (q.call_name(e) == "copy" and q.recv(e) == T) or (q.call_name(e) in ("list", "set", "tuple", "frozenset") and e.d["args"] == (T,))]
        loops = [e for e in p.evs("loop") if e.d[0] == "enter"]
        cancels = [e for e in p.calls() if q.call_name(e) == "cancel"]
        dsh = [e for e in p.calls() if q.call_name(e) == "shutdown" and q.recv(e) == ("attr", SELF, "_delegate")]
        if not flips:
            rep.ob("R-SWEEP", "shutdown: a repeated call sweeps nothing", not cancels and not snaps, "", where_of(sh), trace_of(p))
            continue
        nfirst += 1
        rep.ob("R-SWEEP", "shutdown: one snapshot of the tracked set", len(snaps) == 1, "snapshots: %d" % len(snaps), where_of(sh), trace_of(p))
        if len(snaps) != 1:
            continue
        s = snaps[0]
        sval = ("call", s.d["func"], s.d["args"], s.d["kwargs"], None)
        rep.ob("R-SWEEP", "shutdown: flag flipped before the snapshot", flips[0].seq < s.seq, "the snapshot is taken before submit() is refused: a future accepted in between is neither in the snapshot nor refused", where_of(sh, s.node), trace_of(p))
        lk = [l for l in s.locks if l[1][0] == "attr" and l[1][1] == SELF and l[1][2] != "_shutdown"]
        rep.ob("R-SWEEP", "shutdown: snapshot taken under the set's lock", bool(lk), "", where_of(sh, s.node))
        over_snap = [l for l in loops if l.d[1] == sval]
        over_live = [l for l in loops if l.d[1] == T]
        rep.ob("R-SWEEP", "shutdown: the cancel loop walks the snapshot, not the live set", bool(over_snap) and not over_live, "loop over %s" % [fmt(l.d[1]) for l in loops], where_of(sh), trace_of(p))
        per = [c for c in cancels if isinstance(q.recv(c), tuple) and q.recv(c)[0] == "elem" and q.recv(c)[1] == sval]
        # the loop in which cancel() is called walks the snapshot itself: a list derived from it by filtering (for
        # instance partitioned by a predicate that is evaluated more than once, like running()) can lose members
        for c in cancels:
            encl = None
            for l in p.evs("loop"):
                if l.seq > c.seq:
                    break
                if l.d[0] == "enter" and l.fn is c.fn:
                    encl = l
                elif l.d[0] == "exit" and encl is not None and l.node is encl.node:
                    encl = None
            if encl is None:
                continue
            itb = q.deref(p, encl.d[1]) if isinstance(encl.d[1], tuple) else encl.d[1]
            whole = itb == sval or itb == ("listof", sval, ()) or (isinstance(itb, tuple) and itb[0] == "call" and itb[1] in (("name", "list"), ("name", "tuple"), ("name", "sorted"), ("name", "reversed")) and itb[2][:1] == (sval,))
            rep.ob("R-SWEEP", "shutdown: the cancel loop walks the whole snapshot", whole, "cancel() is called in a loop over %s, which is derived from the snapshot by selection: a future for which the selecting predicate changes between two evaluations (running() becomes true in between) is in none of the parts and gets no cancel()" % fmt(itb)[:160], where_of(sh, encl.node), trace_of(p, c.seq))
        iterated = [l for l in p.evs("loop") if over_snap and l.node is over_snap[0].node and l.d[0] == "back"]
        skipped_done = any(v is True and isinstance(t, tuple) and t[0] == "call" and isinstance(t[1], tuple) and t[1][0] == "attr" and t[1][2] in ("done", "cancelled") and isinstance(t[1][1], tuple) and t[1][1][0] == "elem" for t, v, e in q.atoms(p))
        if iterated and not per and not skipped_done:
            rep.ob("R-SWEEP", "shutdown: exactly one cancel() per member", False, "an iteration of the sweep makes no cancel() call on its future (path: %s): a member of the snapshot that is not yet done is skipped, e.g. one that reports running() -- futures of the library's own layers are running() between retries or while queued and do act on cancel()" % q.path_sig(p)[-160:], where_of(sh, over_snap[0].node), trace_of(p))
        if per:
            rep.ob("R-SWEEP", "shutdown: exactly one cancel() per member", len(per) == 1 and len(cancels) == 1, "cancel() calls in one iteration: %d" % len(cancels), where_of(sh), trace_of(p))
            rep.ob("R-SWEEP", "shutdown: cancel() runs outside the set's lock", not [l for l in per[0].locks if l in lk], "", where_of(sh, per[0].node))
        if dsh:
            ok, why = q.args_forwarded(dsh[0], sh)
            rep.ob("R-SWEEP", "shutdown: the delegate is shut down after the sweep with the caller's arguments", ok and len(dsh) == 1 and all(c.seq < dsh[0].seq for c in cancels), why, where_of(sh, dsh[0].node), trace_of(p))
        else:
            rep.ob("R-SWEEP", "shutdown: the delegate is shut down after the sweep with the caller's arguments", False, "no delegate shutdown on the first-shutdown path", where_of(sh), trace_of(p))
    rep.ob("R-SWEEP", "shutdown: the call that flips the flag performs the sweep", nfirst >= 1, "no path of shutdown() on which the flag is flipped goes on to snapshot and cancel the tracked futures", where_of(sh))


def discard_order_rule(ctx, rep, rule):
    """the tracked set never keeps a future that is already done: submit() adds the future before it registers the
    callback that removes it again (an already-done future runs that callback at once).  Used by C20 as well: the
    shutdown sweep counts a successful cancel() per member, and cancel() is also True on a future that had been
    cancelled long before."""
    ci = ctx.prog.cls("CancelOnShutdownExecutor")
    sm = ci.methods.get("submit")
    rep.require(sm is not None, "CancelOnShutdownExecutor.submit not found")
    ps, it = ctx.paths(sm, ci, depth=5, inline=std_inline)
    n = 0
    for p in ps:
        if p.status != "return":
            continue
        fut = p.value
        adds = [e for e in p.calls() if q.call_name(e) == "add" and q.self_field(q.recv(e)) and e.d["args"] == (fut,)]
        regs = [e for e in p.calls() if q.call_name(e) == "add_done_callback" and q.recv(e) == fut]
        if len(adds) != 1 or not regs:
            continue
        n += 1
        T = q.recv(adds[0])
        rm = [e for e in regs if e.d["args"] == (("attr", T, "discard"),) or e.d["args"] == (("attr", T, "remove"),)]
        rep.ob(rule, "CancelOnShutdownExecutor.submit: a done future leaves the tracked set", len(rm) == 1, "callbacks registered on the future: %s" % [[fmt(a) for a in e.d["args"]] for e in regs], where_of(sm), trace_of(p))
        if len(rm) == 1:
            rep.ob(rule, "CancelOnShutdownExecutor.submit: tracked before the self-removal callback is registered", adds[0].seq < rm[0].seq, "a future that is already done (or cancelled) when submit() gets it runs the removal callback before it is added and then stays in the set: the shutdown sweep calls cancel() on it, which is True for a future cancelled earlier, and counts a shutdown-cancel that never happened", where_of(sm, rm[0].node), trace_of(p))
    rep.require(n >= 1, "CancelOnShutdownExecutor.submit: registration of the returned future not found")


def _gate_only(callee, ev, path):
    return callee.name == "ensure_alive"


def _helper_only(callee, ev, path):
    return callee.owner is not None and callee.owner.name == "ShutdownHelper"
