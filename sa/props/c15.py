"""C15 -- f_zip / f_sequence / f_traverse keep positions and propagate the first failure.

Decided:
  R-INDEX    the callback registered for element i is bound to the index produced by the same enumerate that walks
             the slot list; a value is stored in the slot of that index; the result is built from the slot list
             in order (maketuple keeps order and length)
  R-TABLE    Zipper.handle_done: already decided -> nothing; cancelled -> decide + cancel the output; exception ->
             decide + copy that exception; value -> slot write, remaining-1, and exactly when remaining reaches 0
             decide + set the tuple
  R-ATOMIC   slot write, counter and decision under the lock; the output is written / cancelled outside it
  R-FANOUT   chain_cancel(output, input) for every input
  R-COMPOSE  f_sequence = f_traverse(identity); f_traverse = f_map(f_zip(*[fn(x) for x in xs]), list), with an
             exception from fn turned into a failed future
Not decided: behaviour for very large inputs (recursion / memory).
"""
from ..core import where_of, trace_of
from ..interp import fmt, contains, subterms
from ..model import AnalysisError
from .. import q
from .. import roles
from .c03 import terminal_on


def check(ctx, rep):
    prog = ctx.prog
    rep.rule("R-INDEX", "callback i is partial(handle_done, i) with i from enumerate over the slot list itself; handle_done stores f.result() into slot[index]; the output tuple is made from the slot list, whole and in order")
    rep.rule("R-TABLE", "Zipper.handle_done implements: decided -> no effect; cancelled -> decide, cancel output; exception -> decide, copy the input's exception; value -> store, remaining -= 1, decide and set the tuple exactly when remaining == 0")
    rep.rule("R-ATOMIC", "all state of the zipper is read and written under its lock; the output future is resolved or cancelled without it")
    rep.rule("R-FANOUT", "every input gets chain_cancel(output, input)")
    rep.rule("R-COMPOSE", "f_zip() of nothing is an empty tuple; f_sequence(fs) = f_traverse(identity, fs); f_traverse(fn, xs) = f_map(f_zip(*[fn(x) for x in xs]), list) and a raising fn yields a failed future")
    Z = prog.cls("Zipper")
    init = Z.methods.get("__init__")
    rep.require(init is not None, "Zipper.__init__ not found")
    hd = roles.input_callback(ctx, Z)
    SELF = ("param", "self")
    ZR = roles.op_roles(ctx, Z)
    OUT, L, DONE = ZR.OUT, ZR.LOCK, ZR.DONE

    # ---- constructor
    ps, it = ctx.paths(init, Z, depth=2, inline=_weak_only)
    saw = False
    slot_field = None
    count_field = None
    for p in ps:
        regs = [e for e in p.calls() if q.call_name(e) == "add_done_callback" and isinstance(q.recv(e), tuple) and q.recv(e)[0] == "elem"]
        if not regs:
            continue
        saw = True
        r = regs[0]
        elem = q.recv(r)
        src = elem[1]
        cb = r.d["args"][0]
        inner = roles.unwrap(ctx, p, cb, it)
        tm, targs = roles.callback_target(ctx, Z, p, it, cb)
        ok = tm is hd and targs is not None and len(targs) == 1
        idx = targs[0] if ok else None
        ok = ok and isinstance(idx, tuple) and idx[0] == "index" and idx[1] == src and idx[2] == elem[2]
        rep.ob("R-INDEX", "Zipper.__init__: callback bound to the element's own index", ok, "the callback must be partial(self.handle_done, <index of this element from the same enumerate>), found %s" % fmt(inner), where_of(init, r.node), trace_of(p, r.seq))
        # the enumerated sequence is the slot list
        sv = src
        slot_field = None
        for k, v in p.heap.items():
            if k[0] == "attr" and k[1] == SELF and v == sv:
                slot_field = k[2]
        if slot_field is None and q.self_field(src):
            slot_field = src[2]
        rep.ob("R-INDEX", "Zipper.__init__: indices come from the slot list", slot_field is not None, "enumerate() walks %s, which is not the list the results are stored in" % fmt(src), where_of(init, r.node))
        slot_val = q.deref(p, p.heap.get(("attr", SELF, slot_field))) if slot_field else None
        rep.ob("R-INDEX", "Zipper.__init__: the slot list is a list copy of the inputs in order", slot_val == ("listof", ("param", init.params[1]), ()), "slot list initialised as %s" % (fmt(slot_val) if slot_val else None), where_of(init))
        cnt = [(k, v) for k, v in p.heap.items() if k[0] == "attr" and k[1] == SELF and isinstance(v, tuple) and v[0] == "call" and v[1] == ("name", "len")]
        ok = len(cnt) == 1 and q.deref(p, cnt[0][1][2]) in (((slot_val,) if slot_val else ()), (("attr", SELF, slot_field),), (("param", init.params[1]),))
        if cnt:
            count_field = cnt[0][0][2]
        rep.ob("R-TABLE", "Zipper.__init__: remaining counter starts at the number of inputs", ok, "counter initialised as %s" % ([fmt(v) for k, v in cnt]), where_of(init))
        outv = p.heap.get(OUT, OUT)
        chains = [c for c in p.calls() if c.d["callee"] is not None and c.d["callee"].name == "chain_cancel"]
        rep.ob("R-FANOUT", "Zipper.__init__: chain_cancel(output, input) per input", any(c.d["args"] in ((OUT, elem), (outv, elem)) for c in chains), "cancelling the output would not reach the inputs", where_of(init, r.node))
        done0 = p.heap.get(DONE)
        rep.ob("R-TABLE", "Zipper.__init__: starts undecided", done0 == ("const", False), "", where_of(init))
    rep.require(saw and slot_field and count_field, "Zipper.__init__: registration loop / slot list / counter not identified")
    # the loop must reach every input even when an already-finished input decides the operation on the spot
    ps2, it2 = ctx.paths(init, Z, depth=5, immediate_callbacks=True, unroll=2)
    early = [e for p in ps2 for e in p.evs("loop") if e.fn is init and e.d[0] == "exit" and e.d[1] == "break"]
    early += [e for p in ps2 if p.status in ("return", "raise") for e in p.evs("return") if e.fn is init and e.node is not init.node and any(l.d[0] == "enter" and l.fn is init for l in p.evs("loop") if l.seq < e.seq) and not any(l.d[0] == "exit" and l.fn is init for l in p.evs("loop") if l.seq < e.seq)]
    rep.ob("R-FANOUT", "Zipper.__init__: the registration loop visits every input", not early, "the loop over the inputs can be left early (e.g. once an already-finished input has decided the output): the remaining inputs get neither chain_cancel nor a callback, so cancelling/deciding the output never reaches them", where_of(init, early[0].node) if early else where_of(init))
    SL = ("attr", SELF, slot_field)
    CN = ("attr", SELF, count_field)

    # ---- handle_done table
    ps, it = ctx.paths(hd, Z, depth=5)
    IDX = ("param", hd.params[1])
    F = ("param", hd.params[2])
    cases = set()
    for p in ps:
        if p.status == "raise":
            rep.ob("R-TABLE", "Zipper.handle_done does not raise", False, "can raise %s" % fmt(p.value), where_of(hd), trace_of(p))
            continue
        atoms = {}
        for e in p.evs("branch"):
            t, v = e.d
            if t == DONE:
                atoms.setdefault("done", v)
            elif isinstance(t, tuple) and t[0] == "call" and t[1] == ("attr", F, "cancelled"):
                atoms.setdefault("cancelled", v)
            elif isinstance(t, tuple) and t[0] == "call" and t[1] == ("attr", F, "exception"):
                atoms.setdefault("exception", v)
            elif contains(t, CN) or (isinstance(t, tuple) and t[0] == "cmp" and contains(t, ("bin", "-", CN, ("const", 1)))):
                atoms.setdefault("zero", (t, v, e))
        dec = [e for e in p.evs("store") if e.d["target"] == DONE and e.d["value"] == ("const", True)]
        slot = [e for e in p.evs("store") if e.d["target"][0] == "sub" and e.d["target"][1] == SL]
        cnt = [e for e in p.evs("store") if e.d["target"] == CN]
        res = [e for e in p.calls() if terminal_on(e, OUT, it, p) and q.call_name(e) == "set_result"]
        exc = [e for e in p.calls() if terminal_on(e, OUT, it, p) and q.call_name(e) in ("set_exception", "set_exception_info")]
        cxl = [e for e in p.calls() if q.call_name(e) == "cancel" and q.recv(e) == OUT]
        state_evs = [e for e in p.evs("branch") if e.d[0] == DONE or contains(e.d[0], CN)] + dec + slot + cnt
        rep.ob("R-ATOMIC", "Zipper.handle_done: state read and written under the lock", all(q.has_lock(e, L) for e in state_evs), "zipper state is touched without self.lock", where_of(hd), trace_of(p))
        for e in res + exc + cxl:
            rep.ob("R-ATOMIC", "Zipper.handle_done: output resolved outside the lock", not q.has_lock(e, L), "%s with self.lock held" % fmt(e.d["func"]), where_of(e.fn, e.node), trace_of(p, e.seq))
        rep.ob("R-TABLE", "Zipper.handle_done: every report first consults the zipper's own decision flag", atoms.get("done") is not None, "a path through handle_done never tests self.%s: whether the operation is already decided must be read from the flag that is written under the lock (the output future is resolved after the lock is released, so its done() still says 'undecided' while another report is being applied)" % DONE[2], where_of(hd), trace_of(p))
        if atoms.get("done") is None:
            continue
        if atoms.get("done") is True:
            cases.add("decided")
            rep.ob("R-TABLE", "Zipper: a report after the decision changes nothing", not (dec or slot or cnt or res or exc or cxl), "state or output changed after the decision", where_of(hd), trace_of(p))
        elif atoms.get("cancelled") is True:
            cases.add("cancelled")
            rep.ob("R-TABLE", "Zipper: a cancelled input cancels the output", bool(dec) and len(cxl) == 1 and not res and not exc and not slot, "decided=%s, output cancels=%d" % (bool(dec), len(cxl)), where_of(hd), trace_of(p))
        elif atoms.get("exception") is True:
            cases.add("exception")
            src_ok = any(c.d["callee"] is not None and c.d["callee"].name == "copy_future_exception" and c.d["args"][:2] == (F, OUT) for c in p.calls())
            rep.ob("R-TABLE", "Zipper: a failed input fails the output with its exception", bool(dec) and bool(exc) and src_ok and not res and not cxl and not slot, "decided=%s, exception copied from the input=%s" % (bool(dec), src_ok), where_of(hd), trace_of(p))
        else:
            ok_slot = len(slot) == 1 and slot[0].d["target"] == ("sub", SL, IDX) and slot[0].d["value"][:2] == ("call", ("attr", F, "result"))
            rep.ob("R-INDEX", "Zipper: a value goes into the slot of its own index", ok_slot, "expected self.%s[index] = f.result(), found %s" % (slot_field, ["%s = %s" % (fmt(e.d["target"]), fmt(e.d["value"])) for e in slot]), where_of(hd), trace_of(p))
            ok_cnt = len(cnt) == 1 and cnt[0].d["value"] == ("bin", "-", CN, ("const", 1))
            rep.ob("R-TABLE", "Zipper: remaining counter decremented by one per value", ok_cnt, "counter stores: %s" % [fmt(e.d["value"]) for e in cnt], where_of(hd), trace_of(p))
            z = atoms.get("zero")
            rep.require(z is not None, "Zipper.handle_done: test of the remaining counter not found")
            t, v, ev = z
            reached = _is_zero_test(t, v, ("bin", "-", CN, ("const", 1)), CN)
            rep.require(reached is not None, "Zipper.handle_done: unrecognised form of the counter test: %s" % fmt(t))
            if reached == "wrong":
                rep.ob("R-TABLE", "Zipper: the operation is decided exactly when no input is outstanding", False, "the counter test `%s` (taken %s) does not separate 'remaining == 0' from 'remaining > 0': the output would be set while inputs are outstanding, or never" % (fmt(t), v), where_of(hd, ev.node), trace_of(p))
                cases.add("value-last" if dec else "value-more")
                continue
            cases.add("value-last" if reached else "value-more")
            if reached:
                tv = res[0].d["args"][0] if res and res[0].d["args"] else None
                mk = [c for c in p.calls() if c.d["callee"] is not None and c.d["callee"].name == "maketuple"]
                ok = bool(dec) and len(res) == 1 and not exc and not cxl and len(mk) == 1 and mk[0].d["args"] == (SL,)
                rep.ob("R-TABLE", "Zipper: the last value decides and sets the tuple of all slots", ok, "decided=%s, set_result x%d, tuple built from %s" % (bool(dec), len(res), [fmt(a) for m_ in mk for a in m_.d["args"]]), where_of(hd), trace_of(p))
            else:
                rep.ob("R-TABLE", "Zipper: an earlier value leaves the operation open", not dec and not res and not exc and not cxl, "decided or resolved although inputs are outstanding", where_of(hd), trace_of(p))
    want = {"decided", "cancelled", "exception", "value-last", "value-more"}
    rep.ob("R-TABLE", "Zipper.handle_done: all five cases present", cases == want, "missing cases: %s" % sorted(want - cases), where_of(hd))

    # ---- maketuple keeps everything in order
    mt = prog.fn("zip:maketuple")
    ps, it = ctx.paths(mt, None, depth=0)
    V = ("param", mt.params[0])
    for p in ps:
        if p.status != "return":
            continue
        v = p.value
        ok = isinstance(v, tuple) and v[0] == "call" and (tuple(v[2]) == (("star", V),) or (v[1] == ("name", "tuple") and tuple(v[2]) == (V,))) and not v[3]
        rep.ob("R-INDEX", "maketuple passes all values in order [%s]" % q.path_sig(p)[:60], ok, "returns %s" % fmt(v), where_of(mt))
        if ok and v[1] != ("name", "tuple"):
            cls = v[1]
            okc = isinstance(cls, tuple) and cls[0] == "sub" and cls[2] == ("call", ("name", "len"), (V,), (), None)
            rep.ob("R-INDEX", "maketuple picks the tuple class of the right length", okc, "class chosen by %s" % fmt(cls), where_of(mt))
            if okc:
                # the table is only indexed where it has an entry: index < len(table), strictly
                from .c07 import norm_cmp
                TABLE, IDX = cls[1], cls[2]
                facts = [norm_cmp(b.d[0], b.d[1]) for b in p.evs("branch")]
                inb = any(n and n[0] == IDX and n[1] == "<" and n[2] == ("call", ("name", "len"), (TABLE,), (), None) for n in facts)
                rep.ob("R-INDEX", "maketuple indexes the class table only within its bounds", inb, "the table is indexed with len(values) on a path that establishes only %s: with exactly len(table) inputs the lookup raises IndexError inside the last input's callback and the output never resolves" % [("%s %s %s" % (fmt(n[0]), n[1], fmt(n[2]))) for n in facts if n], where_of(mt), trace_of(p))

    # ---- compositions
    fz = prog.fn("zip:f_zip")
    ps, it = ctx.paths(fz, None, depth=0)
    kinds = set()
    for p in ps:
        if p.status != "return":
            continue
        mk = [e for e in p.calls() if e.d["func"] == ("class", Z.key)]
        FS = ("seq", (), ("param", fz.vararg), 0)
        some = None
        for t_, v_, b_ in q.atoms(p):
            if t_ == FS or t_ == ("param", fz.vararg):
                some = v_
        if some is not None:
            rep.ob("R-COMPOSE", "f_zip zips when there are inputs and returns the empty tuple when there are none", bool(mk) == bool(some), "with %s inputs f_zip %s" % ("some" if some else "no", "builds a zipper" if mk else "returns an already-resolved empty tuple"), where_of(fz), trace_of(p))
        if mk:
            kinds.add("some")
            a = mk[0].d["args"]
            v = p.value
            if isinstance(v, tuple) and v[0] == "call" and v[2]:
                v = v[2][0]  # track_future(x) when it is not summarised
            ok = a == (("seq", (), ("param", fz.vararg), 0),) and isinstance(v, tuple) and v[0] == "attr" and v[2] == ZR.out and isinstance(v[1], tuple) and v[1][0] == "new" and v[1][1] == Z.key
            rep.ob("R-COMPOSE", "f_zip builds a Zipper over all inputs and returns its output", ok, "Zipper(%s), returns %s" % ([fmt(x) for x in a], fmt(p.value)), where_of(fz))
        else:
            kinds.add("none")
            v = q.deref(p, p.value)
            ok = isinstance(v, tuple) and v[0] == "call" and q.term_name(v[1]) == "f_return" and len(v[2]) == 1 and v[2][0][0] == "call" and q.term_name(v[2][0][1]) == "maketuple" and v[2][0][2] == (("list", ()),)
            rep.ob("R-COMPOSE", "f_zip() without inputs is a resolved empty tuple", ok, "returns %s" % fmt(v), where_of(fz))
    rep.require(kinds == {"some", "none"}, "f_zip: expected the empty and the non-empty path")
    ft = prog.fn("sequence:f_traverse")
    ps, it = ctx.paths(ft, None, depth=1, inline=_copy_only, unroll=2)
    kinds = set()
    FN, XS = ("param", ft.params[0]), ("param", ft.params[1])
    for p in ps:
        if p.status == "raise":
            rep.ob("R-COMPOSE", "f_traverse turns an exception from fn into a failed future", False, "f_traverse itself raises %s" % fmt(p.value), where_of(ft), trace_of(p))
            continue
        ucalls = [e for e in p.calls() if e.d.get("user")]
        loops = [e for e in p.evs("loop") if e.fn is ft]
        caught = bool(p.evs("catch"))
        shape = all(e.d["func"] == FN and len(e.d["args"]) == 1 and e.d["args"][0][:2] == ("elem", XS) and not e.d["kwargs"] for e in ucalls)
        if loops and not any(e.d[0] == "exit" and e.d[1] == "comprehension" for e in loops) and not (caught and len(loops) == 1 and not any(e.d[0] in ("back", "exit") for e in loops) and _comp_source(ft)):
            # statement form: for x in xs: <list>.append(fn(x))
            enters = [e for e in loops if e.d[0] == "enter"]
            n_iter = len([e for e in loops if e.d[0] == "back"])
            early = [e for e in loops if e.d[0] == "exit" and e.d[1] in ("break", "return")]
            shape = shape and len(enters) == 1 and roles.container_of(enters[0].d[1]) == XS and not early and len(ucalls) == n_iter + (1 if caught else 0)
        else:
            shape = shape and len(ucalls) == 1
        rep.ob("R-COMPOSE", "f_traverse calls fn once per element, in iteration order", shape, "user calls: %s" % [("%s(%s)" % (fmt(e.d["func"]), ", ".join(fmt(a) for a in e.d["args"]))) for e in ucalls], where_of(ft), trace_of(p))
        if caught:
            kinds.add("fn raised")
            v = p.value
            term = [e for e in p.calls() if q.call_name(e) in ("set_exception", "set_exception_info") and q.recv(e) == v]
            rep.ob("R-COMPOSE", "f_traverse turns an exception from fn into a failed future", isinstance(v, tuple) and v[0] == "extnew" and bool(term), "returns %s" % fmt(v), where_of(ft), trace_of(p))
            rep.ob("R-COMPOSE", "f_traverse catches Exception from fn", p.evs("catch")[0].d["names"] in (["Exception"], None), "handler catches %s" % p.evs("catch")[0].d["names"], where_of(ft))
        else:
            kinds.add("ok")
            zc = [e for e in p.calls() if e.d["callee"] is fz or q.call_name(e) == "f_zip"]
            mc = [e for e in p.calls() if q.call_name(e) == "f_map"]
            okz = len(zc) == 1 and not zc[0].d["kwargs"]
            if okz and not any(isinstance(a, tuple) and a and a[0] == "star" for a in zc[0].d["args"]):
                # f_zip(*futures) with the list known on this path: the futures arrive as positional arguments
                okz = tuple(zc[0].d["args"]) == tuple(q.result_of(e) for e in ucalls)
            elif okz:
                okz = len(zc[0].d["args"]) == 1
            if okz and any(isinstance(a, tuple) and a and a[0] == "star" for a in zc[0].d["args"]):
                seq = zc[0].d["args"][0][1]
                if seq[0] == "comp":
                    okz = seq[1] == "ListComp" and seq[3] == (XS,) and not seq[4]
                else:
                    okz = q.deref(p, seq) == ("list", tuple(q.result_of(e) for e in ucalls))
            rep.ob("R-COMPOSE", "f_traverse zips the futures of all elements in order", okz, "f_zip called with %s" % ([fmt(q.deref(p, a)) for a in zc[0].d["args"]] if zc else None), where_of(ft), trace_of(p))
            okm = len(mc) == 1 and bool(zc)
            if okm:
                fmi = mc[0].d["callee"]
                bm = roles.bound(mc[0], prog) if fmi is not None else {}
                vals = [bm.get(n) for n in (fmi.params if fmi is not None else [])]
                okm = fmi is not None and len(vals) >= 2 and vals[0] == q.result_of(zc[0]) and vals[1] == ("name", "list") and all(v is None or v == ("const", None) for v in vals[2:]) and "*" not in bm and "**" not in bm
            rep.ob("R-COMPOSE", "f_traverse maps the zipped tuple to a list", okm, "f_map called with %s" % ([fmt(a) for a in mc[0].d["args"]] if mc else None), where_of(ft), trace_of(p))
    if "fn raised" not in kinds:
        # fn is never called by f_traverse itself on any analysed path: it was handed to something else
        handed = [e for p in ps for e in p.calls() if not e.d.get("user") and FN in e.d["args"] and e.fn is ft]
        if handed:
            h = handed[0]
            rep.ob("R-COMPOSE", "f_traverse calls fn itself, inside its own exception handler", False, "fn is handed to %s instead of being called element by element: an iteration protocol in between (map(), a generator consumed by list()) takes a StopIteration raised by fn for the end of the input (or turns it into another exception), so the output is a shortened list instead of failing with fn's exception" % fmt(h.d["func"]), where_of(ft, h.node))
    rep.require(kinds == {"fn raised", "ok"}, "f_traverse: expected a normal path and a path where fn raises")
    fs = prog.fn("sequence:f_sequence")
    ps, it = ctx.paths(fs, None, depth=0)
    for p in ps:
        tc = [e for e in p.calls() if e.d["callee"] is ft]
        ok = len(tc) == 1 and len(tc[0].d["args"]) == 2 and tc[0].d["args"][1] == ("param", fs.params[0])
        ident = ok and roles.is_identity(ctx, tc[0].d["args"][0])
        rep.ob("R-COMPOSE", "f_sequence is f_traverse(identity, futures)", ok and ident, "", where_of(fs), trace_of(p))
    # cancelling the output reaches the inputs through chain_cancel (shared with C14)
    from .c14 import _chain_cancel
    _chain_cancel(ctx, rep, "R-FANOUT")
    # the failure rows end in copy_exception: it must store the exception on every way out (shared with C01)
    from .c01 import copy_complete_rule
    copy_complete_rule(ctx, rep, "R-TABLE")



def _comp_source(fi):
    """does the function build its list with a comprehension (rather than a for statement)?"""
    import ast
    return any(isinstance(n, (ast.ListComp, ast.GeneratorExp)) for n in ast.walk(fi.node)) and not any(isinstance(n, ast.For) for n in ast.walk(fi.node))


def _is_zero_test(t, v, dec, cn):
    """does (t == v) establish that the decremented counter is zero?
    True: exactly zero; False: exactly non-zero; 'wrong': some other threshold; None: unknown form"""
    neg = False
    while isinstance(t, tuple) and t[0] == "not":
        neg = not neg
        t = t[1]
    val = v != neg
    cnt_terms = (dec, cn)  # the heap already holds the decremented value
    if t in cnt_terms:
        pred = lambda n: bool(n)  # noqa: E731
    elif isinstance(t, tuple) and t[0] == "cmp" and t[1] in ("==", "<", "<=", ">", ">="):
        op, a, b = t[1], t[2], t[3]
        import operator
        ops = {"==": operator.eq, "<": operator.lt, "<=": operator.le, ">": operator.gt, ">=": operator.ge}
        if a in cnt_terms and b[0] == "const" and isinstance(b[1], int):
            pred = lambda n: ops[op](n, b[1])  # noqa: E731
        elif b in cnt_terms and a[0] == "const" and isinstance(a[1], int):
            pred = lambda n: ops[op](a[1], n)  # noqa: E731
        else:
            return None
    else:
        return None
    sat = set(n for n in range(0, 5) if pred(n) == val)
    if sat == {0}:
        return True
    if sat == {1, 2, 3, 4}:
        return False
    return "wrong"


def _weak_only(callee, ev, path):
    # wrapper objects around the callback, and the operation's own small helpers (a callback factory method)
    return roles.inline_wrapper_ctor(callee, ev, path) or (callee.owner is not None and callee.owner.name == "Zipper" and callee.name != "__init__")


def _copy_only(callee, ev, path):
    if callee.name in ("copy_exception",):
        return True
    # a private helper next to the caller (e.g. "a future failed with the exception being handled")
    return callee.owner is None and callee.parent is None and callee.name.startswith("_") and ev.fn is not None and callee.module is ev.fn.module
