"""C12 -- worker threads and references are reclaimed; pending futures keep working.

Decided:
  R-REFS-THREAD  a worker thread's target is not a bound method of the executor and its arguments carry only a
                 weak reference; the weak reference's callback does not capture `self` (it captures the event,
                 bound to a local before the strong reference could be captured)
  R-REFS-WAIT    at every wait() of a worker loop no local variable still holds the executor or an element of
                 its work lists (job records reference futures, callables and the executor)
  R-REFS-EVENT   worker events come from get_event(), so the interpreter-exit hook can set them; the exit hook
                 raises its flag before it sets the events
  R-REFS-FUTURE  a future that references its executor registers a done-callback that clears the reference;
                 a map future drops its delegate before resolving; callbacks are dropped after dispatch;
                 WeakCallback drops its target before calling it
  R-REFS-JOBS    retry: every path that resolves or cancels a job's future also removes the job; cancel() that
                 returns True leaves no job behind; poll and timeout drop finished entries (C08 / C09)
Not decided: garbage-collector behaviour; cycles through user functions.
"""
import ast

from ..core import where_of, trace_of
from ..interp import fmt, contains, subterms
from ..model import AnalysisError, ClassInfo
from .. import q
from .. import wake
from .. import roles
from .c03 import terminal_on
from .c02 import _no_cb_inline


def check(ctx, rep):
    prog = ctx.prog
    rep.rule("R-REFS-THREAD", "Thread(target=f, args=(ref,)): f is a module function or classmethod, never a method bound to the executor instance; every argument is weakref.ref(self, callback); the callback's free variables do not include self")
    rep.rule("R-REFS-WAIT", "when a worker loop blocks in wait(), no local variable of the loop (or of a frame below it) holds the dereferenced executor or an element of one of its work lists")
    rep.rule("R-REFS-EVENT", "the event a worker waits on is obtained from get_event() (registered with the interpreter-exit hook); the hook sets its shutdown flag before it sets the events")
    rep.rule("R-REFS-FUTURE", "futures with an _executor field register, in their constructor, a done-callback that sets it to None; MapFuture._delegate_resolved drops the delegate first; _me_invoke_callbacks resets the callback list; WeakCallback deletes its target before calling it")
    rep.rule("R-REFS-JOBS", "RetryExecutor: every exit of the delegate callback on which the job's future was resolved or cancelled also removes the job; a cancel() that returns True has removed the job")
    SELF = ("param", "self")

    # ---- R-REFS-THREAD
    rep.count("worker threads", len(ctx.types.thread_targets), 4)
    for owner, target, node, initfi in ctx.types.thread_targets:
        ps, it = ctx.paths(initfi, owner if initfi.owner is not None else None, depth=1, inline=lambda callee, ev, path: callee.key in ctx.types.thread_factories)
        for p in ps:
            if p.status == "raise":
                continue
            th = [e for e in p.calls() if e.d["func"] == ("ext", "threading.Thread")]
            rep.require(len(th) == 1, "%s.__init__: expected exactly one Thread" % owner.name)
            kw = dict((k, v) for k, v in th[0].d["kwargs"] if k)
            tgt = kw.get("target")
            bound = isinstance(tgt, tuple) and tgt[0] == "attr" and tgt[1] == SELF and not target.is_classmethod and not target.is_staticmethod
            rep.ob("R-REFS-THREAD", "%s: thread target does not capture the executor" % owner.name, not bound and tgt is not None, "target=%s is a method bound to the instance: the thread keeps the executor alive for ever" % (fmt(tgt) if tgt else None), where_of(initfi, th[0].node))
            # a non-daemon thread is joined by the interpreter *before* the atexit hooks run, so the exit hook that
            # wakes the workers would never get to run: every worker thread must be a daemon thread before it starts
            dst = [e for e in p.evs("store") if e.d["target"][0] == "attr" and e.d["target"][2] == "daemon"]
            starts = [e for e in p.calls() if q.call_name(e) == "start" and e.seq > th[0].seq]
            dval = kw.get("daemon", dst[-1].d["value"] if dst else None)
            okd = dval == ("const", True) and (not dst or not starts or dst[-1].seq < starts[0].seq)
            rep.ob("R-REFS-THREAD", "%s: the worker is a daemon thread" % owner.name, okd, "the worker thread is %s: at interpreter exit python joins non-daemon threads before it runs the atexit hooks, so the hook that wakes an idle worker never runs and the process hangs in exit" % ("not made a daemon thread" if dval != ("const", True) else "started before it is made a daemon thread"), where_of(initfi, th[0].node), trace_of(p))
            args = kw.get("args")
            ok = isinstance(args, tuple) and args[0] == "tuple" and all(isinstance(a, tuple) and a[0] == "extnew" and a[1] == "weakref" for a in args[1])
            rep.ob("R-REFS-THREAD", "%s: thread arguments are weak references only" % owner.name, ok, "args=%s" % (fmt(args) if args else None), where_of(initfi, th[0].node))
            if ok:
                for a in args[1]:
                    wargs = a[3]
                    # the referent is the executor: `self` in the constructor, or the parameter of a thread factory
                    # function that receives the executor
                    isx = len(wargs) == 2 and (wargs[0] == SELF or (isinstance(wargs[0], tuple) and wargs[0][0] == "param" and ("C:" + owner.key) in ctx.types.param_types.get((initfi.key, wargs[0][1]), ())))
                    okw = isx and isinstance(wargs[1], tuple) and wargs[1][0] in ("closure", "func")
                    rep.ob("R-REFS-THREAD", "%s: weakref.ref(self, callback)" % owner.name, okw, "weakref built as %s" % [fmt(x) for x in wargs], where_of(initfi))
                    if okw:
                        sub = roles.closure_fn(wargs[1]) or prog.functions.get(wargs[1][1])
                        names = set(n.id for n in ast.walk(sub.node) if isinstance(n, ast.Name))
                        xname = wargs[0][1]
                        rep.ob("R-REFS-THREAD", "%s: the weakref callback does not capture self" % owner.name, xname not in names, "the callback refers to `self`: the weak reference's own callback keeps the executor alive, so it is never collected and the thread never exits", where_of(sub))
                        ps2, it2 = ctx.paths(sub, None, depth=0)
                        sets = [e for p2 in ps2 for e in p2.calls() if q.call_name(e) == "set"]
                        rep.ob("R-REFS-THREAD", "%s: the weakref callback wakes the worker" % owner.name, bool(sets), "when the executor is collected nothing wakes the thread", where_of(sub))

    # ---- R-REFS-WAIT
    loops = wake.discover(ctx)
    for li in loops:
        nw = 0
        for p in li.paths:
            for e in p.calls():
                if q.call_name(e) != "wait" or "live" not in e.d or li.it.type_of(q.recv(e), p) != "E:Event":
                    continue
                nw += 1
                bad = []
                for fname, env in e.d["live"]:
                    for name, v in env.items():
                        if name.startswith("@"):
                            continue
                        why = _strong(v, li, p)
                        if why and isinstance(v, tuple) and p.assume.get(v) is False:
                            why = None  # `if not job:` -- the variable is known to hold nothing on this path
                        if why:
                            bad.append("%s in %s holds %s" % (name, fname, why))
                rep.ob("R-REFS-WAIT", "%s: nothing of the executor is referenced while waiting" % li.target.qualname, not bad,
                       "; ".join(sorted(set(bad))) + ": the sleeping thread keeps it alive (the executor is never collected / a finished job's future, callable and arguments are not released)", where_of(e.fn, e.node), trace_of(p, e.seq))
        rep.ob("R-REFS-WAIT", "%s: waits examined" % li.target.qualname, nw > 0, "no wait found (analysis anchor)", where_of(li.target))

    # ---- R-REFS-EVENT
    for li in loops:
        o, init = li.owner.lookup("__init__")
        ps, it = ctx.paths(init, li.owner, depth=0)
        for p in ps:
            v = p.heap.get(("attr", SELF, li.event_field))
            ok = isinstance(v, tuple) and v[0] == "call" and q.term_name(v[1]) == "get_event"
            rep.ob("R-REFS-EVENT", "%s.%s comes from get_event()" % (li.owner.name, li.event_field), ok, "the worker's event is %s: it is not set at interpreter exit, so the thread would block the exit" % (fmt(v) if v else None), where_of(init))
    h = prog.cls("ShutdownAwareEventHandler")
    oe = h.methods.get("on_exiting")
    ge = h.methods.get("get_event")
    rep.require(oe is not None and ge is not None, "ShutdownAwareEventHandler.on_exiting / get_event not found")
    # the list of registered events: the field get_event appends to; the flag: the field on_exiting sets True
    evf = set()
    for p in ctx.paths(ge, h, depth=2, inline=lambda callee, ev, path: callee.owner is h)[0]:
        for e in p.calls():
            if q.call_name(e) in ("append", "add") and q.self_field(q.recv(e)):
                evf.add(q.recv(e)[2])
    rep.require(len(evf) == 1, "ShutdownAwareEventHandler.get_event: the list of registered events is not unique (%s)" % sorted(evf))
    EVENTS = ("attr", SELF, evf.pop())
    ps, it = ctx.paths(oe, h, depth=2, inline=lambda callee, ev, path: callee.owner is h)
    for p in ps:
        st = [e for e in p.evs("store") if q.self_field(e.d["target"]) and e.d["value"] == ("const", True)]
        sets = [e for e in p.calls() if q.call_name(e) == "set"]
        rep.ob("R-REFS-EVENT", "on_exiting raises the shutdown flag", len(st) == 1, "", where_of(oe))
        for s_ in sets:
            rep.ob("R-REFS-EVENT", "on_exiting raises the flag before it sets the events", bool(st) and st[0].seq < s_.seq, "an event is set before the flag is raised: a worker woken now re-reads the flag as false, clears its event and waits again -- for ever", where_of(oe, s_.node), trace_of(p, s_.seq))
        # every registered event that is still alive is set (a dead reference is skipped, not dereferenced)
        for c in p.calls():
            f = c.d["func"]
            if isinstance(f, tuple) and f[0] == "elem" and roles.container_of(f[1]) == EVENTS:
                r = q.result_of(c)
                alive = q.truth_of(p, r)
                onr = [s_ for s_ in sets if q.recv(s_) == r]
                if alive is False:
                    rep.ob("R-REFS-EVENT", "on_exiting skips a dead event reference", not onr, "set() is called on a reference found dead (None): the hook raises and the remaining workers are never woken", where_of(oe, c.node), trace_of(p, c.seq))
                else:
                    rep.ob("R-REFS-EVENT", "on_exiting sets every live registered event", len(onr) >= 1, "a registered event that is still alive is not set by the exit hook: the worker waiting on it is never woken at interpreter exit", where_of(oe, c.node), trace_of(p, c.seq))
        lp = [e for e in p.evs("loop") if e.d[0] == "enter"]
        rep.ob("R-REFS-EVENT", "on_exiting walks the registered events", any(roles.container_of(l.d[1]) == EVENTS for l in lp), "", where_of(oe))
    ps, it = ctx.paths(ge, h, depth=2, inline=lambda callee, ev, path: callee.owner is h)
    for p in ps:
        if p.status != "return":
            continue
        apps = [e for e in p.calls() if q.call_name(e) == "append" and q.recv(e) == EVENTS]
        ok = len(apps) == 1 and apps[0].d["args"][0][0] == "extnew" and apps[0].d["args"][0][1] == "weakref" and apps[0].d["args"][0][3][0] == p.value
        rep.ob("R-REFS-EVENT", "get_event registers the new event (weakly) with the exit hook", ok and p.value[0] == "extnew" and p.value[1] == "Event", "", where_of(ge), trace_of(p))
        regs = [e for e in p.calls() if q.call_name(e) == "register" and e.d["args"][:1] == (("attr", SELF, "on_exiting"),)]
        first = [v for t, v, b in q.atoms(p) if q.self_field(t) and t != EVENTS]
        if first and first[0] is False:
            rep.ob("R-REFS-EVENT", "get_event installs the exit hook on first use", len(regs) == 1, "", where_of(ge))
    nreb, nin = roles.shrink_rule(ctx, rep, h, EVENTS[2], "R-REFS-EVENT", "the registry of worker events")
    rep.count("places where dead entries leave the event registry (rebuild or in-place removal)", nreb + nin, 1)
    hooked = [p for p in ps if any(q.call_name(e) == "register" for e in p.calls())]
    rep.ob("R-REFS-EVENT", "get_event has a path installing the exit hook", bool(hooked), "atexit registration of on_exiting not found", where_of(ge))

    # ---- a finished future wakes the timeout thread, so that its job (future, delegate future) is dropped now and
    # not when its deadline comes round
    tex = prog.cls("TimeoutExecutor")
    tloops = [l for l in loops if l.owner is tex]
    rep.require(len(tloops) == 1, "TimeoutExecutor: worker loop not found")
    tli = tloops[0]
    st = tex.methods.get("submit_timeout") or tex.methods.get("submit")
    ps, it = ctx.paths(st, tex, depth=1, inline=lambda callee, ev, path: callee.owner is tex)
    nsub = 0
    for p in ps:
        if p.status != "return":
            continue
        nsub += 1
        woke = []
        for e in p.calls():
            if q.call_name(e) == "add_done_callback" and q.recv(e) == p.value and e.d["args"]:
                tm, _b = roles.callback_target(ctx, tex, p, it, e.d["args"][0])
                if tm is not None:
                    ps2, it2 = ctx.paths(tm, tex, depth=2, inline=lambda callee, ev, path: callee.owner is tex)
                    if ps2 and all(any(q.call_name(c) == "set" and q.recv(c) == ("attr", SELF, tli.event_field) for c in p2.calls()) for p2 in ps2 if p2.status == "return"):
                        woke.append(e)
        rep.ob("R-REFS-JOBS", "TimeoutExecutor: a finished future wakes the timeout thread", bool(woke), "no done-callback on the returned future sets the timeout thread's event: the job of a future that finishes early (with its delegate future and result) stays in the executor's list until its deadline passes", where_of(st), trace_of(p))
    rep.require(nsub >= 1, "TimeoutExecutor.submit_timeout: no returning path")
    # ... and the thread, once awake, drops every job whose future is done (the partition rows of C09)
    from . import c09
    from ..core import Report
    sub = Report(rep.pid, ctx)
    c09.check(ctx, sub)
    for o in sub.obs:
        if "finished job is dropped" in o.key or "a job kept was found not done" in o.key:
            rep.ob("R-REFS-JOBS", "TimeoutExecutor " + o.key, o.ok, o.detail + " (its future, delegate future and result stay referenced until the deadline)", o.where, o.trace)

    # ---- R-REFS-FUTURE
    fut = prog.cls("_Future")
    nf = 0
    for ci in prog.subclasses(fut, strict=True):
        exf = [f for (ck, f), ts in ctx.types.field_types.items() if ck == ci.key and any(t.startswith("C:") and ctx.types.cls_of(t) in ctx.executor_classes() for t in ts)]
        if not exf:
            continue
        EXF = exf[0]
        nf += 1
        o, init = ci.lookup("__init__")
        ps, it = ctx.paths(init, ci, depth=0)
        for p in ps:
            if p.status == "raise":
                continue
            regs = [e for e in p.calls() if q.call_name(e) == "add_done_callback" and q.recv(e) == SELF]
            cbs = [e.d["args"][0] for e in regs]
            cleared = False
            for cb in cbs:
                if isinstance(cb, tuple) and cb[0] == "attr" and cb[1] == SELF:
                    o2, m = ci.lookup(cb[2])
                    if m is not None:
                        ps2, it2 = ctx.paths(m, ci, depth=0)
                        target = ("param", m.params[1]) if len(m.params) > 1 else SELF
                        cleared = cleared or all(any(e.d["target"] == ("attr", target, EXF) and e.d["value"] == ("const", None) for e in p2.evs("store")) for p2 in ps2 if p2.status == "return")
            rep.ob("R-REFS-FUTURE", "%s drops its executor when done" % ci.name, cleared, "no done-callback registered by the constructor clears the executor field: finished futures keep their executor (and its thread) alive", where_of(init))
    rep.count("future classes holding their executor", nf, 3)
    M = roles.map_roles(ctx)
    mf = M.mf
    drs = [m for m, recv in roles.registered_callbacks(ctx, mf).values() if recv != SELF]
    rep.require(len(drs) == 1, "MapFuture: callback registered on the delegate not unique")
    dr = drs[0]
    ps, it = ctx.paths(dr, mf, depth=2, inline=lambda callee, ev, path: callee.owner is mf and not roles.is_dispatch(callee))
    for p in ps:
        st = [e for e in p.evs("store") if e.d["target"] == ("attr", SELF, M.deleg)]
        ucalls = [e for e in p.calls() if e.d.get("user")]
        ok = bool(st) and st[0].d["value"] == ("const", None) and (not ucalls or st[0].seq < ucalls[0].seq)
        rep.ob("R-REFS-FUTURE", "MapFuture drops its delegate before mapping", ok, "", where_of(dr), trace_of(p))
    wrappers = []
    for fi in prog.functions.values():
        if fi.parent is not None:
            continue
        for ci in ctx.instances(fi):
            ps, it = ctx.paths(fi, ci, depth=0)
            for p in ps:
                for e in p.calls():
                    if q.call_name(e) == "add_done_callback" and e.d["args"]:
                        cb = e.d["args"][0]
                        if isinstance(cb, tuple) and cb[0] == "new" and roles.is_wrapper_class(prog.classes.get(cb[1])) and prog.classes[cb[1]] not in wrappers:
                            wrappers.append(prog.classes[cb[1]])
    rep.count("callback wrapper classes used with add_done_callback", len(wrappers), 1)
    for wc in wrappers:
        call = wc.methods.get("__call__")
        F = ("attr", SELF, roles.wrapper_field(ctx, wc))
        ps, it = ctx.paths(call, wc, depth=0)
        for p in ps:
            dels = [e for e in p.evs("del") if e.d["target"] == F] + [e for e in p.evs("store") if e.d["target"] == F and e.d["value"] == ("const", None)]
            calls = [e for e in p.calls() if e.d["func"] == F]
            rep.ob("R-REFS-FUTURE", "%s drops its target before calling it" % wc.name, len(dels) >= 1 and len(calls) == 1 and dels[0].seq < calls[0].seq and tuple(calls[0].d["args"]) == (("star", ("seq", (), ("param", call.vararg), 0)),), "", where_of(call), trace_of(p))

    # the combinators register their own methods on futures the user handed in (possibly plain stdlib futures, which
    # keep their callback list for as long as they live): those registrations go through the call-once wrapper, or
    # a long-lived input keeps the whole operation -- output future, results, the other inputs -- alive
    nreg = 0
    for cn in ("OrOperation", "AndOperation", "Zipper"):
        try:
            oc = prog.cls(cn)
        except AnalysisError:
            continue
        o, oinit = oc.lookup("__init__")
        if oinit is None:
            continue
        ps, it = ctx.paths(oinit, oc, depth=1, inline=lambda callee, ev, path: callee.owner is not None and callee.owner in oc.mro() and callee.name != "__init__")
        for p in ps:
            for e in p.calls():
                r = q.recv(e)
                if q.call_name(e) == "add_done_callback" and e.d["args"] and isinstance(r, tuple) and r[0] == "elem":
                    cb = e.d["args"][0]
                    wrapped = isinstance(cb, tuple) and cb[0] == "new" and prog.classes.get(cb[1]) in wrappers
                    nreg += 1
                    rep.ob("R-REFS-FUTURE", "%s registers its callback on the inputs through the call-once wrapper" % cn, wrapped, "the input future gets %s directly: a plain concurrent.futures.Future never forgets its callbacks, so an input that outlives the operation keeps the operation, its output future and every collected result alive" % fmt(cb), where_of(e.fn, e.node), trace_of(p, e.seq))
    rep.count("callback registrations of combinators on their inputs", nreg, 2)

    # the set of futures tracked for the shutdown sweep: a future that is already done when it is registered must not
    # stay in it (shared with C10)
    from .c10 import discard_order_rule
    discard_order_rule(ctx, rep, "R-REFS-JOBS")
    # a poll entry is removed by the future's own done-callback, so it must not be possible for the future to
    # finish before the entry exists (shared with C08)
    from .c08 import register_order_rule
    register_order_rule(ctx, rep, "R-REFS-JOBS")

    # ---- R-REFS-JOBS
    rex = prog.cls("RetryExecutor")
    rfut = prog.cls("RetryFuture")
    layer = roles.Layer(ctx, rex)
    rep.require(layer.callback is not None, "RetryExecutor: delegate callback not identified")
    cb = layer.callback
    RQ = roles.Queue(ctx, rex)
    RREM = roles.removers(ctx, RQ)
    FUTF = RQ.roles["future"]
    ps, it = ctx.paths(cb, rex, depth=6, inline=_no_cb_inline)
    nres = 0
    for p in ps:
        if p.status != "return":
            continue
        job = None
        for e in p.calls():
            if e.d["callee"] is not None and e.d["args"] and isinstance(e.d["args"][0], tuple) and e.d["args"][0][0] == "elem":
                job = e.d["args"][0]
        for b in p.evs("branch"):
            for sub in subterms(b.d[0]):
                if sub[0] == "attr" and sub[2] == FUTF and isinstance(sub[1], tuple) and sub[1][0] == "elem":
                    job = sub[1]
        if job is None:
            continue
        D = ("attr", job, FUTF)
        terms = [e for e in p.calls() if terminal_on(e, D, it, p)]
        if not terms:
            continue
        # infeasible: future.done() answering False after its state transition succeeded on this path
        if any(b.seq > terms[0].seq and b.d[1] is False and isinstance(b.d[0], tuple) and b.d[0][0] == "call" and b.d[0][1][0] == "attr" and b.d[0][1][2] == "done" for b in p.evs("branch")):
            continue
        nres += 1
        pj = [e for e, j in roles.removal_actions(p, it, RQ, RREM) if j == job or (j is None and roles._removes(e, job, p))]
        rep.ob("R-REFS-JOBS", "_delegate_callback: a resolved/cancelled future's job is removed", bool(pj), "the future of %s is finished on this path but its job stays in the list, keeping future, callable and arguments alive" % fmt(job), where_of(cb), trace_of(p))
    rep.require(nres >= 3, "_delegate_callback: resolving paths not found")
    # the worker loop's own resolving branch (a job whose retrying was stopped is finished by the worker): the job
    # must leave the list in the same iteration, or it is selected again and again and stays referenced for ever
    rep.require(layer.loop is not None, "RetryExecutor: worker loop not identified")
    ps, it = ctx.paths(layer.loop, layer.loop.owner, depth=6, inline=_no_cb_inline, maxpaths=20000)
    nloop = 0
    for p in ps:
        if p.status not in ("loop", "return"):
            continue
        jobs = set()
        for e in p.calls():
            r = q.recv(e)
            if isinstance(r, tuple) and r[0] == "attr" and r[2] == FUTF and isinstance(r[1], tuple) and r[1][0] == "elem" and terminal_on(e, r, it, p):
                jobs.add(r[1])
        for job in jobs:
            nloop += 1
            pj = [e for e, j in roles.removal_actions(p, it, RQ, RREM) if j == job or (j is None and roles._removes(e, job, p))]
            rep.ob("R-REFS-JOBS", "%s: a job whose future the worker resolves is removed in the same iteration" % layer.loop.qualname, bool(pj), "the worker resolves the future of %s but leaves its job in the list: the job is selected again on every iteration (a busy loop) and future, callable and arguments stay referenced for ever" % fmt(job), where_of(layer.loop), trace_of(p))
    rep.require(nloop >= 1, "retry worker loop: the branch that resolves a stopped job's future was not found")
    cm = fut.methods.get("cancel")
    ps, it = ctx.paths(cm, rfut, depth=6, inline=_no_cb_inline)
    nt = 0
    for p in ps:
        if p.status != "return" or p.value == ("const", False):
            continue
        stdc = [e for e in p.calls() if q.is_super_call(e, "cancel") and e.d["callee"] is None]
        if not stdc:
            continue
        nt += 1
        pj = roles.removal_actions(p, it, RQ, RREM)
        rep.ob("R-REFS-JOBS", "RetryFuture.cancel: a successful cancel has removed the job", bool(pj), "cancel() goes on to cancel the future but no job was removed: the record stays in the executor for ever", where_of(cm), trace_of(p))
    rep.require(nt >= 2, "RetryFuture.cancel: cancelling paths not found")


def _strong(v, li, p):
    """does value v keep the executor (or one of its job records) alive?"""
    if not isinstance(v, tuple):
        return None
    X = li.exec_term
    if v == X:
        return "the executor"
    if v[0] == "elem" and contains(v[1], X):
        return "an entry of %s" % fmt(v[1])
    if v[0] == "tuple":
        for x in v[1]:
            w = _strong(x, li, p)
            if w:
                return w
    if v[0] == "list":
        for x in v[1]:
            w = _strong(x, li, p)
            if w:
                return w
    return None


def _setdel_only(callee, ev, path):
    return callee.name == "_set_delegate"
