"""C17 -- f_proxy is transparent for forwarded operations; f_nocancel shields cancel.

Decided:
  R-OPTABLE   every operator method defined by ProxyFuture applies the canonical Python operator / builtin for
              its name to the awaited result with its own parameters in order (so values and exception types
              coincide with applying the operation to f.result())
  R-AWAIT     the awaited result is self.result(<configured timeout>), and the timeout given to f_proxy reaches it
  R-NOBLOCK   __bool__ is the constant True; no method of the library part of the MRO named __eq__/__hash__/
              __repr__/__str__/... awaits the result; __getattr__ refuses every name starting with "__"
              before touching the result
  R-NOCANCEL  NoCancelFuture.cancel returns the constant False on every path and reaches no cancel call
Not decided: values; this shows the proxy applies the *same operation*.
"""
from ..core import where_of, trace_of
from ..interp import fmt, contains
from ..model import AnalysisError, ClassInfo
from .. import q
from .. import roles

BIN = {
    "add": "+", "sub": "-", "mul": "*", "truediv": "/", "floordiv": "//", "mod": "%", "lshift": "<<", "rshift": ">>",
    "and": "&", "xor": "^", "or": "|", "matmul": "@",
}
UNARY = {"neg": "-", "pos": "+", "invert": "~"}
BUILTIN1 = {"len": "len", "iter": "iter", "abs": "abs", "complex": "complex", "int": "int", "float": "float", "index": "operator.index", "reversed": "reversed", "next": "next"}
MATH1 = {"trunc": "math.trunc", "floor": "math.floor", "ceil": "math.ceil"}
PY2_ONLY = {"__div__", "__nonzero__", "__rdiv__", "__idiv__", "__long__", "__unicode__", "__cmp__", "__getslice__"}
NONBLOCKING = {"__eq__", "__ne__", "__hash__", "__repr__", "__str__", "__format__", "__bytes__", "__lt__", "__le__", "__gt__", "__ge__", "__bool__", "__dir__", "__sizeof__", "__reduce__", "__reduce_ex__", "__getstate__", "__copy__", "__deepcopy__", "__class_getitem__", "__init_subclass__", "__instancecheck__", "__subclasscheck__"}
NOT_OPERATORS = {"__init__", "__new__", "__del__", "__getattr__", "__getattribute__", "__setattr__", "__delattr__", "__call__", "__enter__", "__exit__", "__aenter__", "__aexit__", "__await__"}


def _is_name_call(v, names, R, extra=None):
    """v == names(R, *extra)"""
    if not (isinstance(v, tuple) and v[0] == "call"):
        return False
    f = v[1]
    fname = None
    if isinstance(f, tuple) and f[0] == "name":
        fname = f[1]
    elif isinstance(f, tuple) and f[0] == "ext":
        fname = f[1]
    elif isinstance(f, tuple) and f[0] == "attr" and isinstance(f[1], tuple) and f[1][0] == "extmod":
        fname = "%s.%s" % (f[1][1], f[2])
    if fname not in names:
        return False
    want = (R,) + tuple(extra or ())
    return tuple(v[2]) == want and not v[3]


def expected(name, R, params, fi):
    """returns a predicate description: ('ret', fn(value)->bool) | ('store', ...) | ('del', ...) | None (unknown)"""
    core = name[2:-2]
    P = lambda i: ("param", params[i]) if i < len(params) else None  # noqa: E731
    if core in BIN:
        return ("ret", lambda v: v == ("bin", BIN[core], R, P(0)), "self.<result> %s %s" % (BIN[core], params[0] if params else "?"))
    if core[:1] == "r" and core[1:] in BIN:
        return ("ret", lambda v: v == ("bin", BIN[core[1:]], P(0), R), "%s %s self.<result>" % (params[0] if params else "?", BIN[core[1:]]))
    if core in UNARY:
        return ("ret", lambda v: v == ("unary", UNARY[core], R), "%sself.<result>" % UNARY[core])
    if core in BUILTIN1:
        return ("ret", lambda v: _is_name_call(v, (BUILTIN1[core],), R), "%s(self.<result>)" % BUILTIN1[core])
    if core in MATH1:
        return ("ret", lambda v: _is_name_call(v, (MATH1[core],), R), "%s(self.<result>)" % MATH1[core])
    if core == "divmod":
        return ("ret", lambda v: _is_name_call(v, ("divmod",), R, (P(0),)), "divmod(self.<result>, other)")
    if core == "rdivmod":
        return ("ret", lambda v: isinstance(v, tuple) and v[0] == "call" and v[1] == ("name", "divmod") and tuple(v[2]) == (P(0), R), "divmod(other, self.<result>)")
    if core == "pow":
        def ok(v):
            if _is_name_call(v, ("pow",), R, (P(0),)) and not fi.vararg and len(params) == 1:
                return True
            if fi.vararg:
                return _is_name_call(v, ("pow",), R, (P(0), ("star", ("seq", (), ("param", fi.vararg), 0))))
            if len(params) == 2:
                return _is_name_call(v, ("pow",), R, (P(0), P(1)))
            return v == ("bin", "**", R, P(0))
        return ("ret", ok, "pow(self.<result>, other, *modulo)")
    if core == "round":
        def ok(v):
            if fi.vararg:
                return _is_name_call(v, ("round",), R, (("star", ("seq", (), ("param", fi.vararg), 0)),))
            if params:
                return _is_name_call(v, ("round",), R, (P(0),))
            return _is_name_call(v, ("round",), R)
        return ("ret", ok, "round(self.<result>, *ndigits)")
    if core == "getitem":
        return ("ret", lambda v: v == ("sub", R, P(0)), "self.<result>[key]")
    if core == "contains":
        return ("ret", lambda v: v == ("cmp", "in", P(0), R), "item in self.<result>")
    if core == "setitem":
        return ("store", lambda t, val: t == ("sub", R, P(0)) and val == P(1), "self.<result>[key] = value")
    if core == "delitem":
        return ("del", lambda t: t == ("sub", R, P(0)), "del self.<result>[key]")
    return None


def check(ctx, rep):
    prog = ctx.prog
    rep.rule("R-OPTABLE", "each operator method of ProxyFuture applies the canonical operator/builtin of its name to the awaited result with its own parameters in order, and does nothing else with the result")
    rep.rule("R-AWAIT", "the awaited result is self.result(timeout) with the timeout the proxy was constructed with; f_proxy passes its `timeout` keyword (default MAX_TIMEOUT) to the constructor")
    rep.rule("R-NOBLOCK", "__bool__ returns the constant True without awaiting; identity/formatting/comparison methods are not defined in a way that awaits the result; __getattr__ raises for every name with the prefix '__' before awaiting")
    rep.rule("R-NOCANCEL", "NoCancelFuture.cancel returns the constant False on every path and calls nothing that could cancel the wrapped future")

    proxy = prog.cls("ProxyFuture")
    # ---- the awaited result: a property whose paths all return self.result(<timeout field>)
    props = [m for m in proxy.methods.values() if m.is_property]
    rep.require(len(props) == 1, "ProxyFuture: expected exactly one property (the awaited result), found %d" % len(props))
    resprop = props[0]
    ps, it = ctx.paths(resprop, proxy)
    Rs = set()
    for p in ps:
        if p.status == "return":
            Rs.add(p.value)
    rep.require(len(Rs) == 1, "ProxyFuture result property: expected one returned form")
    R = Rs.pop()
    form = isinstance(R, tuple) and R[0] == "call" and R[1] == ("attr", ("param", "self"), "result")
    rep.require(form, "cannot identify the awaited-result expression of ProxyFuture (expected a call of self.result)")
    ok = len(R[2]) == 1 and not R[3] and q.self_field(R[2][0])
    rep.ob("R-AWAIT", "ProxyFuture.<result property>", ok, "the awaited result must be self.result(self.<timeout field>), found %s" % fmt(R), where_of(resprop))
    tfield = R[2][0][2] if ok else None
    init = proxy.methods.get("__init__")
    rep.require(init is not None, "ProxyFuture.__init__ not found")
    ps, it = ctx.paths(init, proxy)
    for p in ps:
        if tfield is None:
            break
        st = [e for e in p.evs("store") if q.self_field(e.d["target"], tfield)]
        okk = len(st) == 1 and st[0].d["value"] == ("param", "timeout")
        rep.ob("R-AWAIT", "ProxyFuture.__init__ stores the timeout", okk, "the timeout field must be assigned the constructor's timeout parameter", where_of(init))
    fproxy = prog.fn("proxy:f_proxy")
    ps, it = ctx.paths(fproxy, None, depth=0)
    n = 0
    for p in ps:
        for e in p.calls():
            if e.d["func"] == ("class", proxy.key):
                n += 1
                bp = roles.bound(e, prog)
                pnames = init.params[1:]
                tv = bp.get("timeout")
                fv = bp.get(pnames[0]) if pnames else None
                good = isinstance(tv, tuple) and tv[0] == "call" and isinstance(tv[1], tuple) and tv[1][0] == "attr" and tv[1][2] in ("pop", "get") and tv[2][:1] == (("const", "timeout"),) and len(tv[2]) == 2 and tv[2][1][0] == "global" and tv[2][1][2] == "MAX_TIMEOUT"
                good = good and fv == ("param", fproxy.params[0])
                rep.ob("R-AWAIT", "f_proxy constructs the proxy", good, "f_proxy must pass the input future and kwargs['timeout'] (default MAX_TIMEOUT) to ProxyFuture, found timeout=%s" % (fmt(tv) if tv else None), where_of(fproxy, e.node))
    rep.require(n >= 1, "f_proxy: construction of ProxyFuture not found")

    rep.rule("R-PROBE", "library code that handles a future it was given never uses hasattr/getattr on it with a name outside the Future API (a proxy would forward the lookup to the awaited result)")
    probe_rule(ctx, rep, "R-PROBE")
    # "the wrapper still mirrors f's outcome" / "raises f's exception if f failed": NoCancelFuture and ProxyFuture are
    # map futures with the identity function, so their rows of the map table (input cancelled / value / failed) are
    # part of this property (shared with C13)
    from . import c13
    from ..core import Report
    sub = Report(rep.pid, ctx)
    c13.check(ctx, sub)
    rep.rule("R-MIRROR", "NoCancelFuture / ProxyFuture rows of the map table: input cancelled -> cancelled, value -> the same value, failed -> the same exception")
    for o in sub.obs:
        k = o.key
        if k.split(":")[0].split(" ")[0] in ("NoCancelFuture", "ProxyFuture") and not (("error_fn" in k or "error function" in k) and "no error_fn" not in k) and not k.endswith("all table rows reached") and "map_fn raises" not in k:
            rep.ob("R-MIRROR", k, o.ok, o.detail, o.where, o.trace)

    # ---- operator table
    forwarded = 0
    lib_mro = [c for c in proxy.mro() if isinstance(c, ClassInfo)]
    for name, m in sorted(proxy.methods.items()):
        if not (name.startswith("__") and name.endswith("__")) or m.is_property:
            continue
        if name in NOT_OPERATORS or name in NONBLOCKING:
            continue
        if name in PY2_ONLY:
            rep.exception("R-OPTABLE", "ProxyFuture.%s" % name, "Python 2 protocol only; never invoked by the Python 3 interpreter")
            continue
        params = m.params[1:]
        exp = expected(name, R, params, m)
        if exp is None:
            raise AnalysisError("ProxyFuture.%s: no canonical form known for this special method" % name)
        forwarded += 1
        ps, it = ctx.paths(m, proxy)
        key = "ProxyFuture.%s" % name
        for p in ps:
            if p.status == "raise":
                continue
            awaits = [e for e in p.calls() if e.d["func"] == R[1]]
            others = [e for e in p.calls() if not e.d.get("property") and e.d["func"] != R[1] and not e.d.get("builtin") and contains(e.d["func"], R) and e.d["func"][0] == "attr"]
            if exp[0] == "ret":
                good = p.status == "return" and exp[1](p.value) and not others
                rep.ob("R-OPTABLE", key, good, "expected `return %s`, found `%s`%s" % (exp[2], fmt(p.value), (" with method call %s on the result" % fmt(others[0].d["func"])) if others else ""), where_of(m), trace_of(p))
            elif exp[0] == "store":
                st = [e for e in p.evs("store") if contains(e.d["target"], R)]
                good = len(st) == 1 and exp[1](st[0].d["target"], st[0].d["value"]) and not others
                rep.ob("R-OPTABLE", key, good, "expected `%s`" % exp[2], where_of(m), trace_of(p))
            else:
                dl = [e for e in p.evs("del") if contains(e.d["target"], R)]
                good = len(dl) == 1 and exp[1](dl[0].d["target"]) and not others
                rep.ob("R-OPTABLE", key, good, "expected `%s`" % exp[2], where_of(m), trace_of(p))
            rep.ob("R-AWAIT", key + " awaits once", len(awaits) == 1, "the result must be awaited exactly once per operation (found %d)" % len(awaits), where_of(m), trace_of(p))
    rep.count("forwarded operator methods", forwarded, 29)

    # ---- non-blocking methods
    for c in lib_mro:
        for name, m in sorted(c.methods.items()):
            if name in NONBLOCKING:
                ps, it = ctx.paths(m, proxy)
                for p in ps:
                    awaits = [e for e in p.calls() if q.call_name(e) in ("result", "exception") or e.d.get("property")]
                    key = "%s.%s does not await" % (c.name, name)
                    rep.ob("R-NOBLOCK", key, not awaits, "%s awaits the result (%s)" % (name, fmt(awaits[0].d["func"]) if awaits else ""), where_of(m), trace_of(p))
                    if name == "__bool__":
                        rep.ob("R-NOBLOCK", "%s.__bool__ is True" % c.name, p.status == "return" and p.value == ("const", True), "__bool__ must return the constant True, found %s" % fmt(p.value), where_of(m))
    o, mbool = proxy.lookup("__bool__")
    rep.ob("R-NOBLOCK", "ProxyFuture defines __bool__", mbool is not None, "without __bool__ truth-testing falls back to __len__ and blocks", where_of(resprop))
    ga = proxy.methods.get("__getattr__")
    rep.require(ga is not None, "ProxyFuture.__getattr__ not found")
    ps, it = ctx.paths(ga, proxy)
    nparam = ("param", ga.params[1])
    saw_refuse = False
    for p in ps:
        awaits = [e for e in p.calls() if e.d["func"] == R[1]]
        guards = [e for e in p.evs("branch") if isinstance(e.d[0], tuple) and e.d[0][0] == "call" and e.d[0][1] == ("attr", nparam, "startswith")]
        key = "ProxyFuture.__getattr__ [%s]" % q.path_sig(p)[:100]
        for g in guards:
            lit = g.d[0][2]
            rep.ob("R-NOBLOCK", "ProxyFuture.__getattr__ guard prefix", lit == (("const", "__"),), "the refused prefix must be exactly '__' (found %s): wider blocks ordinary attributes, narrower lets dunder probes block" % [fmt(x) for x in lit], where_of(ga, g.node))
            if g.d[1] is True:
                saw_refuse = True
                rep.ob("R-NOBLOCK", key + " refuses", p.status == "raise" and p.value[1] == "AttributeError" and not awaits, "a name starting with '__' must raise AttributeError without awaiting", where_of(ga, g.node), trace_of(p))
        if awaits:
            okg = any(g.d[1] is False and g.seq < awaits[0].seq for g in guards)
            rep.ob("R-NOBLOCK", key + " guard before await", okg, "the result is awaited without first refusing names starting with '__'", where_of(ga), trace_of(p))
            if p.status == "return":
                good = p.value == ("call", ("name", "getattr"), (R, nparam), (), None)
                rep.ob("R-OPTABLE", "ProxyFuture.__getattr__ forwards", good, "expected getattr(self.<result>, name), found %s" % fmt(p.value), where_of(ga))
    rep.ob("R-NOBLOCK", "ProxyFuture.__getattr__ has a refusing path", saw_refuse, "no path refuses dunder names", where_of(ga))

    # ---- f_nocancel
    nc = prog.cls("NoCancelFuture")
    o, cm = nc.lookup("cancel")
    rep.require(cm is not None, "NoCancelFuture: no cancel() in the library part of the MRO")
    ps, it = ctx.paths(cm, nc)
    for p in ps:
        HK = roles.proto(ctx).hook
        bad = [e for e in p.calls() if q.call_name(e) in ("cancel", HK) or (e.d["callee"] is not None and e.d["callee"].name in ("cancel", HK))]
        rep.ob("R-NOCANCEL", "NoCancelFuture.cancel returns False", p.status == "return" and p.value == ("const", False), "cancel() of the shield (resolved to %s) must return the constant False on every path, found %s (%s) on path [%s]" % (cm.qualname, fmt(p.value), p.status, q.path_sig(p)[:80]), where_of(cm), trace_of(p))
        rep.ob("R-NOCANCEL", "NoCancelFuture.cancel calls nothing that cancels", not bad, "cancel() of the shield reaches %s" % (fmt(bad[0].d["func"]) if bad else ""), where_of(cm), trace_of(p))
    fnc = prog.fn("nocancel:f_nocancel")
    ps, it = ctx.paths(fnc, None, depth=0)
    made = [e for p in ps for e in p.calls() if e.d["func"] == ("class", nc.key)]
    o_, ninit = nc.lookup("__init__")
    dparam = ninit.params[1] if ninit is not None and len(ninit.params) > 1 else None
    rep.ob("R-NOCANCEL", "f_nocancel returns the shield", bool(made) and all(roles.bound(e, prog).get(dparam) == ("param", fnc.params[0]) for e in made), "f_nocancel must wrap its argument in NoCancelFuture", where_of(fnc))


FUTURE_API = {"cancel", "cancelled", "running", "done", "result", "exception", "add_done_callback", "set_running_or_notify_cancel", "set_result", "set_exception"}
FUTURE_USE = FUTURE_API | {"exception_info", "set_exception_info"}


def probe_rule(ctx, rep, rule):
    """shared with C16: library code never *probes* a future it was handed for an attribute that not every Future
    has (hasattr / getattr with such a name).  A proxy future forwards unknown attributes to the awaited result, so
    the probe blocks or re-raises the future's exception in the middle of library code (use `name in dir(f)`)."""
    prog = ctx.prog
    n = 0
    for fi in sorted(prog.functions.values(), key=lambda f: f.key):
        if fi.parent is not None:
            continue
        for ci in ctx.instances(fi):
            ps, it = ctx.paths(fi, ci, depth=0)
            used = set()
            for p in ps:
                for e in p.calls():
                    if e.fn is fi and q.call_name(e) in FUTURE_USE and isinstance(q.recv(e), tuple):
                        used.add(q.recv(e))
            for p in ps:
                for e in p.calls():
                    if e.fn is not fi or e.d["func"] not in (("name", "hasattr"), ("name", "getattr")) or len(e.d["args"]) < 2:
                        continue
                    x, nm = e.d["args"][0], e.d["args"][1]
                    if x == ("param", "self") or x not in used:
                        continue
                    n += 1
                    safe = isinstance(nm, tuple) and nm[0] == "const" and nm[1] in FUTURE_API
                    rep.ob(rule, "%s: no attribute probing of a future it was handed" % fi.qualname, safe, "%s(%s, %s): if the future is a proxy (f_proxy) the lookup of an attribute the Future class does not define is forwarded to the awaited result -- it blocks, or raises the future's own exception here, and the outcome is never copied" % (e.d["func"][1], fmt(x), fmt(nm)), where_of(fi, e.node), trace_of(p, e.seq))
    return n

