"""C11 -- shutdown: submit refuses afterwards, idempotent, propagates, joins, returns.

Decided (structure of every path):
  R-GATE     every effect of a public submit* (delegate interaction, user call, enqueue) happens with the
             executor's own shutdown gate held, and the gate raises the documented RuntimeError when shut
  R-HELPER   ShutdownHelper: flag test-and-set and ensure_alive use one lock; first caller wins
  R-SHUT     every shutdown(): nothing happens on a repeated call; on the first call exactly one delegate
             shutdown with the caller's arguments forwarded unchanged, the worker is woken, join only under
             `wait` and after the wake-up
             (no in-place change of *args / **kwargs before); the executor's own flag is set before the
             delegate's / base class's shutdown is called
  R-LOOPTOP  every worker loop decides (executor collected?, executor shut down?, interpreter exiting?) on
             every iteration before doing any work, and leaves the loop when any of them says so
  R-LOOPWRAP thread targets are wrapped by executor_loop, which swallows only the 'cannot schedule new
             futures' RuntimeError
Not decided: that the thread really exits / join returns in bounded time.
"""
from ..core import where_of, trace_of
from ..interp import fmt, contains
from ..model import AnalysisError
from .. import q

MSG = "cannot schedule new futures after shutdown"


def helper_lock_field(ctx):
    helper = ctx.prog.cls("ShutdownHelper")
    fields = [f for (ck, f), ts in ctx.types.field_types.items() if ck == helper.key and ts & {"E:Lock", "E:RLock"}]
    if len(fields) != 1:
        raise AnalysisError("ShutdownHelper: expected exactly one lock field, found %s" % fields)
    return helper, fields[0]


def gate_flag(ctx):
    """name of the helper's flag: the field its __call__ sets to True"""
    helper, lf = helper_lock_field(ctx)
    call_fi = helper.methods.get("__call__")
    if call_fi is None:
        raise AnalysisError("ShutdownHelper.__call__ not found")
    ps, it = ctx.paths(call_fi, helper)
    flags = set(e.d["target"][2] for p in ps for e in p.evs("store") if q.self_field(e.d["target"]) and e.d["value"] == ("const", True))
    if len(flags) != 1:
        raise AnalysisError("ShutdownHelper.__call__: expected exactly one flag set to True, found %s" % sorted(flags))
    return flags.pop()


def is_gate_lock(ctx, it, path, lockterm):
    """lockterm is <x>.<lockfield> with x a ShutdownHelper"""
    helper, lf = helper_lock_field(ctx)
    return isinstance(lockterm, tuple) and lockterm[0] == "attr" and lockterm[2] == lf and it.type_of(lockterm[1], path) == "C:" + helper.key


def gate_held(ctx, it, path, ev, owner=("param", "self")):
    for l in ev.locks:
        t = l[1]
        if is_gate_lock(ctx, it, path, t) and isinstance(t[1], tuple) and t[1][0] == "attr" and t[1][1] == owner:
            return True
    return False


def submit_methods(ci):
    out = []
    seen = set()
    for c in ci.mro():
        if hasattr(c, "methods"):
            for n, m in c.methods.items():
                if (n == "submit" or n.startswith("submit_")) and n not in seen:
                    seen.add(n)
                    out.append(m)
    return out


def is_effect(ctx, it, path, ev):
    """an effect of submit that must be covered by the gate"""
    if ev.kind != "call" or q.is_log(ev):
        return None
    d = ev.d
    if d.get("user"):
        return "call of user code %s" % fmt(d["func"])
    f = d["func"]
    if q.is_super_call(ev, "submit"):
        return "hand-over to the base class submit"
    if isinstance(f, tuple) and f[0] == "attr":
        r = f[1]
        if isinstance(r, tuple) and r[0] == "attr" and r[1] == ("param", "self") and r[2] == "_delegate":
            return "delegate call %s" % fmt(f)
        if f[2] in ("append", "appendleft", "add", "insert", "extend") and isinstance(r, tuple) and r[0] == "attr" and r[1] == ("param", "self"):
            return "enqueue %s" % fmt(f)
    return None


def check_helper(ctx, rep, helper, lockfield):
    rep.rule("R-HELPER", "ShutdownHelper.__call__ tests and sets the flag under the helper's lock and returns True exactly for the call that set it; ensure_alive takes the same lock, raises the documented RuntimeError when the flag is set and yields with the lock held")
    # ------------------------------------------------------------- R-HELPER
    call_fi = helper.methods.get("__call__")
    alive_fi = helper.methods.get("ensure_alive")
    rep.require(call_fi is not None and alive_fi is not None, "ShutdownHelper.__call__ / ensure_alive not found")
    ps, it = ctx.paths(call_fi, helper)
    flag_fields = set()
    for p in ps:
        for e in p.evs("store"):
            t = e.d["target"]
            if q.self_field(t) and e.d["value"] == ("const", True):
                flag_fields.add(t[2])
    rep.require(len(flag_fields) == 1, "ShutdownHelper.__call__: expected exactly one flag set to True, found %s" % sorted(flag_fields))
    flag = flag_fields.pop()
    n_true = n_false = 0
    for p in ps:
        stores = [e for e in p.evs("store") if q.self_field(e.d["target"], flag)]
        key = "ShutdownHelper.__call__[%s]" % q.path_sig(p)
        if p.status != "return":
            rep.ob("R-HELPER", key, False, "path does not return a value", where_of(call_fi), trace_of(p))
            continue
        if stores:
            n_true += 1
            ok = p.value == ("const", True) and all(any(l[1] == ("attr", ("param", "self"), lockfield) for l in e.locks) for e in stores)
            br = [b for b in p.branch_atoms() if b[0] == ("attr", ("param", "self"), flag)]
            ok = ok and br and br[0][1] is False
            tested_under_lock = all(any(l[1] == ("attr", ("param", "self"), lockfield) for l in e.locks) for e in p.evs("branch") if e.d[0] == ("attr", ("param", "self"), flag))
            rep.ob("R-HELPER", key, ok and tested_under_lock, "the flag-setting path must test the flag (false), set it and return True, all under self.%s" % lockfield, where_of(call_fi), trace_of(p))
        else:
            n_false += 1
            br = [b for b in p.branch_atoms() if b[0] == ("attr", ("param", "self"), flag)]
            ok = p.value == ("const", False) and br and br[0][1] is True
            rep.ob("R-HELPER", key, ok, "a call that does not set the flag must have seen it set and return False", where_of(call_fi), trace_of(p))
    rep.require(n_true >= 1 and n_false >= 1, "ShutdownHelper.__call__: expected a flag-setting and a non-setting path")
    ps, it = ctx.paths(alive_fi, helper)
    saw_raise = saw_yield = False
    for p in ps:
        key = "ShutdownHelper.ensure_alive[%s]" % q.path_sig(p)
        ys = p.evs("yield")
        br = [e for e in p.evs("branch") if e.d[0] == ("attr", ("param", "self"), flag)]
        if p.status == "raise":
            saw_raise = True
            v = p.value
            msg_ok = isinstance(v, tuple) and v[0] == "exc" and v[1] == "RuntimeError" and isinstance(v[2], tuple) and v[2][0] == "call" and v[2][2] == (("const", MSG),)
            ok = msg_ok and br and br[0].d[1] is True and not ys and any(l[1] == ("attr", ("param", "self"), lockfield) for l in br[0].locks)
            rep.ob("R-HELPER", key, ok, "when the flag is set ensure_alive must raise RuntimeError(%r) without yielding" % MSG, where_of(alive_fi), trace_of(p))
        else:
            saw_yield = saw_yield or bool(ys)
            ok = len(ys) == 1 and br and br[0].d[1] is False and any(l[1] == ("attr", ("param", "self"), lockfield) for l in ys[0].locks) and any(l[1] == ("attr", ("param", "self"), lockfield) for l in br[0].locks)
            rep.ob("R-HELPER", key, ok, "ensure_alive must test the flag and yield exactly once, both under self.%s" % lockfield, where_of(alive_fi), trace_of(p))
    rep.ob("R-HELPER", "ShutdownHelper.ensure_alive refuses after shutdown and admits before", saw_raise and saw_yield, "ensure_alive has %s: after shutdown() a submit must be refused with the documented RuntimeError, before it the body must run" % ("no raising path" if not saw_raise else "no yielding path"), where_of(alive_fi))

    return flag


def looptop_rule(ctx, rep, flag=None, helper=None):
    """shared with C03: every iteration of a worker decides the stop conditions before doing work, and the thread
    leaves its loop only when one of them is true"""
    prog = ctx.prog
    if helper is None:
        helper, _lf = helper_lock_field(ctx)
    if flag is None:
        flag = gate_flag(ctx)
    if "R-LOOPTOP" not in rep.rules:
        rep.rule("R-LOOPTOP", "every worker loop decides 'executor collected / shut down / interpreter exiting' before any work of an iteration, and returns only when one of them is true")
    if "R-LOOPWRAP" not in rep.rules:
        rep.rule("R-LOOPWRAP", "every worker thread target is wrapped by executor_loop")
    # ------------------------------------------------------------ R-LOOPTOP
    rep.count("worker threads", len(ctx.types.thread_targets), 4)
    loopwrap = prog.fn("helpers:executor_loop")
    for owner, target, node, initfi in ctx.types.thread_targets:
        rep.ob("R-LOOPWRAP", "%s: wrapped by executor_loop" % target.qualname, "executor_loop" in target.decorators, "thread target is not decorated with executor_loop", where_of(target))
        # the constructor starts the thread it builds (directly or through a factory helper)
        o_, cinit = owner.lookup("__init__")
        if cinit is not None:
            cps, cit = ctx.paths(cinit, owner, depth=2, inline=lambda callee, ev, path: callee.name != "__init__" and (callee is initfi or callee.key in ctx.types.thread_factories or (callee.owner is not None and callee.owner in owner.mro())))
            for cp in cps:
                if cp.status == "raise":
                    continue
                ths = [e for e in cp.calls() if e.d["func"] == ("ext", "threading.Thread")]
                if not ths:
                    continue
                tobj = ths[0].d.get("result")
                holders = [tobj] + [k for k, v in cp.heap.items() if v == tobj] + [("attr", ("param", "self"), k[2]) for k, v in cp.heap.items() if v == tobj and k[0] == "attr"]
                started = [e for e in cp.calls() if q.call_name(e) == "start" and (q.recv(e) in holders or cp.heap.get(q.recv(e)) == tobj)]
                rep.ob("R-LOOPWRAP", "%s: the worker thread is started by the constructor" % owner.name, len(started) == 1, "the thread object is built but start() is called %d times: with no worker nothing is ever handed over / polled / timed out" % len(started), where_of(cinit), trace_of(cp))
        ps, it = ctx.paths(target, target.owner if target.owner else None)
        gates = ctx.gate_field(owner)
        n_iter = 0
        for p in ps:
            # classify events
            deref = None
            for e in p.evs("branch"):
                if it.type_of(e.d[0], p) == "C:" + owner.key:
                    deref = e
                    break
            shut = None
            for e in p.evs("branch"):
                t = e.d[0]
                if isinstance(t, tuple) and t[0] == "attr" and t[2] == flag and it.type_of(t[1], p) == "C:" + helper.key:
                    shut = e
                    break
            glob = None
            isd = [e for e in p.calls() if e.d["callee"] is not None and e.d["callee"].qualname == "is_shutdown"]
            if isd:
                rets = [e for e in p.evs("return") if e.fn is isd[0].d["callee"] and e.seq > isd[0].seq]
                if rets:
                    for e in p.evs("branch"):
                        if e.d[0] == rets[0].d and e.seq > rets[0].seq:
                            glob = e
                            break
            work = None
            for e in p.events:
                if e.kind == "enter":
                    work = e
                    break
                if e.kind == "call" and not q.is_log(e):
                    c = e.d["callee"]
                    if e.d.get("user"):
                        work = e
                        break
                    if c is not None and c.qualname == "is_shutdown":
                        continue
                    if c is not None and c.owner is None and e.d["inlined"] and c.module is target.module and c.name.endswith("_iter"):
                        continue  # the loop body helper itself
                    if c is not None and c.owner is owner and e.d["inlined"] and c.name.endswith("_iter"):
                        continue
                    f = e.d["func"]
                    if isinstance(f, tuple) and f[0] == "param":
                        continue  # the weakref dereference
                    if e.d.get("builtin"):
                        continue
                    work = e
                    break
            sig = q.path_sig(p)
            key = "%s [%s]" % (target.qualname, sig[:120])
            stop = (deref is not None and deref.d[1] is False) or (shut is not None and shut.d[1] is True) or (glob is not None and glob.d[1] is True)
            if stop:
                stop_ev = [e for e in (deref, shut, glob) if e is not None and ((e is deref and e.d[1] is False) or (e is not deref and e.d[1] is True))][0]
                ok = p.status == "return" and (work is None or work.seq > stop_ev.seq and False)
                rep.ob("R-LOOPTOP", key + " leaves the loop", ok, "a positive stop test must end the loop without doing work (status %s)" % p.status, where_of(target), trace_of(p))
                continue
            if p.status == "return":
                # the thread function returns although no stop condition was found true on this path
                rep.ob("R-LOOPTOP", key + " keeps running", False, "the worker thread leaves its loop (returns) on a path where the executor was neither collected nor shut down and the interpreter is not exiting: every future still queued or submitted later is never served", where_of(target), trace_of(p))
                continue
            if work is None and p.status != "loop":
                continue
            n_iter += 1
            missing = [n for n, e in (("executor collected", deref), ("executor shut down", shut), ("interpreter exiting", glob)) if e is None or (work is not None and e.seq > work.seq)]
            rep.ob("R-LOOPTOP", key + " tests before work", not missing, "iteration reaches %s without deciding: %s" % (fmt(work.d["func"]) if work is not None and work.kind == "call" else "its work", ", ".join(missing)), where_of(work.fn, work.node) if work is not None else where_of(target), trace_of(p, work.seq if work is not None else None))
        rep.ob("R-LOOPTOP", "%s: has working iterations" % target.qualname, n_iter > 0, "no iteration path with work found (analysis anchor)", where_of(target))



def check(ctx, rep):
    prog = ctx.prog
    rep.rule("R-GATE", "every effect of a public submit* entry point (delegate interaction, base-class submit, user call, enqueue into executor state) happens with the executor's own ShutdownHelper lock held; when the flag is set the entry point raises RuntimeError('%s') before any effect" % MSG)
    rep.rule("R-HELPER", "ShutdownHelper.__call__ tests and sets the flag under the helper's lock and returns True exactly for the call that set it; ensure_alive takes the same lock, raises the documented RuntimeError when the flag is set and yields with the lock held")
    rep.rule("R-SHUT", "shutdown(): a call that did not flip the flag has no effect (no delegate shutdown, no join, no gauge change); the call that flipped it performs exactly one delegate/base-class shutdown with its own arguments forwarded unchanged, wakes the worker event, and joins the worker thread only under a true `wait` and after the wake-up")
    rep.rule("R-LOOPTOP", "each iteration of a worker loop decides 'executor collected', 'executor shut down' and 'interpreter exiting' before any work (lock, call into the executor, user code) and leaves the loop if any holds")
    rep.rule("R-LOOPWRAP", "every worker thread target is wrapped by executor_loop; executor_loop's handler catches RuntimeError only, returns only when the message contains 'cannot schedule new futures after' and re-raises otherwise")

    helper, lockfield = helper_lock_field(ctx)
    execs = [c for c in ctx.executor_classes() if ctx.gate_field(c)]
    rep.count("executor classes with a shutdown gate", len(execs), 10)

    flag = check_helper(ctx, rep, helper, lockfield)

    # --------------------------------------------------------------- R-GATE
    n_entry = 0
    for ci in execs:
        for m in submit_methods(ci):
            if m.owner not in execs and m.owner is not ci and not any(m.owner is c for c in ci.mro()):
                continue
            ps, it = ctx.paths(m, ci)
            n_entry += 1
            n_eff = 0
            saw_refusal = False
            for p in ps:
                if p.status == "raise" and isinstance(p.value, tuple) and p.value[1] == "RuntimeError":
                    effs = [e for e in p.events if is_effect(ctx, it, p, e)]
                    if not effs:
                        saw_refusal = True
                for e in p.events:
                    what = is_effect(ctx, it, p, e)
                    if not what:
                        continue
                    n_eff += 1
                    key = "%s.%s: %s" % (ci.name, m.name, what)
                    rep.ob("R-GATE", key, gate_held(ctx, it, p, e), "%s without the shutdown gate of this executor held (locks held: %s)" % (what, [fmt(l[1]) for l in e.locks]), where_of(e.fn, e.node), trace_of(p, e.seq))
            rep.ob("R-GATE", "%s.%s: refuses after shutdown" % (ci.name, m.name), saw_refusal, "no path raises the RuntimeError of the gate before any effect", where_of(m))
            rep.ob("R-GATE", "%s.%s: has effects" % (ci.name, m.name), n_eff > 0, "no delegate interaction / enqueue / user call found in this entry point (analysis anchor)", where_of(m))
    rep.count("gated submit entry points", n_entry, 12)

    # --------------------------------------------------------------- R-SHUT
    threads = {}
    for owner, target, node, initfi in ctx.types.thread_targets:
        threads.setdefault(owner.key, []).append(target)
    n_shut = 0
    for ci in execs:
        o, m = ci.lookup("shutdown")
        if m is None:
            continue
        n_shut += 1
        ps, it = ctx.paths(m, ci)
        has_thread = any(c.key in threads for c in ci.mro() if hasattr(c, "key"))
        gates = ctx.gate_field(ci)
        first_paths = 0
        for p in ps:
            if p.status == "raise":
                continue
            flips = [e for e in p.evs("store") if e.d["target"][0] == "attr" and e.d["target"][2] == flag and e.d["value"] == ("const", True)]
            dsh = [e for e in p.calls() if (q.call_name(e) == "shutdown" and (q.is_super_call(e) or (isinstance(q.recv(e), tuple) and q.recv(e) == ("attr", ("param", "self"), "_delegate"))))]
            joins = [e for e in p.calls() if q.call_name(e) == "join" and it.type_of(q.recv(e), p) == "E:Thread"]
            sets = [e for e in p.calls() if q.call_name(e) == "set" and it.type_of(q.recv(e), p) == "E:Event"]
            decs = [e for e in p.calls() if (q.metric_of(e) or (None, None))[1] == "dec"]
            sig = q.path_sig(p)
            # the decision "this call is the one that shuts down" must come from the helper's
            # test-and-set: reading the flag outside the helper's lock is check-then-act
            for b in p.evs("branch"):
                t = b.d[0]
                if isinstance(t, tuple) and t[0] == "attr" and t[2] == flag and it.type_of(t[1], p) == "C:" + helper.key:
                    locked = any(l[1] == ("attr", t[1], lockfield) for l in b.locks)
                    rep.ob("R-SHUT", "%s.shutdown: first-call decision taken under the helper's lock" % ci.name, locked,
                           "shutdown() reads the shutdown flag outside the helper's lock: two concurrent shutdown() calls can both pass the test (check-then-act)", where_of(b.fn, b.node), trace_of(p, b.seq))
            if not flips:
                ok = not dsh and not joins and not decs
                rep.ob("R-SHUT", "%s.shutdown: repeated call is a no-op [%s]" % (ci.name, sig), ok, "a shutdown() that did not flip the flag still performs %s" % ", ".join(fmt(e.d["func"]) for e in dsh + joins + decs), where_of(m), trace_of(p))
                continue
            first_paths += 1
            key = "%s.shutdown: first call [%s]" % (ci.name, sig)
            if len(dsh) != 1:
                rep.ob("R-SHUT", key + " one delegate shutdown", False, "expected exactly one delegate/base shutdown on the first-shutdown path, found %d" % len(dsh), where_of(m), trace_of(p))
            else:
                ok, why = q.args_forwarded(dsh[0], m)
                rep.ob("R-SHUT", key + " one delegate shutdown, arguments forwarded", ok, why, where_of(dsh[0].fn, dsh[0].node), trace_of(p, dsh[0].seq))
                rep.ob("R-SHUT", key + " closes the gate before the delegate/base-class shutdown", flips[0].seq < dsh[0].seq, "the delegate / base-class shutdown() is called before this executor's own shutdown flag is set: the delegate's shutdown may run foreign code (with cancel_futures the stdlib pool runs the done-callbacks of the queued futures it cancels while holding its non-reentrant shutdown lock); a submit() made from there must be refused by the closed gate -- with the gate still open it goes down to the delegate and blocks on that lock, held by its own thread", where_of(dsh[0].fn, dsh[0].node), trace_of(p, dsh[0].seq))
                mut = q.params_mutated_before(p, dsh[0], m)
                rep.ob("R-SHUT", key + " the forwarded arguments are the caller's, untouched", not mut, "%s before the delegate/base-class shutdown: what is forwarded is no longer what the caller passed (wait / cancel_futures are lost or changed on the way down)" % (mut[0][1] if mut else ""), where_of(mut[0][0].fn, mut[0][0].node) if mut else where_of(m), trace_of(p, mut[0][0].seq) if mut else None)
            if has_thread:
                rep.ob("R-SHUT", key + " wakes the worker", bool(sets), "the worker's event is not set on the first-shutdown path", where_of(m), trace_of(p))
            for j in joins:
                waited = [e for e in p.evs("branch") if e.d[0] == ("param", "wait") and e.d[1] is True and e.seq < j.seq]
                rep.ob("R-SHUT", key + " join only under wait", bool(waited), "join() reached without a true test of `wait`", where_of(j.fn, j.node), trace_of(p, j.seq))
                rep.ob("R-SHUT", key + " wake before join", any(s.seq < j.seq for s in sets), "join() is reached before the worker's event is set", where_of(j.fn, j.node), trace_of(p, j.seq))
            if has_thread:
                wait_true = [e for e in p.evs("branch") if e.d[0] == ("param", "wait") and e.d[1] is True]
                if wait_true:
                    rep.ob("R-SHUT", key + " joins when wait is true", bool(joins), "wait is true but the worker thread is not joined", where_of(m), trace_of(p))
        rep.ob("R-SHUT", "%s.shutdown: has a first-shutdown path" % ci.name, first_paths > 0, "no path of shutdown() flips the executor's shutdown flag", where_of(m))
    rep.count("shutdown methods", n_shut, 10)

    looptop_rule(ctx, rep, flag, helper)

    # ------------------------------------------------ stop flags and the wake-up protocol
    # shutdown() sets the flag and then the event; the loop must re-read the flag between its clear() and
    # its next wait(), or the wake-up of a shutdown is lost and join() never returns
    rep.rule("R-WAKE-L", "per worker-loop iteration (cyclically): everything the iteration reads -- including the shutdown flags -- is read again between clear() of the loop's event and the next wait()")
    from .. import wake
    wake.check_loops(ctx, rep, wake.discover(ctx), components="flags")

    # ----------------------------------------------------------- R-LOOPWRAP
    loopwrap = prog.fn("helpers:executor_loop")
    inner = [f for f in loopwrap.nested.values()]
    rep.require(len(inner) == 1, "executor_loop: expected one nested wrapper function")
    ps, it = ctx.paths(inner[0], None)
    catches = [e for p in ps for e in p.evs("catch")]
    rep.require(catches, "executor_loop: no exception handler found")
    for p in ps:
        cs = p.evs("catch")
        if not cs:
            continue
        c = cs[0]
        names = c.d["names"]
        key = "executor_loop handler [%s]" % q.path_sig(p)
        if names != ["RuntimeError"]:
            rep.ob("R-LOOPWRAP", key, False, "handler catches %s, expected RuntimeError only" % names, where_of(inner[0], c.node), trace_of(p))
            continue
        tests = [e for e in p.evs("branch") if e.seq > c.seq and isinstance(e.d[0], tuple) and e.d[0][0] == "cmp" and e.d[0][1] == "in"]
        if not tests:
            rep.ob("R-LOOPWRAP", key, False, "handler does not test the error message", where_of(inner[0], c.node), trace_of(p))
            continue
        t = tests[0]
        needle = t.d[0][2]
        needle_ok = needle[0] == "const" and isinstance(needle[1], str) and needle[1] and needle[1] in MSG
        if t.d[1]:
            rep.ob("R-LOOPWRAP", key, needle_ok and p.status == "return", "matching message must end the loop quietly; the tested text must be part of %r" % MSG, where_of(inner[0], t.node), trace_of(p))
        else:
            rep.ob("R-LOOPWRAP", key, needle_ok and p.status == "raise", "a RuntimeError with another message must be re-raised", where_of(inner[0], t.node), trace_of(p))
