"""C06 -- cancel: True means the work never starts; it stops retries; it propagates.

Decided:
  R-HANDOVER   retry: the delegate submit in the hand-over is dominated by a `future.done()` test (false) and both
               lie inside that future's lock -- so a cancel() that returned True excludes a later hand-over
  R-STOPRETRY  a cancel request on a job with an attempt in flight sets the stop flag under the executor lock,
               before the delegate cancel is attempted; the re-queue copies the flag inside the same lock hold as
               the replacement; the policy is not consulted with the flag set; the loop never hands over a flagged job
  R-TRUE       a cancel hook (_me_cancel / _cancel / _do_cancel) answers True only from an admissible source:
               the delegate's own cancel() result, the removal of the job from a queue under that queue's lock, or
               (poll) the cancel function's answer / absence
  R-CANCEL-FWD every _me_cancel forwards to the current delegate's cancel() when one exists
  R-GUARDED    the throttle queue, the retry job list and the stop flag are only mutated with the executor's lock
Not decided: 'running => cancel False and completes normally' depends on the delegate; all interleavings of
cancel with resolution.
"""
from ..core import where_of, trace_of
from ..interp import fmt, contains, subterms
from ..model import AnalysisError, ClassInfo
from .. import q
from .c02 import _no_cb_inline

REMOVERS = set()
MUT = {"append", "appendleft", "insert", "add", "extend", "pop", "popleft", "remove", "discard", "clear"}


def check(ctx, rep):
    prog = ctx.prog
    rep.rule("R-HANDOVER", "RetryExecutor._submit_now: `job.future.done()` is tested (and found false) before the delegate submit, and test and submit share one hold of job.future._me_lock")
    rep.rule("R-STOPRETRY", "stop_retry is set under the executor lock before the delegate's cancel() is tried; _retry copies it inside the lock hold that swaps the jobs; eval_policy tests it before calling the policy; the submit loop hands over no flagged job")
    rep.rule("R-TRUE", "a cancel hook returns a true value only as (a) the result of the delegate future's cancel(), (b) after removing the job from the executor's queue under the queue's lock, or (c) the cancel function's own answer; never a bare True for a job it did not find")
    rep.rule("R-CANCEL-FWD", "_me_cancel of every future class calls cancel() on its current delegate whenever a delegate is present, and its answer is returned")
    rep.rule("R-GUARDED", "queue / job list / stop flag mutations happen with the owning executor's lock held")
    rex = prog.cls("RetryExecutor")
    tex = prog.cls("ThrottleExecutor")
    SELF = ("param", "self")

    # ------------------------------------------------------------------ R-HANDOVER
    sn = rex.methods.get("_submit_now")
    ps, it = ctx.paths(sn, rex, depth=1)
    J = ("param", sn.params[1])
    FUT = ("attr", J, "future")
    FL = ("attr", FUT, "_me_lock")
    n = 0
    for p in ps:
        subs = [e for e in p.calls() if q.call_name(e) == "submit" and q.recv(e) == ("attr", SELF, "_delegate")]
        for e in subs:
            n += 1
            tests = [b for b in p.evs("branch") if b.seq < e.seq and isinstance(b.d[0], tuple) and b.d[0][0] == "call" and b.d[0][1] == ("attr", FUT, "done")]
            ok = bool(tests) and tests[-1].d[1] is False and q.has_lock(tests[-1], FL) and q.has_lock(e, FL)
            same = ok and not [x for x in p.evs("exit") if x.d[1] == FL and tests[-1].seq < x.seq < e.seq]
            why = "no done() test before the hand-over" if not tests else "the done() test or the submit is outside job.future._me_lock" if not ok else "the lock is released between the test and the submit"
            rep.ob("R-HANDOVER", "_submit_now: done() re-checked under the future's lock, same hold as the delegate submit", ok and same, why + ": a cancel() returning True in between would still be followed by a submission", where_of(sn, e.node), trace_of(p, e.seq))
        done_paths = [b for b in p.evs("branch") if isinstance(b.d[0], tuple) and b.d[0][0] == "call" and b.d[0][1] == ("attr", FUT, "done") and b.d[1] is True]
        if done_paths:
            rep.ob("R-HANDOVER", "_submit_now: a done (cancelled) future is not handed over", not subs, "delegate submit although the future is done", where_of(sn), trace_of(p))
    rep.require(n >= 1, "_submit_now: delegate submit not found")

    # ------------------------------------------------------------------ R-STOPRETRY
    cn = rex.methods.get("_cancel")
    ps, it = ctx.paths(cn, rex, depth=1)
    XL = ("attr", SELF, "_lock")
    nin = 0
    for p in ps:
        dc = [e for e in p.calls() if q.call_name(e) == "cancel" and isinstance(q.recv(e), tuple) and q.recv(e)[0] == "attr" and q.recv(e)[2] == "delegate_future"]
        st = [e for e in p.evs("store") if e.d["target"][0] == "attr" and e.d["target"][2] == "stop_retry" and e.d["value"] == ("const", True)]
        for e in dc:
            nin += 1
            job = q.recv(e)[1]
            mine = [s for s in st if s.d["target"][1] == job]
            ok = len(mine) >= 1 and mine[0].seq < e.seq and q.has_lock(mine[0], XL)
            rep.ob("R-STOPRETRY", "_cancel: stop flag set under the executor lock before the delegate cancel is attempted", ok,
                   "the attempt may finish and be re-queued while delegate.cancel() is still running; a flag set afterwards lands on the replaced job and retrying continues after cancel() returned" if mine else "no stop flag is set for an in-flight job", where_of(cn, e.node), trace_of(p, e.seq))
    rep.require(nin >= 2, "_cancel: in-flight branch not found")
    rt = rex.methods.get("_retry")
    ps, it = ctx.paths(rt, rex, depth=1, inline=_pa_only)
    for p in ps:
        if p.status != "return":
            continue
        pops = [e for e in p.calls() if e.d["callee"] is not None and e.d["callee"].name == "_pop_job"]
        apps = [e for e in p.calls() if e.d["callee"] is not None and e.d["callee"].name == "_append_job"]
        st = [e for e in p.evs("store") if e.d["target"][0] == "attr" and e.d["target"][2] == "stop_retry" and e.fn is rt]
        ok = len(pops) == 1 and len(apps) == 1 and len(st) == 1 and pops[0].seq < st[0].seq < apps[0].seq and all(q.has_lock(e, XL) for e in pops + apps + st) and not [x for x in p.evs("exit") if x.d[1] == XL and pops[0].seq < x.seq < apps[0].seq and len(x.stack) == 0]
        rep.ob("R-STOPRETRY", "_retry: flag copied between pop and append, one hold of the executor lock", ok and st[0].d["value"] == ("attr", ("param", rt.params[1]), "stop_retry"), "the swap of the job and the copy of its stop flag are not atomic with respect to _cancel", where_of(rt), trace_of(p))
    lp = prog.fn("retry:_submit_loop")
    ps, it = ctx.paths(lp, None, depth=1, inline=_loop_inline)
    for p in ps:
        for e in p.calls():
            if e.d["callee"] is sn:
                job = e.d["args"][0]
                fl = [b for b in p.evs("branch") if b.d[0] == ("attr", job, "stop_retry") and b.seq < e.seq]
                rep.ob("R-STOPRETRY", "_submit_loop: a flagged job is never handed over", bool(fl) and fl[-1].d[1] is False, "_submit_now(job) reached without excluding job.stop_retry", where_of(lp, e.node), trace_of(p, e.seq))
    ep = prog.fn("retry:eval_policy")
    ps, it = ctx.paths(ep, None, depth=0)
    for p in ps:
        pc = [e for e in p.calls() if e.d.get("user")]
        fl = [b for b in p.evs("branch") if b.d[0] == ("attr", ("param", ep.params[0]), "stop_retry")]
        if pc:
            rep.ob("R-STOPRETRY", "eval_policy: the policy is consulted only with the flag clear", bool(fl) and fl[0].d[1] is False and fl[0].seq < pc[0].seq, "", where_of(ep), trace_of(p))

    # ------------------------------------------------------------------ R-TRUE / R-CANCEL-FWD
    REMOVERS.clear()
    for ecls in (rex, tex):
        for m in ecls.methods.values():
            ps, it = ctx.paths(m, ecls, depth=0)
            for p in ps:
                for e in p.calls():
                    r = q.recv(e)
                    if e.fn is m and q.call_name(e) in ("remove", "pop", "popleft") and isinstance(r, tuple) and r[0] == "attr" and r[1] == SELF and r[2] in ("_to_submit", "_jobs") and q.has_lock(e, ("attr", SELF, "_lock")):
                        # removes exactly the job it was given (found by identity)
                        ident = any(isinstance(b.d[0], tuple) and b.d[0][0] == "cmp" and b.d[0][1] == "is" and b.d[1] is True and ("param", m.params[1]) in (b.d[0][2], b.d[0][3]) for b in p.evs("branch") if len(m.params) > 1)
                        if ident:
                            REMOVERS.add(m.key)
    fut = prog.cls("_Future")
    nme = 0
    for ci in prog.subclasses(fut, strict=True):
        o, mc = ci.lookup("_me_cancel")
        if mc is None or mc.owner is fut:
            continue
        nme += 1
        ps, it = ctx.paths(mc, ci, depth=4, inline=_no_cb_inline)
        for p in ps:
            if p.status == "raise":
                continue
            v = p.value
            sig = q.path_sig(p)
            deleg = [b for b in p.evs("branch") if q.self_field(b.d[0]) and b.d[0][2] in ("_delegate", "delegate_future")]
            dcs = [e for e in p.calls() if q.call_name(e) == "cancel" and isinstance(q.recv(e), tuple) and (q.recv(e) in [b.d[0] for b in deleg] or (q.recv(e)[0] == "attr" and q.recv(e)[2] in ("_delegate", "delegate_future")))]
            if deleg and deleg[0].d[1] is True and q.self_field(deleg[0].d[0]):
                rep.ob("R-CANCEL-FWD", "%s._me_cancel forwards to the delegate's cancel()" % ci.name, len(dcs) >= 1, "a delegate is present but its cancel() is not called [%s]" % sig[:100], where_of(mc), trace_of(p))
            # admissible sources of a true answer
            truthy = _may_be_true(v, p)
            if not truthy:
                continue
            src = _source(v, p, it, dcs)
            rep.ob("R-TRUE", "%s._me_cancel: True only from an admissible source" % ci.name, src is not None, "returns %s on path [%s] which is neither the delegate's cancel() result, nor follows a removal from the queue under its lock, nor the cancel function's answer" % (fmt(v), sig[:140]), where_of(mc), trace_of(p))
    rep.count("_me_cancel implementations", nme, 4)

    # ------------------------------------------------------------------ R-GUARDED
    guarded = [(tex, "_to_submit", "_lock"), (rex, "_jobs", "_lock")]
    ng = 0
    for fi in sorted(prog.functions.values(), key=lambda f: f.key):
        if fi.parent is not None or fi.name == "__init__":
            continue
        for ci in ctx.instances(fi):
            ps, it = ctx.paths(fi, ci, depth=0)
            for p in ps:
                for e in p.calls():
                    if e.fn is not fi:
                        continue
                    r = q.recv(e)
                    if isinstance(r, tuple) and r[0] == "attr" and q.call_name(e) in MUT:
                        for owner, fld, lk in guarded:
                            if r[2] == fld and it.type_of(r[1], p) == "C:" + owner.key:
                                ng += 1
                                ok = q.has_lock(e, ("attr", r[1], lk))
                                # helpers that are only called with the lock held
                                if not ok:
                                    cs = ctx.callgraph().get(fi.key, set())
                                    ok = bool(cs) and _callers_hold(ctx, fi, cs, owner, lk)
                                rep.ob("R-GUARDED", "%s: %s.%s under the executor lock" % (fi.qualname, fld, q.call_name(e)), ok, "%s.%s() without %s held" % (fld, q.call_name(e), lk), where_of(fi, e.node), trace_of(p, e.seq))
                for s in p.evs("store"):
                    t = s.d["target"]
                    if s.fn is fi and t[0] == "attr" and t[2] == "stop_retry" and fi.owner is rex:
                        ng += 1
                        rep.ob("R-GUARDED", "%s: stop_retry written under the executor lock" % fi.qualname, q.has_lock(s, XL), "stop_retry written without the executor lock", where_of(fi, s.node), trace_of(p, s.seq))
    rep.count("guarded mutations", ng, 8)


def _callers_hold(ctx, fi, cs, owner, lk):
    for ck, cik in cs:
        cfi = ctx.prog.functions[ck]
        cci = ctx.prog.classes.get(cik) if cik else None
        ps, it = ctx.paths(cfi, cci, depth=0)
        for p in ps:
            for e in p.calls():
                if e.d["callee"] is fi and e.fn is cfi:
                    r = q.recv(e)
                    if not (r is not None and q.has_lock(e, ("attr", r, lk))):
                        return False
    return True


def _may_be_true(v, p):
    if v == ("const", False) or v == ("const", None):
        return False
    if isinstance(v, tuple) and p.assume.get(v) is False:
        return False
    return True


def _source(v, p, it, dcs):
    """why may this path return a true value?"""
    # (a) the delegate's cancel() result
    for e in dcs:
        res = ("call", e.d["func"], e.d["args"], e.d["kwargs"], None)
        if v == res:
            return "delegate cancel() result"
    if v == ("const", True):
        # (a') delegate cancel() succeeded on this path
        for e in dcs:
            res = ("call", e.d["func"], e.d["args"], e.d["kwargs"], None)
            if p.assume.get(res) is True:
                # retry: True after the delegate's cancel() answered True
                return "after a successful delegate cancel()"
        # (b) removal from a queue under its lock: directly, or through a helper that searches the queue for
        # the job it is given and removes it, called while the lock under which the job was found is still held
        for e in p.calls():
            r = q.recv(e)
            if q.call_name(e) in ("remove", "pop", "popleft") and isinstance(r, tuple) and r[0] == "attr" and r[2] in ("_to_submit", "_jobs"):
                if any(l[1] == ("attr", r[1], "_lock") for l in e.locks):
                    return "job removed from the queue under its lock"
            c = e.d["callee"]
            if c is not None and c.key in REMOVERS and r is not None and any(l[1] == ("attr", r, "_lock") for l in e.locks):
                return "job removed from the queue (helper %s) under its lock" % c.name
        # (c) poll: no cancel function / not in the polling stage
        for b in p.evs("branch"):
            t = b.d[0]
            if isinstance(t, tuple) and t[0] == "attr" and t[2] == "_cancel_fn" and b.d[1] is False:
                return "no cancel function"
            if isinstance(t, tuple) and t[0] == "comp" and b.d[1] is False:
                return "not in the polling stage"
            if isinstance(t, tuple) and t[0] == "local":
                pass
        for t, val in p.branch_atoms():
            if val is False and isinstance(t, tuple) and contains(t, ("attr", ("attr", ("param", "self"), "_executor"), "_poll_descriptors")):
                return "not in the polling stage"
        return None
    # (c) the cancel function's own answer
    if isinstance(v, tuple) and v[0] == "call" and isinstance(v[1], tuple) and v[1][0] == "attr" and v[1][2] == "_cancel_fn":
        return "cancel function's answer"
    return None


def _pa_only(callee, ev, path):
    return False


def _loop_inline(callee, ev, path):
    return callee.name in ("_get_next_job", "is_shutdown")
