"""C06 -- cancel: True means the work never starts; it stops retries; it propagates.

Evaluated on entry points (the public cancel() of each future class, the retry worker thread, the registered
delegate callback) with private helpers inlined.  The queue, the job record and its fields (future, function,
delegate future, stop flag), the executor lock, the delegate executor field and the cancel hook are discovered
structurally (roles.py); no private helper is referred to by name.

Decided:
  R-HANDOVER   retry: the delegate submit in the hand-over is dominated by a `future.done()` test (false) and both
               lie inside one hold of that future's lock -- so a cancel() that returned True excludes a later
               hand-over
  R-STOPRETRY  a cancel request on a job with an attempt in flight sets the stop flag under the executor lock,
               before the delegate cancel is attempted; the re-queue reads and copies the flag inside the same lock
               hold that swaps the jobs; the policy is not consulted with the flag set; the worker never hands over
               a flagged job
  R-TRUE       a cancel hook answers True only from an admissible source: the delegate's own cancel() result, the
               removal of the future's own job from a queue under that queue's lock, or (poll) the cancel
               function's answer / absence
  R-CANCEL-FWD every cancel hook forwards to the current delegate's cancel() when one exists
  R-GUARDED    the throttle queue, the retry job list and the stop flag are only mutated with the executor's lock
               (and the boolean combinators register chain_cancel(output, input) per input; shared with C14)
Not decided: 'running => cancel False and completes normally' depends on the delegate; all interleavings of
cancel with resolution.
"""
from ..core import where_of, trace_of
from ..interp import fmt, contains, subterms
from ..model import AnalysisError, ClassInfo
from .. import q
from .. import roles
from .c02 import _no_cb_inline
from ..roles import Queue as Q, removers, removal_actions, _removes, REMOVE

MUT = {"append", "appendleft", "insert", "add", "extend", "pop", "popleft", "remove", "discard", "clear"}
SELF = ("param", "self")


def check(ctx, rep):
    prog = ctx.prog
    rep.rule("R-HANDOVER", "retry hand-over: `job.future.done()` is tested (and found false) before the delegate submit, and test and submit share one hold of the future's own lock")
    rep.rule("R-STOPRETRY", "the stop flag is set under the executor lock before the delegate's cancel() is tried; the re-queue reads the old job's flag and stores it in the replacement inside the lock hold that swaps the jobs; the policy is called only with the flag clear; the worker hands over no flagged job")
    rep.rule("R-TRUE", "a cancel hook returns a true value only as (a) the result of the delegate future's cancel(), (b) after removing the future's own job from the executor's queue under the queue's lock, or (c) the cancel function's own answer; never a bare True for a job it did not find")
    rep.rule("R-CANCEL-FWD", "the cancel hook of every future class calls cancel() on its current delegate whenever a delegate is present, and its answer is returned")
    rep.rule("R-GUARDED", "queue / job list / stop flag mutations happen with the owning executor's lock held")
    rex = prog.cls("RetryExecutor")
    tex = prog.cls("ThrottleExecutor")
    fut = prog.cls("_Future")
    rfut = prog.cls("RetryFuture")
    hook = roles.cancel_hook(ctx, fut)
    RQ = Q(ctx, rex)
    TQ = Q(ctx, tex)
    layer = roles.Layer(ctx, rex)
    rep.require(layer.loop is not None and layer.callback is not None, "RetryExecutor: worker thread / delegate callback not identified")
    DELEG = roles.delegate_field(ctx, rex)
    flags = roles.false_init_fields(ctx, RQ.rec)
    rep.require(len(flags) == 1, "%s: expected exactly one flag field (initialised False), found %s" % (RQ.rec.name, flags))
    STOP = flags[0]
    FUTF, FNF = RQ.roles["future"], RQ.roles["fn"]
    REC = "C:" + RQ.rec.key
    RREM = removers(ctx, RQ)
    TREM = removers(ctx, TQ)

    def is_rec(t, it, p):
        if not isinstance(t, tuple):
            return False
        if it.type_of(t, p) == REC:
            return True
        c = roles.container_of(t)
        return c != t and isinstance(c, tuple) and c[0] == "attr" and c[2] == RQ.field and it.type_of(c[1], p) in (None, "C:" + rex.key)

    # ------------------------------------------------------------------ R-HANDOVER (worker thread root)
    ps, it = ctx.paths(layer.loop, None, depth=6, inline=_no_cb_inline, loads=(STOP,))
    n = 0
    DF = set()
    for p in ps:
        subs = [e for e in p.calls() if q.call_name(e) == "submit" and isinstance(q.recv(e), tuple) and q.recv(e)[0] == "attr" and q.recv(e)[2] == DELEG]
        for e in subs:
            a0 = e.d["args"][0] if e.d["args"] else None
            if not (isinstance(a0, tuple) and a0[0] == "attr" and a0[2] == FNF):
                rep.ob("R-HANDOVER", "worker: the delegate receives the job's own function", False, "submit(%s, ...)" % (fmt(a0) if a0 else None), where_of(e.fn, e.node), trace_of(p, e.seq))
                continue
            n += 1
            J = a0[1]
            FUT = ("attr", J, FUTF)
            fl = [l[1] for l in e.locks if isinstance(l[1], tuple) and l[1][0] == "attr" and l[1][1] == FUT]
            tests = [b for b in p.evs("branch") if b.seq < e.seq and isinstance(b.d[0], tuple) and b.d[0][0] == "call" and b.d[0][1] == ("attr", FUT, "done")]
            ok = bool(tests) and tests[-1].d[1] is False and bool(fl) and any(q.has_lock(tests[-1], L) for L in fl)
            same = ok and any(roles.held_throughout(p, L, tests[-1], e) for L in fl)
            why = "no done() test before the hand-over" if not tests else "the done() test or the submit is outside the future's own lock" if not ok else "the lock is released between the test and the submit"
            rep.ob("R-HANDOVER", "worker: done() re-checked under the future's lock, same hold as the delegate submit", ok and same, why + ": a cancel() returning True in between would still be followed by a submission", where_of(e.fn, e.node), trace_of(p, e.seq))
            # the stop flag excludes the hand-over
            fb = [b for b in p.evs("branch") if b.d[0] == ("attr", J, STOP) and b.seq < e.seq]
            rep.ob("R-STOPRETRY", "worker: a flagged job is never handed over", bool(fb) and fb[-1].d[1] is False, "the delegate submit is reached without excluding the job's stop flag", where_of(e.fn, e.node), trace_of(p, e.seq))
            res = q.result_of(e)
            for k, v in p.heap.items():
                if k[0] == "attr" and v == res and is_rec(k[1], it, p):
                    DF.add(k[2])
        for b in p.evs("branch"):
            t = b.d[0]
            if b.d[1] is True and isinstance(t, tuple) and t[0] == "call" and isinstance(t[1], tuple) and t[1][0] == "attr" and t[1][2] == "done" and isinstance(t[1][1], tuple) and t[1][1][0] == "attr" and t[1][1][2] == FUTF:
                later = [e for e in subs if e.seq > b.seq and e.d["args"] and e.d["args"][0] == ("attr", t[1][1][1], FNF) and not [x for x in p.evs("loop") if b.seq < x.seq < e.seq]]
                rep.ob("R-HANDOVER", "worker: a done (cancelled) future is not handed over", not later, "delegate submit although the future is done", where_of(b.fn, b.node), trace_of(p))
    rep.require(n >= 1, "retry worker: delegate submit not found")
    rep.require(len(DF) == 1, "retry: the job field holding the delegate's future is not unique (%s)" % sorted(DF))
    DFF = DF.pop()

    # the re-check above excludes a concurrent cancel() only if cancel()'s own state transition is made under that
    # same lock of the future (shared with C02)
    from .c02 import trans_rule
    P_ = roles.proto(ctx)
    trans_rule(ctx, rep, [c for c in prog.subclasses(fut, strict=True)], P_.dispatch, P_.lock)
    # a future that moves from "has a delegate" to "is in the poll list" must never be in neither state: a cancel()
    # arriving then finds nothing to ask and answers True although the cancel function was never consulted (shared
    # with C08 / C12)
    from .c08 import register_order_rule
    register_order_rule(ctx, rep, "R-CANCEL-FWD")
    # combinators forward a cancel of their output to every input through chain_cancel (shared with C14 / C15)
    from .c14 import _chain_cancel
    _chain_cancel(ctx, rep, "R-CANCEL-FWD")
    from . import c14 as _c14
    from ..core import Report as _Report
    sub14 = _Report(rep.pid, ctx)
    _c14.check(ctx, sub14)
    nf = 0
    for o in sub14.obs:
        if o.rule == "R-FANOUT" and "chain_cancel" in o.key:
            nf += 1
            rep.ob("R-CANCEL-FWD", o.key, o.ok, o.detail, o.where, o.trace)
    rep.count("chain_cancel registrations of the boolean combinators", nf, 1)

    # ------------------------------------------------------------------ R-STOPRETRY (cancel root)
    ps, it = ctx.paths(fut.methods["cancel"], rfut, depth=6, inline=_no_cb_inline, loads=(STOP,))
    nin = 0
    for p in ps:
        dc = [e for e in p.calls() if q.call_name(e) == "cancel" and isinstance(q.recv(e), tuple) and q.recv(e)[0] == "attr" and q.recv(e)[2] == DFF and is_rec(q.recv(e)[1], it, p)]
        st = [e for e in p.evs("store") if e.d["target"][0] == "attr" and e.d["target"][2] == STOP and e.d["value"] == ("const", True)]
        for e in dc:
            nin += 1
            job = q.recv(e)[1]
            mine = [s for s in st if s.d["target"][1] == job and s.seq < e.seq]
            owner = [x for x in subterms(job) if it.type_of(x, p) == "C:" + rex.key] + [SELF]
            ok = bool(mine) and any(RQ.lock_held(mine[0], o) for o in _owners(mine[0], RQ))
            rep.ob("R-STOPRETRY", "cancel: stop flag set under the executor lock before the delegate cancel is attempted", ok,
                   "the attempt may finish and be re-queued while delegate.cancel() is still running; a flag set afterwards lands on the replaced job and retrying continues after cancel() returned" if [s for s in st if s.d["target"][1] == job] or not mine and st else "no stop flag is set for an in-flight job" if not mine else "the flag is written without the executor lock", where_of(e.fn, e.node), trace_of(p, e.seq))
    rep.require(nin >= 2, "RetryFuture.cancel: in-flight branch (delegate cancel attempted) not found")

    # ------------------------------------------------------------------ R-STOPRETRY (delegate callback root)
    ps, it = ctx.paths(layer.callback, rex, depth=6, inline=_no_cb_inline, loads=(STOP,))
    nrq = 0
    npol = 0
    for p in ps:
        if p.status != "return":
            continue
        for a in p.calls():
            if not (q.call_name(a) in ("append", "appendleft", "add", "insert") and RQ.is_queue(q.recv(a), it, p) and a.d["args"]):
                continue
            N = a.d["args"][-1]
            if not is_rec(N, it, p):
                continue
            nrq += 1
            owner = q.recv(a)[1]
            key = "re-queue: the stop flag is carried over inside the lock hold that swaps the jobs"
            w = [s for s in p.evs("store") if s.d["target"] == ("attr", N, STOP) and s.seq < a.seq]
            val = w[-1].d["value"] if w else None
            if not (w and isinstance(val, tuple) and val[0] == "attr" and val[2] == STOP and val[1] != N and is_rec(val[1], it, p)):
                rep.ob("R-STOPRETRY", key, False, "the replacement job's stop flag is %s, not the old job's flag: a cancel request is forgotten by the retry" % (fmt(val) if val is not None else "never set"), where_of(a.fn, a.node), trace_of(p, a.seq))
                continue
            OLD = val[1]
            lds = [e for e in p.evs("load") if e.d["target"] == val and e.seq <= w[-1].seq]
            acts = [(e, j) for e, j in removal_actions(p, it, RQ, RREM) if e.seq < a.seq]
            rms = [e for e, j in acts if j == OLD or (j is None and _removes(e, OLD, p))]
            L = RQ.lock_term(a, owner)
            ok = L is not None and bool(lds) and len(acts) == 1 and len(rms) == 1 and roles.held_throughout(p, L, min([lds[-1], rms[0]], key=lambda e: e.seq), a)
            why = "the append is not under the executor lock" if L is None else "the old job is not removed exactly once before the append" if len(rms) != 1 or len(acts) != 1 else "the old job's flag is read, the old job removed and the new job added in different holds of the executor lock: a cancel() in between sets the flag on a job that is already being replaced"
            rep.ob("R-STOPRETRY", key, ok, why, where_of(a.fn, a.node), trace_of(p, a.seq))
        for e in p.calls():
            if e.d.get("user"):
                npol += 1
                recs = [x for x in subterms(e.d["func"]) if is_rec(x, it, p)] + [x for a_ in e.d["args"] for x in subterms(a_) if is_rec(x, it, p)]
                fb = [b for b in p.evs("branch") if isinstance(b.d[0], tuple) and b.d[0][0] == "attr" and b.d[0][2] == STOP and b.d[0][1] in recs and b.seq < e.seq]
                rep.ob("R-STOPRETRY", "callback: the policy is consulted only with the flag clear", bool(fb) and fb[-1].d[1] is False, "the retry policy is called for a job whose stop flag was not excluded", where_of(e.fn, e.node), trace_of(p, e.seq))
    rep.require(nrq >= 1, "retry callback: re-queue (append of a replacement job) not found")
    rep.require(npol >= 1, "retry callback: policy call not found")

    # ------------------------------------------------------------------ R-TRUE / R-CANCEL-FWD
    CFS = set()
    for ci in ctx.executor_classes():
        for f in roles.ctor_param_fields(ctx, ci, "cancel_fn"):
            CFS.add(f)
    queues = [(RQ, RREM), (TQ, TREM)]
    nme = 0
    for ci in prog.subclasses(fut, strict=True):
        o, mc = ci.lookup(hook)
        if mc is None or mc.owner is fut:
            continue
        nme += 1
        ftypes = _future_fields(ctx, ci, hook)
        ps, it = ctx.paths(mc, ci, depth=5, inline=_no_cb_inline)
        for p in ps:
            if p.status == "raise":
                continue
            v = p.value
            sig = q.path_sig(p)
            deleg = [(t, val, b) for t, val, b in q.atoms(p) if q.self_field(t) and t[2] in ftypes]
            dcs = [e for e in p.calls() if q.call_name(e) == "cancel" and isinstance(q.recv(e), tuple) and (q.recv(e) in [t for t, val, b in deleg] or (q.recv(e)[0] == "attr" and (q.recv(e)[2] in ftypes or q.recv(e)[2] == DFF)))]
            if deleg and deleg[0][1] is True:
                rep.ob("R-CANCEL-FWD", "%s.%s forwards to the delegate's cancel()" % (ci.name, hook), len(dcs) >= 1, "a delegate is present but its cancel() is not called [%s]" % sig[:100], where_of(mc), trace_of(p))
            # a future that sits in its executor's queue (no delegate yet) is cancelled by taking its job out: the
            # hook has to ask the executor -- answering without doing so leaves the job queued and the callable runs
            exf = [f for (ck, f), ts in ctx.types.field_types.items() if ck == ci.key and any(t.startswith("C:") and ctx.types.cls_of(t) in [Qx.cls for Qx, _r in queues] for t in ts)]
            if exf and not (deleg and deleg[0][1] is True):
                gone = any(q.truth_of(p, ("attr", SELF, f)) is False for f in exf)
                asked = [e for e in p.calls() if e.d["callee"] is not None and e.d["callee"].owner in [Qx.cls for Qx, _r in queues]]
                if not gone:
                    rep.ob("R-CANCEL-FWD", "%s.%s asks its executor about a future that has no delegate yet" % (ci.name, hook), bool(asked), "with no delegate present the hook returns %s without calling into the executor whose queue holds the future's job: the job stays queued, so the request never reaches the pending work [%s]" % (fmt(v), sig[:100]), where_of(mc), trace_of(p))
            removed = [e for Qx, rem in queues for e, j in removal_actions(p, it, Qx, rem)]
            if removed:
                rep.ob("R-TRUE", "%s.%s: a job taken out of the queue means True" % (ci.name, hook), _may_be_true(v, p) and v != ("const", None), "the future's job is removed from the queue but the hook answers %s: cancel() reports failure, yet nothing will ever run or resolve this future" % fmt(v), where_of(mc), trace_of(p))
            if not _may_be_true(v, p):
                continue
            looked = [t for t, val, b in q.atoms(p) if isinstance(t, tuple) and t[0] == "attr" and (t[2] in ftypes or t[2] == DFF)] or dcs
            rep.ob("R-CANCEL-FWD", "%s.%s consults the delegate before answering True" % (ci.name, hook), bool(looked), "may return %s without ever looking at the future's delegate: an attempt already handed to the delegate keeps running although cancel() said True [%s]" % (fmt(v), sig[:100]), where_of(mc), trace_of(p))
            src = _source(v, p, it, dcs, queues, CFS, {rex.key: DFF})
            rep.ob("R-TRUE", "%s.%s: True only from an admissible source" % (ci.name, hook), src is not None, "returns %s on path [%s] which is neither the delegate's cancel() result, nor follows the removal of the future's job from the queue under its lock, nor the cancel function's answer" % (fmt(v), sig[:140]), where_of(mc), trace_of(p))
    rep.count("cancel hook implementations", nme, 4)

    # ------------------------------------------------------------------ R-GUARDED
    ng = set()
    for fi in sorted(prog.functions.values(), key=lambda f: f.key):
        if fi.parent is not None or fi.name == "__init__":
            continue
        for ci in ctx.instances(fi):
            ps, it = ctx.paths(fi, ci, depth=0)
            for p in ps:
                for e in p.calls():
                    if e.fn is not fi:
                        continue
                    r = q.recv(e)
                    if isinstance(r, tuple) and r[0] == "attr" and q.call_name(e) in MUT:
                        for Qx, _rem in queues:
                            if Qx.is_queue(r, it, p):
                                ng.add((fi.key, Qx.cls.name, q.call_name(e)))
                                ok = Qx.lock_held(e, r[1])
                                # helpers that are only called with the lock held
                                if not ok:
                                    cs = ctx.callgraph().get(fi.key, set())
                                    ok = bool(cs) and _callers_hold(ctx, fi, cs, Qx)
                                rep.ob("R-GUARDED", "%s: %s queue %s under the executor lock" % (fi.qualname, Qx.cls.name, q.call_name(e)), ok, "%s.%s() without the executor lock held" % (Qx.field, q.call_name(e)), where_of(fi, e.node), trace_of(p, e.seq))
                for s in p.evs("store"):
                    t = s.d["target"]
                    if s.fn is fi and t[0] == "attr" and t[2] == STOP and it.type_of(t[1], p) == REC:
                        ng.add((fi.key, "flag"))
                        ok = any(RQ.lock_held(s, o) for o in _owners(s, RQ))
                        rep.ob("R-GUARDED", "%s: stop flag written under the executor lock" % fi.qualname, ok, "the stop flag is written without the executor lock", where_of(fi, s.node), trace_of(p, s.seq))
    rep.count("guarded mutation sites", len(ng), 4)
    # a queue that is rebuilt instead of shrunk in place: walk and store in one hold, insertions under the same lock,
    # and whoever mutates it reads it inside its own critical section (roles.shrink_rule)
    for Qx, _rem in queues:
        roles.shrink_rule(ctx, rep, Qx.cls, Qx.field, "R-GUARDED", "the %s queue" % Qx.cls.name)
    for Qx, _rem in queues:
        roles.iteration_rule(ctx, rep, Qx, "R-GUARDED")


def _owners(ev, Qx):
    """owner terms of the executor-lock-like locks held at an event"""
    return [l[1][1] for l in ev.locks if isinstance(l[1], tuple) and l[1][0] == "attr" and l[1][2] in Qx.locks] or [SELF]


def _future_fields(ctx, ci, hook):
    """fields of a future class that hold another future (its delegate): self fields on which the methods of the
    class -- other than the cancel hook itself -- call the future protocol"""
    out = set()
    proto = ("running", "done", "result", "exception", "add_done_callback", "cancelled", "exception_info")
    for c in ci.mro():
        if not isinstance(c, ClassInfo):
            continue
        for m in c.methods.values():
            if m.name == hook or ci.lookup(m.name)[1] is not m:
                continue
            ps, it = ctx.paths(m, ci, depth=0)
            for p in ps:
                for e in p.calls():
                    r = q.recv(e)
                    if q.call_name(e) in proto and q.self_field(r):
                        out.add(r[2])
    return out


def _callers_hold(ctx, fi, cs, Qx):
    for ck, cik in cs:
        cfi = ctx.prog.functions[ck]
        cci = ctx.prog.classes.get(cik) if cik else None
        ps, it = ctx.paths(cfi, cci, depth=0)
        for p in ps:
            for e in p.calls():
                if e.d["callee"] is fi and e.fn is cfi:
                    r = q.recv(e)
                    if not (r is not None and Qx.lock_held(e, r)):
                        return False
    return True


def _may_be_true(v, p):
    if v == ("const", False) or v == ("const", None):
        return False
    if isinstance(v, tuple) and q.truth_of(p, v) is False:
        return False
    return True


def _source(v, p, it, dcs, queues, CFS, inflight={}):
    """why may this path return a true value?"""
    # (a) the delegate's cancel() result
    for e in dcs:
        if v == q.result_of(e):
            return "delegate cancel() result"
    if v == ("const", True):
        # (a') delegate cancel() succeeded on this path
        for e in dcs:
            if q.truth_of(p, q.result_of(e)) is True:
                return "after a successful delegate cancel()"
        # (b) the future's own job was found (by identity of its future) and removed from the queue, all under
        # the queue's lock
        for Qx, rem in queues:
            F = Qx.roles["future"]
            for e, j in removal_actions(p, it, Qx, rem):
                owner = q.recv(e) if j is not None else q.recv(e)[1]
                if not Qx.lock_held(e, owner):
                    continue
                for t, val, b in q.atoms(p):
                    if val is True and b.seq < e.seq and isinstance(t, tuple) and t[0] == "cmp" and t[1] == "is":
                        for x, y in ((t[2], t[3]), (t[3], t[2])):
                            if isinstance(x, tuple) and x[0] == "attr" and x[2] == F and isinstance(y, tuple) and y[0] == "param":
                                J = x[1]
                                if (j == J or (j is None and _removes(e, J, p))) and roles.held_throughout(p, Qx.lock_term(e, owner), b, e):
                                    # a list that also holds jobs with an attempt in flight: the removed job must
                                    # have been found to have none (else the attempt keeps running after True)
                                    if inflight.get(Qx.cls.key) and not any(val2 is False and t2 == ("attr", J, inflight[Qx.cls.key]) and b2.seq < e.seq for t2, val2, b2 in q.atoms(p)):
                                        continue
                                    return "job removed from the queue under its lock"
        # (c) poll: no cancel function / not in the polling stage
        for t, val, b in q.atoms(p):
            if isinstance(t, tuple) and t[0] == "attr" and t[2] in CFS and val is False:
                return "no cancel function"
            if val is False and isinstance(t, tuple) and any(isinstance(x, tuple) and x and x[0] == "comp" and x[4] for x in subterms(t)):
                return "not in the polling stage"
            # the same fact reported through a helper: "the entry selected for this future is None"
            if val is True and isinstance(t, tuple) and t[0] == "cmp" and t[1] == "is" and t[3] == ("const", None) and any(isinstance(x, tuple) and x and x[0] == "comp" and x[4] for x in subterms(t[2])):
                return "not in the polling stage"
        return None
    # (c) the cancel function's own answer
    for e in p.calls():
        if e.d.get("user") and v == q.result_of(e) and isinstance(e.d["func"], tuple) and e.d["func"][0] == "attr" and e.d["func"][2] in CFS:
            return "cancel function's answer"
    return None


