"""C08 -- poll: one poll at a time, exact descriptor set, first yield wins, prompt polls.

Decided:
  R-SINGLE    the poll function is called from exactly one place, reached only from the poll loop, which is the
              target of exactly one thread per executor
  R-SNAPSHOT  _run_poll_fn snapshots the descriptors under the executor lock, calls the poll function outside it
              with that snapshot, and on failure fails exactly the descriptors of that same snapshot with the
              exception that was raised; its return value is the poll function's
  R-GUARDED   the descriptor list is only mutated / re-bound under the executor lock
  R-REGISTER  a future enters the polling stage only from the success branch of its delegate callback, once, with
              a descriptor carrying the delegate's result; it leaves it from its own done-callback (registered in
              the constructor), which removes exactly that future
  R-FIRSTWINS yield_result / yield_exception go through tolerant setters; PollFuture's setters ignore a second
              outcome (done-guard under the future's lock)
  R-VETO      the cancel function is consulted only for futures in the polling stage, with the delegate's result;
              False or an exception vetoes the cancel
  R-WAKE-*    registration and notify() set the poll event; the loop re-scans between clear() and wait()
Not decided: the exact descriptor set at every instant (follows from R-SNAPSHOT + R-REGISTER + lock rules);
promptness as real time.
"""
from ..core import where_of, trace_of
from ..interp import fmt, contains, subterms
from ..model import AnalysisError
from .. import q
from .. import wake
from .c03 import terminal_on


def check(ctx, rep):
    prog = ctx.prog
    rep.rule("R-SINGLE", "only _run_poll_fn calls the poll function, only _poll_loop calls _run_poll_fn, and _poll_loop is the target of exactly one Thread created in the constructor")
    rep.rule("R-SNAPSHOT", "_run_poll_fn: descriptors := [d for (_, d) in self._poll_descriptors] under self._lock; poll_fn(descriptors) outside it; on exception each descriptor of *that* list gets yield_exception(<the caught exception>); the result of poll_fn is returned")
    rep.rule("R-GUARDED", "self._poll_descriptors is appended to / re-bound only with self._lock held")
    rep.rule("R-REGISTER", "_register_poll is called only from the success branch of PollFuture._delegate_resolved, builds PollDescriptor(future, delegate.result()), appends (future, descriptor), drops the delegate link and wakes the poll thread; PollFuture.__init__ registers the deregistering callback; _deregister_poll removes exactly the given future")
    rep.rule("R-FIRSTWINS", "PollDescriptor.yield_result -> try_set_result(future, result); yield_exception -> copy_exception(future, exception, traceback); PollFuture.set_result / set_exception_info return without effect when already done, test and transition under one hold of the future's lock")
    rep.rule("R-VETO", "PollFuture._me_cancel: a delegate that cannot be cancelled vetoes; otherwise _run_cancel_fn decides: no cancel_fn -> True, not in the polling stage -> True, else cancel_fn(descriptor.result) with an exception meaning False")
    rep.rule("R-WAKE-P", "registration sets the poll event after the append; notify() sets it")
    rep.rule("R-WAKE-L", "the poll loop re-scans between clear() and the next wait()")
    pex = prog.cls("PollExecutor")
    pf = prog.cls("PollFuture")
    pd = prog.cls("PollDescriptor")
    SELF = ("param", "self")
    XL = ("attr", SELF, "_lock")
    DESCS = ("attr", SELF, "_poll_descriptors")
    callers = ctx.callgraph()

    # ---- R-SINGLE
    rpf = pex.methods.get("_run_poll_fn")
    loop = prog.fn("poll:_poll_loop")
    sites = []
    for fi in prog.functions.values():
        if fi.parent is not None:
            continue
        for ci in ctx.instances(fi):
            ps, it = ctx.paths(fi, ci, depth=0)
            for p in ps:
                for e in p.calls():
                    f = e.d["func"]
                    if e.fn is fi and isinstance(f, tuple) and f[0] == "attr" and f[2] == "_poll_fn":
                        sites.append(fi.key)
    rep.ob("R-SINGLE", "the poll function is called only from _run_poll_fn", set(sites) == {rpf.key}, "call sites: %s" % sorted(set(s.split(":")[-1] for s in sites)), where_of(rpf))
    cs = sorted(set(k for k, _ in callers.get(rpf.key, set())))
    rep.ob("R-SINGLE", "_run_poll_fn is called only from the poll loop", cs == [loop.key], "callers: %s" % [c.split(":")[-1] for c in cs], where_of(rpf))
    th = [(o, t) for o, t, n, i in ctx.types.thread_targets if t is loop]
    rep.ob("R-SINGLE", "the poll loop is the target of exactly one thread, created by PollExecutor.__init__", len(th) == 1 and th[0][0] is pex, "threads targeting _poll_loop: %d" % len(th), where_of(loop))
    lc = sorted(set(k for k, _ in callers.get(loop.key, set())))
    rep.ob("R-SINGLE", "the poll loop is not called directly", not lc, "callers: %s" % lc, where_of(loop))

    snapshot_rule(ctx, rep)
    ps, it = ctx.paths(loop, None, depth=0)
    for p in ps:
        waits = [e for e in p.calls() if q.call_name(e) == "wait"]
        rc = [e for e in p.calls() if e.d["callee"] is rpf]
        if not waits or not rc:
            continue
        res = ("call", rc[0].d["func"], rc[0].d["args"], rc[0].d["kwargs"], None)
        t = waits[0].d["args"][0] if waits[0].d["args"] else None
        numeric = any(v for tt, v in p.branch_atoms() if isinstance(tt, tuple) and tt[0] == "call" and tt[1] == ("name", "isinstance") and tt[2][:1] == (res,))
        ok = (t == res and numeric) or (isinstance(t, tuple) and t[0] == "attr" and t[2] == "_default_interval" and not numeric)
        rep.ob("R-SNAPSHOT", "_poll_loop sleeps the interval returned by the poll function, else the default", ok, "wait(%s), numeric result: %s" % (fmt(t) if t else None, numeric), where_of(loop, waits[0].node), trace_of(p))

    # ---- R-GUARDED
    ng = 0
    for fi in sorted(prog.functions.values(), key=lambda f: f.key):
        if fi.parent is not None or fi.name == "__init__":
            continue
        for ci in ctx.instances(fi):
            ps, it = ctx.paths(fi, ci, depth=0)
            for p in ps:
                for e in p.events:
                    if e.fn is not fi:
                        continue
                    tgt = None
                    if e.kind == "call" and q.call_name(e) in ("append", "remove", "pop", "insert", "extend", "clear") and isinstance(q.recv(e), tuple) and q.recv(e)[0] == "attr" and q.recv(e)[2] == "_poll_descriptors":
                        tgt = q.recv(e)
                    if e.kind == "store" and e.d["target"][0] == "attr" and e.d["target"][2] == "_poll_descriptors":
                        tgt = e.d["target"]
                    if tgt is not None and it.type_of(tgt[1], p) == "C:" + pex.key:
                        ng += 1
                        rep.ob("R-GUARDED", "%s: descriptor list changed under the executor lock" % fi.qualname, q.has_lock(e, ("attr", tgt[1], "_lock")), "descriptor list changed without the executor lock: the poll thread's snapshot may miss or duplicate entries", where_of(fi, e.node), trace_of(p, e.seq))
    rep.count("mutations of the descriptor list", ng, 2)

    # ---- R-REGISTER
    reg = pex.methods.get("_register_poll")
    dereg = pex.methods.get("_deregister_poll")
    cs = sorted(set(k for k, _ in callers.get(reg.key, set())))
    dr = pf.methods.get("_delegate_resolved")
    rep.ob("R-REGISTER", "_register_poll is called only from PollFuture._delegate_resolved", cs == [dr.key], "callers: %s" % [c.split(":")[-1] for c in cs], where_of(reg))
    ps, it = ctx.paths(dr, pf, depth=0)
    D = ("param", dr.params[1])
    for p in ps:
        rc = [e for e in p.calls() if e.d["callee"] is reg]
        atoms = dict((fmt(t), v) for t, v in p.branch_atoms())
        failed = None
        for t, v in p.branch_atoms():
            if isinstance(t, tuple) and t[0] == "call" and t[1] == ("attr", D, "exception"):
                failed = v
            if isinstance(t, tuple) and t[0] == "cmp" and t[1] == "is" and t[2][:2] == ("call", ("attr", D, "exception")) and t[3] == ("const", None):
                failed = not v
        cancelled = atoms.get("delegate.cancelled()")
        if rc:
            ok = len(rc) == 1 and cancelled is False and failed is False and rc[0].d["args"][0] == SELF
            rep.ob("R-REGISTER", "PollFuture: polling starts once, only after the delegate succeeded", ok, "registered with delegate cancelled=%s failed=%s, %d times" % (cancelled, failed, len(rc)), where_of(dr), trace_of(p))
            a1 = rc[0].d["args"][1] if len(rc[0].d["args"]) > 1 else None
            rep.ob("R-REGISTER", "PollFuture: the descriptor is built from this delegate", a1 in (D, ("attr", SELF, "_delegate")), "second argument %s" % (fmt(a1) if a1 else None), where_of(dr))
        elif failed:
            ok = any(c.d["callee"] is not None and c.d["callee"].name == "copy_future_exception" and c.d["args"] == (D, SELF) for c in p.calls())
            rep.ob("R-REGISTER", "PollFuture: a failed delegate fails the future with its exception", ok, "", where_of(dr), trace_of(p))
    ps, it = ctx.paths(reg, pex, depth=1, inline=_pd_init)
    FUT, DF = ("param", reg.params[1]), ("param", reg.params[2])
    for p in ps:
        if p.status != "return":
            continue
        mk = [e for e in p.calls() if e.d["func"] == ("class", pd.key)]
        ok = len(mk) == 1 and mk[0].d["args"][0] == FUT and mk[0].d["args"][1][:2] == ("call", ("attr", DF, "result"))
        rep.ob("R-REGISTER", "_register_poll: descriptor carries the delegate's result", ok, "PollDescriptor(%s)" % ([fmt(a) for a in mk[0].d["args"]] if mk else None), where_of(reg))
        apps = [e for e in p.calls() if q.call_name(e) == "append" and q.recv(e) == DESCS]
        desc = [k for k, t in p.types.items() if t == "C:" + pd.key]
        ok = len(apps) == 1 and apps[0].d["args"][0][0] == "tuple" and apps[0].d["args"][0][1][0] == FUT and apps[0].d["args"][0][1][1] in desc
        rep.ob("R-REGISTER", "_register_poll: appends (future, descriptor) once", ok, "", where_of(reg))
        sets = [e for e in p.calls() if q.call_name(e) == "set" and q.recv(e) == ("attr", SELF, "_poll_event")]
        rep.ob("R-WAKE-P", "_register_poll: wakes the poll thread after the append", bool(apps) and bool(sets) and apps[0].seq < sets[0].seq, "", where_of(reg))
        cd = [e for e in p.calls() if q.call_name(e) == "_clear_delegate" and q.recv(e) == FUT]
        rep.ob("R-REGISTER", "_register_poll: the delegate link is dropped on entry to the polling stage (after the append)", len(cd) == 1 and bool(apps) and apps[0].seq < cd[0].seq, "", where_of(reg))
    init = pf.methods.get("__init__")
    ps, it = ctx.paths(init, pf, depth=0)
    for p in ps:
        own = [e for e in p.calls() if q.call_name(e) == "add_done_callback" and q.recv(e) == SELF]
        dlg = [e for e in p.calls() if q.call_name(e) == "add_done_callback" and q.recv(e) != SELF]
        ok = len(own) == 1 and own[0].d["args"] == (("attr", SELF, "_clear_executor"),)
        rep.ob("R-REGISTER", "PollFuture.__init__ registers the deregistering callback on itself", ok, "", where_of(init))
        ok = len(dlg) == 1 and dlg[0].d["args"] == (("attr", SELF, "_delegate_resolved"),) and q.recv(dlg[0]) in (("param", init.params[1]), ("attr", SELF, "_delegate"))
        rep.ob("R-REGISTER", "PollFuture.__init__ follows its delegate", ok, "", where_of(init))
    ce = pf.methods.get("_clear_executor")
    ps, it = ctx.paths(ce, pf, depth=0)
    FP = ("param", ce.params[1])
    for p in ps:
        dc = [e for e in p.calls() if e.d["callee"] is dereg or q.call_name(e) == "_deregister_poll"]
        ok = len(dc) == 1 and dc[0].d["args"] == (FP,)
        clr = [e for e in p.evs("store") if e.d["target"] == ("attr", FP, "_executor") and e.d["value"] == ("const", None)]
        rep.ob("R-REGISTER", "PollFuture done-callback deregisters this future, then drops the executor", ok and len(clr) == 1 and dc[0].seq < clr[0].seq, "", where_of(ce), trace_of(p))
    ps, it = ctx.paths(dereg, pex, depth=0)
    for p in ps:
        st = [e for e in p.evs("store") if e.d["target"] == DESCS]
        ok = len(st) == 1 and st[0].d["value"][0] == "comp" and st[0].d["value"][3] == (DESCS,)
        conds = st[0].d["value"][4] if ok else ()
        okc = len(conds) == 1 and conds[0].replace(" ", "") in ("fisnot%s" % dereg.params[1], "notfis%s" % dereg.params[1])
        rep.ob("R-REGISTER", "_deregister_poll keeps every entry except the given future", ok and okc, "rebuilds with condition %s" % list(conds), where_of(dereg))

    # ---- R-FIRSTWINS
    for mname, helper, nargs in (("yield_result", "try_set_result", 2), ("yield_exception", "copy_exception", 3)):
        m = pd.methods.get(mname)
        ps, it = ctx.paths(m, pd, depth=0)
        for p in ps:
            hc = [e for e in p.calls() if e.d["callee"] is not None and e.d["callee"].name == helper]
            want = (("attr", SELF, "_PollDescriptor__future"),) + tuple(("param", x) for x in m.params[1:])
            rep.ob("R-FIRSTWINS", "PollDescriptor.%s uses the tolerant setter on its own future" % mname, len(hc) == 1 and tuple(hc[0].d["args"]) == want, "calls %s" % [("%s(%s)" % (fmt(e.d["func"]), ", ".join(fmt(a) for a in e.d["args"]))) for e in p.calls()], where_of(m))
    ps, it = ctx.paths(pd.methods["__init__"], pd, depth=0)
    for p in ps:
        rep.ob("R-FIRSTWINS", "PollDescriptor keeps the future and result it was given", p.heap.get(("attr", SELF, "_PollDescriptor__future")) == ("param", "future") and p.heap.get(("attr", SELF, "_PollDescriptor__result")) == ("param", "result"), "", where_of(pd.methods["__init__"]))
    FL = ("attr", SELF, "_me_lock")
    for mname in ("set_result", "set_exception_info"):
        m = pf.methods.get(mname)
        rep.require(m is not None, "PollFuture.%s not found" % mname)
        ps, it = ctx.paths(m, pf, depth=0)
        kinds = set()
        for p in ps:
            tests = [b for b in p.evs("branch") if isinstance(b.d[0], tuple) and b.d[0][0] == "call" and b.d[0][1] == ("attr", SELF, "done")]
            trans = [e for e in p.calls() if terminal_on(e, SELF, it, p)]
            rep.ob("R-FIRSTWINS", "PollFuture.%s tests done() under the future's lock" % mname, len(tests) == 1 and q.has_lock(tests[0], FL), "", where_of(m), trace_of(p))
            if tests and tests[0].d[1]:
                kinds.add("second")
                rep.ob("R-FIRSTWINS", "PollFuture.%s: a second outcome is ignored" % mname, not trans and p.status == "return", "", where_of(m), trace_of(p))
            elif tests:
                kinds.add("first")
                same = len(trans) == 1 and q.has_lock(trans[0], FL) and not [x for x in p.evs("exit") if x.d[1] == FL and tests[0].seq < x.seq < trans[0].seq]
                rep.ob("R-FIRSTWINS", "PollFuture.%s: test and transition under one hold of the lock" % mname, same, "", where_of(m), trace_of(p))
        rep.ob("R-FIRSTWINS", "PollFuture.%s has both cases" % mname, kinds == {"first", "second"}, "%s" % sorted(kinds), where_of(m))

    # ---- R-VETO
    mc = pf.methods.get("_me_cancel")
    rcf = pex.methods.get("_run_cancel_fn")
    ps, it = ctx.paths(mc, pf, depth=0)
    for p in ps:
        if p.status != "return":
            continue
        dcs = [e for e in p.calls() if q.call_name(e) == "cancel" and q.recv(e) == ("attr", SELF, "_delegate")]
        rc = [e for e in p.calls() if e.d["callee"] is rcf or q.call_name(e) == "_run_cancel_fn"]
        if dcs:
            res = ("call", dcs[0].d["func"], dcs[0].d["args"], dcs[0].d["kwargs"], None)
            if p.assume.get(res) is False:
                rep.ob("R-VETO", "PollFuture._me_cancel: a delegate that cannot be cancelled vetoes", p.value == ("const", False) and not rc, "", where_of(mc), trace_of(p))
        if rc:
            rep.ob("R-VETO", "PollFuture._me_cancel: the cancel function decides last, for this future", rc[0].d["args"] == (SELF,) and (p.value == ("call", rc[0].d["func"], rc[0].d["args"], rc[0].d["kwargs"], None)), "returns %s" % fmt(p.value), where_of(mc), trace_of(p))
    ps, it = ctx.paths(rcf, pex, depth=0)
    FP = ("param", rcf.params[1])
    kinds = set()
    for p in ps:
        ucalls = [e for e in p.calls() if e.d.get("user")]
        hasfn = None
        for t, v in p.branch_atoms():
            if t == ("attr", SELF, "_cancel_fn"):
                hasfn = v
        if hasfn is False:
            kinds.add("no cancel_fn")
            rep.ob("R-VETO", "_run_cancel_fn: no cancel function -> no veto", p.value == ("const", True) and not ucalls, "", where_of(rcf), trace_of(p))
            continue
        if not ucalls:
            if p.status == "return":
                kinds.add("not polling")
                rep.ob("R-VETO", "_run_cancel_fn: future not in the polling stage -> no veto, cancel function not consulted", p.value == ("const", True), "returns %s" % fmt(p.value), where_of(rcf), trace_of(p))
            continue
        u = ucalls[0]
        a = u.d["args"]
        # the argument is the result carried by the descriptor found for this future in the descriptor list
        ok = len(a) == 1 and isinstance(a[0], tuple) and a[0][0] == "attr" and a[0][2] == "result" and contains(a[0], ("attr", SELF, "_poll_descriptors")) and any(c.replace(" ", "") == "fis%s" % rcf.params[1] for s in subterms(a[0]) if s[0] == "comp" for c in s[4])
        rep.ob("R-VETO", "_run_cancel_fn: the cancel function receives the delegate's result of this future", ok, "cancel_fn(%s)" % [fmt(x) for x in a], where_of(rcf, u.node), trace_of(p))
        if p.evs("catch"):
            kinds.add("raised")
            rep.ob("R-VETO", "_run_cancel_fn: an exception from the cancel function vetoes", p.status == "return" and p.value == ("const", False), "returns %s (%s)" % (fmt(p.value) if p.value else None, p.status), where_of(rcf), trace_of(p))
        elif p.status == "return":
            kinds.add("answered")
            rep.ob("R-VETO", "_run_cancel_fn: the cancel function's answer is returned", p.value == ("call", u.d["func"], u.d["args"], u.d["kwargs"], None), "returns %s" % fmt(p.value), where_of(rcf), trace_of(p))
        else:
            rep.ob("R-VETO", "_run_cancel_fn never raises", False, "status %s" % p.status, where_of(rcf), trace_of(p))
    rep.ob("R-VETO", "_run_cancel_fn: all four cases present", kinds == {"no cancel_fn", "not polling", "raised", "answered"}, "%s" % sorted(kinds), where_of(rcf))

    # ---- wake-ups
    nt = pex.methods.get("notify")
    ps, it = ctx.paths(nt, pex, depth=0)
    for p in ps:
        sets = [e for e in p.calls() if q.call_name(e) == "set" and q.recv(e) == ("attr", SELF, "_poll_event")]
        rep.ob("R-WAKE-P", "notify() sets the poll event", len(sets) == 1, "", where_of(nt))
    loops = [l for l in wake.discover(ctx) if l.owner is pex]
    wake.check_loops(ctx, rep, loops, components="state")
    wake.check_producers(ctx, rep, loops)


def snapshot_rule(ctx, rep):
    prog = ctx.prog
    pex = prog.cls("PollExecutor")
    SELF = ("param", "self")
    XL = ("attr", SELF, "_lock")
    DESCS = ("attr", SELF, "_poll_descriptors")
    rpf = pex.methods.get("_run_poll_fn")
    rep.rule("R-SNAPSHOT", "_run_poll_fn: descriptors := [d for (_, d) in self._poll_descriptors] under self._lock; poll_fn(descriptors) outside it; on exception each descriptor of *that* list gets yield_exception(<the caught exception>); the result of poll_fn is returned")
    # ---- R-SNAPSHOT
    ps, it = ctx.paths(rpf, pex, depth=0)
    kinds = set()
    for p in ps:
        ucalls = [e for e in p.calls() if e.d.get("user")]
        rep.require(len(ucalls) == 1, "_run_poll_fn: expected exactly one poll function call per path")
        u = ucalls[0]
        arg = u.d["args"][0] if len(u.d["args"]) == 1 else None
        ok = isinstance(arg, tuple) and arg[0] == "comp" and arg[3] == (DESCS,) and not arg[4] and len(arg[2]) == 1 and arg[2][0][:1] == ("unpack",) and arg[2][0][2] == 1
        rep.ob("R-SNAPSHOT", "_run_poll_fn: the poll function receives the descriptor of every registered entry", ok, "poll_fn(%s)" % (fmt(arg) if arg else None), where_of(rpf, u.node), trace_of(p))
        # snapshot evaluated under the lock: the comprehension's loop event
        comp_loops = [e for e in p.evs("loop") if e.d[0] == "enter" and e.d[1] == DESCS]
        rep.ob("R-SNAPSHOT", "_run_poll_fn: snapshot taken under the executor lock", bool(comp_loops) and q.has_lock(comp_loops[0], XL), "", where_of(rpf))
        rep.ob("R-SNAPSHOT", "_run_poll_fn: the poll function runs outside the executor lock", not q.has_lock(u, XL), "user poll function called with self._lock held: yields deadlock against registration/deregistration and block every submitter", where_of(rpf, u.node))
        caught = p.evs("catch")
        if caught:
            kinds.add("raised")
            ys = [e for e in p.calls() if q.call_name(e) == "yield_exception"]
            ok = len(ys) == 1 and isinstance(q.recv(ys[0]), tuple) and q.recv(ys[0])[0] == "elem" and q.recv(ys[0])[1] == arg and ys[0].d["args"][:1] == (caught[0].d["exc"],)
            rep.ob("R-SNAPSHOT", "_run_poll_fn: a raising poll function fails exactly the futures it was shown, with its exception", ok, "yield_exception on %s with %s" % ([fmt(q.recv(e)) for e in ys], [fmt(e.d["args"][0]) for e in ys if e.d["args"]]), where_of(rpf), trace_of(p))
            rep.ob("R-SNAPSHOT", "_run_poll_fn: handler catches Exception", caught[0].d["names"] in (["Exception"], None), "catches %s" % caught[0].d["names"], where_of(rpf))
            rep.ob("R-SNAPSHOT", "_run_poll_fn does not raise", p.status == "return", "status %s" % p.status, where_of(rpf))
        elif p.status == "return":
            kinds.add("returned")
            res = ("call", u.d["func"], u.d["args"], u.d["kwargs"], None)
            rep.ob("R-SNAPSHOT", "_run_poll_fn returns the poll function's value (next interval)", p.value == res, "returns %s" % fmt(p.value), where_of(rpf))
    rep.require(kinds == {"raised", "returned"}, "_run_poll_fn: expected returning and raising paths")


def _pd_init(callee, ev, path):
    return False
