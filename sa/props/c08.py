"""C08 -- poll: one poll at a time, exact descriptor set, first yield wins, prompt polls.

Evaluated on entry points with a stable identity: the poll thread's target, the callbacks PollFuture registers in
its constructor (on its delegate and on itself), cancel(), the public notify() / yield_result() / yield_exception()
/ set_result() ..., with all private helpers inlined.  No private helper is referred to by name.

Decided:
  R-SINGLE    the poll function is called only on paths of the poll thread (never from submit, cancel, callbacks),
              and the poll loop is the target of exactly one thread per executor
  R-SNAPSHOT  per iteration: the descriptors handed to the poll function are read from the registered entries
              under the executor lock; the poll function runs outside it; on failure exactly the descriptors of
              that same snapshot are failed, with the exception that was raised; the wait interval is the poll
              function's numeric return value, else the default
  R-GUARDED   the descriptor list is only mutated / re-bound under the executor lock
  R-REGISTER  a future enters the polling stage only from the success branch of its delegate callback, once, with
              a descriptor carrying the delegate's result, its delegate link dropped after the entry is in the
              list; it leaves it from its own done-callback (registered in the constructor), which removes
              exactly that future
  R-FIRSTWINS yield_result / yield_exception go through tolerant setters on the descriptor's own future;
              PollFuture's setters ignore a second outcome (done-guard and transition in one lock hold)
  R-VETO      cancel(): a delegate that cannot be cancelled vetoes; the cancel function is consulted only for
              futures in the polling stage, with the delegate's result; False or an exception vetoes
  R-WAKE-*    registration and notify() set the poll event; the loop re-scans between clear() and wait()
Not decided: the exact descriptor set at every instant; promptness as real time.
"""
from ..core import where_of, trace_of
from ..interp import fmt, contains, subterms
from ..model import AnalysisError, ClassInfo
from .. import q
from .. import wake
from ..roles import std_inline, bound, container_of, registered_callbacks, proto
from .c03 import terminal_on
from .c02 import _no_cb_inline

SELF = ("param", "self")
DEPTH = 6


SHAPE = [("pos",)]


def entry_parts(p, entry, prog):
    """(future part, descriptor part) of a registered entry -- a 2-tuple or a two-field record -- and remember how
    its parts are read back: by position (unpacking / index) or by field name"""
    if isinstance(entry, tuple) and entry[0] == "tuple" and len(entry[1]) == 2:
        SHAPE[0] = ("pos",)
        return entry[1][0], entry[1][1]
    if isinstance(entry, tuple) and entry[0] == "new":
        rc = prog.classes.get(entry[1])
        if rc is not None and rc.record_fields is not None and len(rc.record_fields) == 2:
            f0, f1 = rc.record_fields
            SHAPE[0] = ("rec", f0, f1)
            return p.heap.get(("attr", entry, f0)), p.heap.get(("attr", entry, f1))
    return None, None


def is_desc_proj(x):
    """x reads the descriptor part of an entry: unpack(E, 1) / E[1] / E.<descriptor field>; returns E or None"""
    if not isinstance(x, tuple):
        return None
    if x[0] == "unpack" and x[2] == 1:
        return x[1]
    if x[0] == "sub" and x[2] == ("const", 1):
        return x[1]
    if x[0] == "attr" and SHAPE[0][0] == "rec" and x[2] == SHAPE[0][2]:
        return x[1]
    return None


def _discover_shape(ctx, prog, dcb, pf, DF):
    ps, it = ctx.paths(dcb, pf, depth=DEPTH, inline=std_inline)
    for p in ps:
        for e in p.calls():
            if q.call_name(e) in ("append", "add") and isinstance(q.recv(e), tuple) and q.recv(e)[0] == "attr" and q.recv(e)[2] == DF and e.d["args"]:
                entry_parts(p, e.d["args"][0], prog)
                return


def _drop_after_append(rep, rule, p, a, dcb, pf, ctx):
    from ..roles import ctor_param_fields
    dfields = ctor_param_fields(ctx, pf, "delegate") or ["_delegate"]
    drops = [e for e in p.evs("store") if e.d["target"][0] == "attr" and e.d["target"][1] == SELF and e.d["target"][2] in dfields and e.d["value"] == ("const", None)]
    rep.ob(rule, "PollFuture: the delegate link is dropped on entry to the polling stage, after the entry is in the list", len(drops) == 1 and a.seq < drops[0].seq, "a cancel() between dropping the link and the append finds neither a delegate nor a descriptor: it succeeds without consulting the cancel function, and the entry appended afterwards is never removed (the executor keeps the finished future and the delegate's result for ever)" if drops else "the delegate link is not dropped", where_of(dcb), trace_of(p))


def register_order_rule(ctx, rep, rule):
    """shared with C12: an entry can only be registered for a future that cannot finish before the entry exists"""
    pex, pf, li, dcb, own = roles(ctx)
    DF = sorted(li.scanned)[0]
    ps, it = ctx.paths(dcb, pf, depth=DEPTH, inline=std_inline)
    n = 0
    for p in ps:
        if p.status != "return":
            continue
        apps = [e for e in p.calls() if q.call_name(e) in ("append", "add") and isinstance(q.recv(e), tuple) and q.recv(e)[0] == "attr" and q.recv(e)[2] == DF]
        if apps:
            n += 1
            _drop_after_append(rep, rule, p, apps[0], dcb, pf, ctx)
    rep.require(n >= 1, "PollFuture delegate callback: registration path not found")


def roles(ctx):
    prog = ctx.prog
    pex = prog.cls("PollExecutor")
    pf = prog.cls("PollFuture")
    loops = [l for l in wake.discover(ctx) if l.owner is pex]
    if len(loops) != 1 or len(loops[0].scanned) != 1:
        raise AnalysisError("PollExecutor: worker loop / descriptor list not identified")
    li = loops[0]
    cbs = registered_callbacks(ctx, pf)
    dcb = own = None
    for key, (m, recv) in cbs.items():
        if recv == SELF:
            own = m
        else:
            dcb = m
    if dcb is None or own is None:
        raise AnalysisError("PollFuture: constructor-registered callbacks not found (delegate: %s, own: %s)" % (dcb, own))
    return pex, pf, li, dcb, own


def snapshot_rule(ctx, rep):
    """shared with C01: a poll failure is routed to exactly the futures that poll call was shown"""
    pex, pf, li, dcb, own = roles(ctx)
    rep.rule("R-SNAPSHOT", "per poll: the argument of the poll function is derived from the registered entries read under the executor lock; the poll function runs outside that lock; on exception every descriptor of *that* argument gets yield_exception(<the caught exception>); the wait interval is the poll function's numeric result, else the default")
    DF = sorted(li.scanned)[0]
    _discover_shape(ctx, ctx.prog, dcb, pf, DF)
    ps, it = ctx.paths(li.target, li.target.owner, depth=DEPTH, inline=std_inline, maxpaths=20000)
    X = li.exec_term
    XD = ("attr", X, DF)
    kinds = set()
    for p in ps:
        ucalls = [e for e in p.calls() if e.d.get("user")]
        if not ucalls:
            continue
        rep.ob("R-SNAPSHOT", "poll loop: one poll function call per iteration", len(ucalls) == 1, "%d user calls in one iteration" % len(ucalls), where_of(li.target), trace_of(p))
        u = ucalls[0]
        arg = u.d["args"][0] if len(u.d["args"]) == 1 else None
        argd = q.deref(p, arg) if arg is not None else None
        src = None
        proj_ok = False
        if isinstance(argd, tuple) and argd[0] == "comp" and len(argd[2]) == 1:
            proj_ok = is_desc_proj(argd[2][0]) is not None and not argd[4]
            src = argd[3][0] if len(argd[3]) == 1 else None
        elif isinstance(argd, tuple) and argd[0] == "list":
            proj_ok = all(is_desc_proj(x) is not None and container_of(is_desc_proj(x)) == XD for x in argd[1])
            src = XD if proj_ok else None
        rep.ob("R-SNAPSHOT", "poll loop: the poll function receives the descriptor of every registered entry", src == XD and proj_ok, "poll_fn(%s)" % (fmt(argd) if argd is not None else None), where_of(u.fn, u.node), trace_of(p, u.seq))
        reads = [e for e in p.evs("loop") if e.d[0] == "enter" and e.d[1] == XD and e.seq < u.seq]
        locked = bool(reads) and all(any(l[1][0] == "attr" and l[1][1] == X for l in e.locks) for e in reads)
        rep.ob("R-SNAPSHOT", "poll loop: snapshot taken under the executor lock", locked, "the registered entries are read without the executor lock", where_of(u.fn, u.node), trace_of(p, u.seq))
        rep.ob("R-SNAPSHOT", "poll loop: the poll function runs outside the executor lock", not [l for l in u.locks if l[1][0] == "attr" and l[1][1] == X], "user poll function called with an executor lock held", where_of(u.fn, u.node), trace_of(p, u.seq))
        caught = [c for c in p.evs("catch") if isinstance(c.d["exc"], tuple) and len(c.d["exc"]) > 2 and isinstance(c.d["exc"][2], tuple) and c.d["exc"][2][:1] == ("from",)]
        waits = [e for e in p.calls() if q.call_name(e) == "wait" and it.type_of(q.recv(e), p) == "E:Event"]
        if caught:
            kinds.add("raised")
            ys = [e for e in p.calls() if q.call_name(e) == "yield_exception" and e.seq > caught[0].seq]
            fail_loops = [e for e in p.evs("loop") if e.seq > caught[0].seq and e.d[0] == "enter" and e.d[1] is not None]
            over_snapshot = any(e.d[1] == arg or q.deref(p, e.d[1]) == argd for e in fail_loops)
            empty = argd == ("list", ()) or any(e.d[0] == "exit" and e.d[1] == "empty" for e in p.evs("loop") if e.seq > caught[0].seq)
            def from_snapshot(r):
                if not isinstance(r, tuple):
                    return False
                if r[0] == "elem" and (r[1] == arg or q.deref(p, r[1]) == argd):
                    return True
                return isinstance(argd, tuple) and argd[0] == "list" and r in argd[1]
            good = [e for e in ys if e.d["args"][:1] == (caught[0].d["exc"],) and from_snapshot(q.recv(e))]
            ok = over_snapshot and ((len(ys) >= 1 and len(good) == len(ys)) or (not ys and empty))
            rep.ob("R-SNAPSHOT", "poll loop: a raising poll function fails exactly the futures it was shown, with its exception", ok, "after the failure: yield_exception on %s with %s; iterates %s" % ([fmt(q.recv(e)) for e in ys], [fmt(e.d["args"][0]) for e in ys if e.d["args"]], [fmt(e.d[1]) for e in fail_loops]), where_of(caught[0].fn, caught[0].node), trace_of(p))
            rep.ob("R-SNAPSHOT", "poll loop: the handler catches Exception", caught[0].d["names"] in (["Exception"], None), "catches %s" % caught[0].d["names"], where_of(caught[0].fn, caught[0].node))
        elif p.status != "raise":
            kinds.add("returned")
            res = ("call", u.d["func"], u.d["args"], u.d["kwargs"], None)
            for w in waits:
                t = w.d["args"][0] if w.d["args"] else None
                numeric = any(v for tt, v in p.branch_atoms() if isinstance(tt, tuple) and tt[0] == "call" and tt[1] == ("name", "isinstance") and tt[2][:1] == (res,))
                ok = (t == res and numeric) or (isinstance(t, tuple) and t[0] == "attr" and t[1] == X and not numeric and t != res)
                rep.ob("R-SNAPSHOT", "poll loop: sleeps the interval returned by the poll function, else the default", ok, "wait(%s), numeric result: %s" % (fmt(t) if t else None, numeric), where_of(w.fn, w.node), trace_of(p, w.seq))
        else:
            rep.ob("R-SNAPSHOT", "poll loop: an exception from the poll function never escapes the loop", False, "the poll thread dies with %s" % fmt(p.value), where_of(li.target), trace_of(p))
            kinds.add("raised")
    rep.require(kinds == {"raised", "returned"}, "poll loop: expected returning and raising poll paths, found %s" % sorted(kinds))


def check(ctx, rep):
    prog = ctx.prog
    rep.rule("R-SINGLE", "the poll function is called only on paths of the poll thread's target, which is the target of exactly one Thread created in the constructor and is not called directly")
    rep.rule("R-GUARDED", "the descriptor list is appended to / re-bound only with the executor lock held")
    rep.rule("R-REGISTER", "polling starts only from the success branch of PollFuture's delegate callback: PollDescriptor(future, delegate.result()) appended once, then the delegate link dropped, then the poll thread woken; PollFuture's own done-callback removes exactly that future from the list and drops the executor")
    rep.rule("R-FIRSTWINS", "PollDescriptor.yield_result -> tolerant set_result on its own future; yield_exception -> tolerant exception copy; PollFuture.set_result / set_exception_info return without effect when already done, test and transition under one hold of the future's lock")
    rep.rule("R-VETO", "cancel() of a PollFuture: a delegate that cannot be cancelled vetoes; no cancel function or not in the polling stage -> no veto; else cancel_fn(<delegate result of this future>) decides, an exception meaning False")
    rep.rule("R-WAKE-P", "registration sets the poll event after the append; notify() sets it")
    rep.rule("R-WAKE-L", "the poll loop re-scans between clear() and the next wait()")
    pex, pf, li, dcb, own = roles(ctx)
    pd = prog.cls("PollDescriptor")
    DF = sorted(li.scanned)[0]
    callers = ctx.callgraph()
    rep.note("poll roles: loop=%s, descriptor list=%s, delegate callback=%s, own callback=%s" % (li.target.qualname, DF, dcb.qualname, own.qualname))
    fut = prog.cls("_Future")

    # ---- R-SINGLE: where can the poll function be called from?
    roots = []
    for c in (pex, pf, pd):
        for n, m in c.methods.items():
            if not n.startswith("_") or n in ("__init__", "__call__"):
                roots.append((m, c))
    roots.append((fut.methods["cancel"], pf))
    roots.append((fut.methods["add_done_callback"], pf))
    roots.append((dcb, pf))
    roots.append((own, pf))
    offenders = []
    for m, c in roots:
        ps, it = ctx.paths(m, c, depth=DEPTH, inline=std_inline)
        for p in ps:
            for e in p.calls():
                f = e.d["func"]
                if e.d.get("user") and isinstance(f, tuple) and f[0] == "attr" and f[2] in ctx.types.tainted_fields and "poll" in f[2] and "cancel" not in f[2]:
                    offenders.append((m, e))
    rep.ob("R-SINGLE", "the poll function is called only by the poll thread", not offenders, "%s can call the poll function: two polls could run concurrently" % (offenders[0][0].qualname if offenders else ""), where_of(offenders[0][1].fn, offenders[0][1].node) if offenders else where_of(li.target))
    th = [(o, t) for o, t, n, i in ctx.types.thread_targets if t is li.target]
    rep.ob("R-SINGLE", "the poll loop is the target of exactly one thread, created by PollExecutor.__init__", len(th) == 1 and th[0][0] is pex, "threads targeting the poll loop: %d" % len(th), where_of(li.target))
    lc = sorted(set(k for k, _ in callers.get(li.target.key, set())))
    rep.ob("R-SINGLE", "the poll loop is not called directly", not lc, "callers: %s" % lc, where_of(li.target))

    snapshot_rule(ctx, rep)

    # ---- R-GUARDED
    ng = 0
    for fi in sorted(prog.functions.values(), key=lambda f: f.key):
        if fi.parent is not None or fi.name == "__init__":
            continue
        for ci in ctx.instances(fi):
            ps, it = ctx.paths(fi, ci, depth=0)
            for p in ps:
                for e in p.events:
                    if e.fn is not fi:
                        continue
                    tgt = None
                    if e.kind == "call" and q.call_name(e) in ("append", "remove", "pop", "insert", "extend", "clear") and isinstance(q.recv(e), tuple) and q.recv(e)[0] == "attr" and q.recv(e)[2] == DF:
                        tgt = q.recv(e)
                    if e.kind == "store" and e.d["target"][0] == "attr" and e.d["target"][2] == DF:
                        tgt = e.d["target"]
                    if e.kind in ("store", "del") and e.d["target"][0] == "sub" and isinstance(e.d["target"][1], tuple) and e.d["target"][1][0] == "attr" and e.d["target"][1][2] == DF:
                        tgt = e.d["target"][1]  # del xs[i] / xs[i] = v / xs[:] = ...
                    if tgt is not None and it.type_of(tgt[1], p) == "C:" + pex.key:
                        ng += 1
                        held = any(l[1][0] == "attr" and l[1][1] == tgt[1] for l in e.locks)
                        if not held:
                            cs = callers.get(fi.key, set())
                            held = bool(cs) and _callers_hold_lock(ctx, fi, cs)
                        rep.ob("R-GUARDED", "%s: descriptor list changed under the executor lock" % fi.qualname, held, "descriptor list changed without the executor lock: the poll thread's snapshot may miss or duplicate entries", where_of(fi, e.node), trace_of(p, e.seq))
    rep.count("mutations of the descriptor list", ng, 2)
    from ..roles import shrink_rule
    shrink_rule(ctx, rep, pex, DF, "R-GUARDED", "the list of polled entries")

    # ---- R-REGISTER: the delegate callback
    ps, it = ctx.paths(dcb, pf, depth=DEPTH, inline=std_inline)
    D = ("param", dcb.params[1])
    nreg = 0
    for p in ps:
        if p.status == "raise":
            continue
        apps = [e for e in p.calls() if q.call_name(e) in ("append", "add") and isinstance(q.recv(e), tuple) and q.recv(e)[0] == "attr" and q.recv(e)[2] == DF]
        failed = cancelled = None
        for t, v in p.branch_atoms():
            if isinstance(t, tuple) and t[0] == "call" and t[1] == ("attr", D, "exception"):
                failed = v if failed is None else failed
            if isinstance(t, tuple) and t[0] == "cmp" and t[1] == "is" and isinstance(t[2], tuple) and t[2][:2] == ("call", ("attr", D, "exception")) and t[3] == ("const", None):
                failed = (not v) if failed is None else failed
            if isinstance(t, tuple) and t[0] == "call" and t[1] == ("attr", D, "cancelled"):
                cancelled = v
        if apps:
            nreg += 1
            ok = len(apps) == 1 and cancelled is False and failed is False
            rep.ob("R-REGISTER", "PollFuture: polling starts once, only after the delegate succeeded", ok, "registered with delegate cancelled=%s failed=%s, %d times" % (cancelled, failed, len(apps)), where_of(dcb), trace_of(p))
            a = apps[0]
            entry = a.d["args"][0] if a.d["args"] else None
            mk = [e for e in p.calls() if e.d["func"] == ("class", pd.key)]
            okd = False
            e_fut, e_desc = entry_parts(p, entry, prog)
            if len(mk) == 1 and e_fut is not None:
                b = bound(mk[0], prog)
                desc = [k for k, t in p.types.items() if t == "C:" + pd.key]
                r = b.get("result")
                okd = e_fut == SELF and e_desc in desc and b.get("future") == SELF and isinstance(r, tuple) and r[0] == "call" and isinstance(r[1], tuple) and r[1][0] == "attr" and r[1][2] == "result" and r[1][1] in (D, ("attr", SELF, "_delegate"))
            rep.ob("R-REGISTER", "PollFuture: the entry is (this future, descriptor carrying the delegate's result)", okd, "appends %s" % (fmt(entry) if entry else None), where_of(a.fn, a.node), trace_of(p, a.seq))
            lk = any(l[1][0] == "attr" and it.type_of(l[1][1], p) == "C:" + pex.key for l in a.locks)
            rep.ob("R-GUARDED", "registration appends under the executor lock", lk, "", where_of(a.fn, a.node))
            sets = [e for e in p.calls() if q.call_name(e) == "set" and it.type_of(q.recv(e), p) == "E:Event"]
            rep.ob("R-WAKE-P", "registration wakes the poll thread after the append", bool(sets) and a.seq < sets[0].seq, "", where_of(a.fn, a.node), trace_of(p))
            _drop_after_append(rep, "R-REGISTER", p, a, dcb, pf, ctx)
        elif failed:
            ok = any(terminal_on(e, SELF, it, p) and q.call_name(e) != "cancel" for e in p.calls()) or any(v and isinstance(t, tuple) and t[0] == "call" and t[1] == ("attr", SELF, "done") for t, v in p.branch_atoms())
            rep.ob("R-REGISTER", "PollFuture: a failed delegate fails the future", ok, "", where_of(dcb), trace_of(p))
    rep.require(nreg >= 1, "PollFuture delegate callback: registration path not found")
    others = []
    for m, c in roots:
        if m is dcb:
            continue
        ps, it = ctx.paths(m, c, depth=DEPTH, inline=std_inline)
        for p in ps:
            for e in p.calls():
                if q.call_name(e) in ("append", "add") and isinstance(q.recv(e), tuple) and q.recv(e)[0] == "attr" and q.recv(e)[2] == DF:
                    inside_cb = any(c2.d["callee"] is dcb and c2.seq < e.seq for c2 in p.calls())
                    if not inside_cb:
                        others.append((m, e))
    rep.ob("R-REGISTER", "entries are appended only by the delegate callback", not others, "%s also registers for polling" % (others[0][0].qualname if others else ""), where_of(others[0][1].fn, others[0][1].node) if others else where_of(dcb))
    init = pf.methods.get("__init__")
    ps, it = ctx.paths(init, pf, depth=0)
    for p in ps:
        if p.status == "raise":
            continue
        regs = [e for e in p.calls() if q.call_name(e) == "add_done_callback"]
        ownr = [e for e in regs if q.recv(e) == SELF and e.d["args"] == (("attr", SELF, own.name),)]
        dlg = [e for e in regs if q.recv(e) != SELF and e.d["args"] == (("attr", SELF, dcb.name),)]
        rep.ob("R-REGISTER", "PollFuture.__init__ registers the deregistering callback on itself", len(ownr) == 1, "", where_of(init))
        rep.ob("R-REGISTER", "PollFuture.__init__ follows its delegate", len(dlg) == 1 and q.recv(dlg[0]) in (("param", init.params[1]), ("attr", SELF, "_delegate")), "", where_of(init))
    ps, it = ctx.paths(own, pf, depth=DEPTH, inline=std_inline)
    FP = ("param", own.params[1]) if own.is_classmethod else SELF
    for p in ps:
        if p.status == "raise":
            continue
        st = [e for e in p.evs("store") if e.d["target"][0] == "attr" and e.d["target"][2] == DF]
        clr = [e for e in p.evs("store") if e.d["target"] == ("attr", FP, "_executor") and e.d["value"] == ("const", None)]
        ok = False
        detail = "the descriptor list is not updated"
        for e in st:
            v = q.deref(p, e.d["value"])
            if isinstance(v, tuple) and v[0] == "comp" and len(v[3]) == 1 and container_of(v[3][0]) == e.d["target"]:
                conds = [c.replace(" ", "") for c in v[4]]
                ok = len(conds) == 1 and ("isnot" in conds[0] or conds[0].startswith("not")) and " is " in (" " + v[4][0] + " ")
                detail = "rebuilds with condition %s" % list(v[4])
            elif isinstance(v, tuple) and v[0] == "list":
                kept_tests = [b for b in p.evs("branch") if isinstance(b.d[0], tuple) and b.d[0][0] == "cmp" and b.d[0][1] == "is" and any(x == FP or x == ("param", "future") for x in (b.d[0][2], b.d[0][3]))]
                ok = bool(kept_tests) and ((len(v[1]) >= 1) == (kept_tests[-1].d[1] is False))
                detail = "rebuilds by loop; identity test on the future: %s; kept %d" % ([(fmt(b.d[0]), b.d[1]) for b in kept_tests], len(v[1]))
                if not kept_tests and not v[1]:
                    ok = True  # empty list walked
        rep.ob("R-REGISTER", "PollFuture's own done-callback keeps every entry except this future's", ok, detail, where_of(own), trace_of(p))
        rep.ob("R-REGISTER", "PollFuture's own done-callback drops the executor after deregistering", len(clr) == 1 and (not st or st[-1].seq < clr[0].seq), "", where_of(own), trace_of(p))

    # ---- R-FIRSTWINS
    o, dinit = pd.lookup("__init__")
    fut_field = None
    psi, iti = ctx.paths(dinit, pd, depth=0)
    for pi in psi:
        for k, v in pi.heap.items():
            if k[0] == "attr" and k[1] == SELF and v == ("param", "future"):
                fut_field = k[2]
    rep.require(fut_field is not None, "PollDescriptor.__init__: field holding the future not found")
    F = ("attr", SELF, fut_field)
    for mname in ("yield_result", "yield_exception"):
        m = pd.methods.get(mname)
        rep.require(m is not None, "PollDescriptor.%s not found" % mname)
        ps, it = ctx.paths(m, pd, depth=DEPTH, inline=std_inline, may_raise=_ise)
        for p in ps:
            rep.ob("R-FIRSTWINS", "PollDescriptor.%s never raises InvalidStateError (a second yield / a cancelled future is tolerated)" % mname, not (p.status == "raise" and isinstance(p.value, tuple) and p.value[1] == "InvalidStateError"), "an InvalidStateError from the setter escapes into the user's poll function", where_of(m), trace_of(p))
            if p.status != "return":
                continue
            sets = [e for e in p.calls() if q.call_name(e) in ("set_result", "set_exception", "set_exception_info") and q.recv(e) == F]
            want = ("param", m.params[1])
            none_given = any(v for t, v in p.branch_atoms() if isinstance(t, tuple) and t[0] == "cmp" and t[1] == "is" and t[2] == want and t[3] == ("const", None))
            def arg_ok(a):
                if a == want:
                    return True
                # yield_exception(None): the exception being handled is used
                return none_given and q.exc_info_item(a)
            ok = bool(sets) and all(arg_ok(e.d["args"][0]) for e in sets if e.d["args"]) and (q.call_name(sets[0]) == "set_result") == (mname == "yield_result")
            rep.ob("R-FIRSTWINS", "PollDescriptor.%s sets the given outcome on its own future" % mname, ok, "calls %s" % [("%s(%s)" % (fmt(e.d["func"]), ", ".join(fmt(a) for a in e.d["args"]))) for e in sets], where_of(m), trace_of(p))
    FL = proto(ctx).LOCK
    for mname in ("set_result", "set_exception_info"):
        o, m = pf.lookup(mname)
        rep.require(m is not None, "PollFuture.%s not found" % mname)
        ps, it = ctx.paths(m, pf, depth=4, inline=_no_cb_inline)
        kinds = set()
        for p in ps:
            tests = [b for b in p.evs("branch") if isinstance(b.d[0], tuple) and b.d[0][0] == "call" and b.d[0][1] == ("attr", SELF, "done")]
            trans = [e for e in p.calls() if terminal_on(e, SELF, it, p)]
            rep.ob("R-FIRSTWINS", "PollFuture.%s tests done() under the future's lock" % mname, len(tests) >= 1 and q.has_lock(tests[0], FL), "", where_of(m), trace_of(p))
            if tests and tests[0].d[1]:
                kinds.add("second")
                rep.ob("R-FIRSTWINS", "PollFuture.%s: a second outcome is ignored" % mname, not trans and p.status == "return", "", where_of(m), trace_of(p))
            elif tests:
                kinds.add("first")
                same = len(trans) == 1 and q.has_lock(trans[0], FL) and not [x for x in p.evs("exit") if x.d[1] == FL and tests[0].seq < x.seq < trans[0].seq]
                rep.ob("R-FIRSTWINS", "PollFuture.%s: test and transition under one hold of the lock" % mname, same, "", where_of(m), trace_of(p))
        rep.ob("R-FIRSTWINS", "PollFuture.%s has both cases" % mname, kinds == {"first", "second"}, "%s" % sorted(kinds), where_of(m))

    # ---- R-VETO: cancel() root
    cm = fut.methods.get("cancel")
    ps, it = ctx.paths(cm, pf, depth=DEPTH, inline=_no_cb_inline)
    kinds = set()
    for p in ps:
        if p.status == "raise":
            continue
        atoms = dict((fmt(t), v) for t, v in p.branch_atoms())
        if atoms.get("self.cancelled()") or atoms.get("self.done()"):
            continue
        if atoms.get("self._executor") is False:
            continue  # the executor reference is only dropped by the future's own done-callback: not a pending future
        dcs = [e for e in p.calls() if q.call_name(e) == "cancel" and q.recv(e) == ("attr", SELF, "_delegate")]
        ucalls = [e for e in p.calls() if e.d.get("user")]
        stdc = [e for e in p.calls() if q.is_super_call(e, "cancel") and e.d["callee"] is None]
        if dcs and q.truth_of(p, q.result_of(dcs[0])) is False:
            kinds.add("delegate veto")
            rep.ob("R-VETO", "cancel: a delegate that cannot be cancelled vetoes", p.value == ("const", False) and not ucalls and not stdc, "", where_of(cm), trace_of(p))
            continue
        hasfn = None
        for t, v in p.branch_atoms():
            if isinstance(t, tuple) and t[0] == "attr" and t[2] in ctx.types.tainted_fields and "cancel" in t[2]:
                hasfn = v
        if ucalls:
            u = ucalls[0]
            a = u.d["args"]
            ad = q.deref(p, a[0]) if a else None
            ok = len(a) == 1 and _is_result_of_this(ad, DF)
            rep.ob("R-VETO", "cancel: the cancel function receives the delegate result recorded for this future", ok, "cancel_fn(%s)" % [fmt(x) for x in a], where_of(u.fn, u.node), trace_of(p, u.seq))
            caught = [c for c in p.evs("catch") if c.seq > u.seq]
            if caught:
                kinds.add("cancel_fn raised")
                rep.ob("R-VETO", "cancel: an exception from the cancel function vetoes", p.value == ("const", False) and not stdc, "returns %s" % fmt(p.value), where_of(cm), trace_of(p))
            else:
                ans = q.truth_of(p, q.result_of(u))
                kinds.add("cancel_fn answered")
                rep.ob("R-VETO", "cancel: the cancel function's answer decides", (bool(stdc) == bool(ans)) if ans is not None else True, "cancel_fn answered %s but the future is %s" % (ans, "cancelled" if stdc else "left alone"), where_of(cm), trace_of(p))
        else:
            kinds.add("no cancel_fn" if hasfn is False else "not polling")
            rep.ob("R-VETO", "cancel: without a cancel function / outside the polling stage there is no veto", bool(stdc), "cancel() is refused although no cancel function applies [%s]" % q.path_sig(p)[:100], where_of(cm), trace_of(p))
    rep.ob("R-VETO", "cancel: all veto cases present", {"delegate veto", "cancel_fn raised", "cancel_fn answered", "no cancel_fn", "not polling"} <= kinds, "cases found: %s" % sorted(kinds), where_of(cm))

    # ---- wake-ups
    nt = pex.methods.get("notify")
    rep.require(nt is not None, "PollExecutor.notify not found")
    ps, it = ctx.paths(nt, pex, depth=3, inline=std_inline)
    for p in ps:
        sets = [e for e in p.calls() if q.call_name(e) == "set" and q.recv(e) == ("attr", SELF, li.event_field)]
        rep.ob("R-WAKE-P", "notify() sets the poll event", len(sets) == 1, "", where_of(nt))
    wake.check_loops(ctx, rep, [li], components="state")
    wake.check_producers(ctx, rep, [li])
    # the poll worker counts its calls and errors inside the code that handles a raising poll function (shared with C20)
    from .c20 import labelnames_rule
    labelnames_rule(ctx, rep, "R-SINGLE", ("POLL_ERROR", "POLL_TOTAL", "POLL_TIME"))



def _is_result_of_this(ad, DF):
    """ad is <descriptor found for this future in the descriptor list>.result"""
    if not (isinstance(ad, tuple) and ad[0] == "attr" and ad[2] == "result"):
        return False
    if not (isinstance(ad[1], tuple) and ad[1][0] in ("sub", "elem", "unpack")):
        return False  # .result of the whole selection (a list), not of the descriptor in it
    for s in subterms(ad):
        if s[0] == "attr" and s[2] == DF:
            return True
    return False


def _ise(ev, interp, path):
    from .c18 import may_raise
    return [x for x in may_raise(ev, interp, path) if x == "InvalidStateError"]


def _callers_hold_lock(ctx, fi, cs):
    for ck, cik in cs:
        cfi = ctx.prog.functions[ck]
        cci = ctx.prog.classes.get(cik) if cik else None
        ps, it = ctx.paths(cfi, cci, depth=0)
        for p in ps:
            for e in p.calls():
                if e.d["callee"] is fi and e.fn is cfi:
                    r = q.recv(e)
                    if not (r is not None and any(l[1][0] == "attr" and l[1][1] == r for l in e.locks)):
                        return False
    return True
