"""C07 -- throttle: never more than count in flight, FIFO hand-over, no idle capacity.

Decided:
  R-ADMIT     every dequeue in the hand-over loop is dominated by the limit test, with None meaning unlimited
              (R-LINEAR: a job is taken only when `in-flight < limit` is known, the loop stops when
              `limit <= in-flight`), the counter is incremented in the same critical section and before the
              hand-over to the delegate
  R-COUNT     the counter is incremented only by the hand-over loop (once per dequeued job) and decremented
              only by the delegate-done callback, which is registered exactly once per hand-over (whatever its
              form: classmethod + partial, module function, closure); every read-modify-write of the counter
              holds the counter's own lock (updates run on different threads)
  R-FIFO      queue discipline: enqueue = append, dequeue = popleft, the hand-over list is appended and iterated
              forward; no other mutation than remove (cancel)
  R-NULLABLE  every ordered comparison against the limit is dominated by an `is None` test on that value
  R-LASTGOOD  a raising count callable leaves the last value in force (evaluated on the worker's and on submit's
              paths with helpers inlined)
  R-WAKE-*    promptness: producers wake the hand-over loop; blocked submitters (second waiter) -- F6
Not decided: the in-flight bound under all interleavings; dynamic-count latency.
"""
from ..core import where_of, trace_of
from ..interp import fmt, contains, subterms
from ..model import AnalysisError
from .. import q
from .. import wake
from .. import roles


def norm_cmp(t, truth):
    """(a, rel, b) known on this path with rel in '<', '<=' ; None if not an ordered comparison"""
    neg = False
    while isinstance(t, tuple) and t[0] == "not":
        neg = not neg
        t = t[1]
    if not (isinstance(t, tuple) and t[0] == "cmp" and t[1] in ("<", "<=", ">", ">=")):
        return None
    op, a, b = t[1], t[2], t[3]
    val = truth != neg
    if op == "<":
        return (a, "<", b) if val else (b, "<=", a)
    if op == "<=":
        return (a, "<=", b) if val else (b, "<", a)
    if op == ">":
        return (b, "<", a) if val else (a, "<=", b)
    return (b, "<=", a) if val else (a, "<", b)


def none_test(t):
    """term t is `X is None` (possibly negated): returns X"""
    while isinstance(t, tuple) and t[0] == "not":
        t = t[1]
    if isinstance(t, tuple) and t[0] == "cmp" and t[1] == "is" and t[3] == ("const", None):
        return t[2]
    if isinstance(t, tuple) and t[0] == "cmp" and t[1] == "is" and t[2] == ("const", None):
        return t[3]
    return None


def check(ctx, rep):
    prog = ctx.prog
    rep.rule("R-ADMIT", "a job is dequeued for hand-over only on a path where the limit is None or `in-flight counter < limit` is established, and the loop stops exactly when `limit <= in-flight counter`; the counter is incremented under the same lock as the dequeue and before the delegate submit")
    rep.rule("R-COUNT", "the in-flight counter is incremented only in the hand-over loop, once per dequeued job, and decremented only by the delegate-done callback; exactly one such callback is registered per hand-over, on the future returned by that hand-over's delegate submit")
    rep.rule("R-FIFO", "the queue is appended on submit and popped from the left by the hand-over loop; the batch list is filled and iterated in the same order")
    rep.rule("R-NULLABLE", "an ordered comparison against the limit value is dominated by a test of that value against None (None means unlimited)")
    rep.rule("R-LASTGOOD", "_eval_throttle stores the count callable's value only when it returned, and returns the stored value on both paths")
    rep.rule("R-WAKE-P", "enabling mutations (enqueue, counter decrement) are followed by set() of the hand-over loop's event")
    rep.rule("R-WAKE-L", "the hand-over loop re-scans between clear() and the next wait()")
    rep.rule("R-WAKE-2", "the hand-over loop is the only waiter on its auto-reset event")
    rep.rule("R-WAKE-Q", "blocked submitters wait for the queue to shrink: every dequeue/removal is followed by a set() that reaches them")

    tex = prog.cls("ThrottleExecutor")
    loops = [li for li in wake.discover(ctx) if li.owner is tex]
    rep.require(len(loops) == 1, "ThrottleExecutor worker loop not found")
    li = loops[0]
    rep.require(len(li.counters) == 1 and len(li.scanned) >= 1, "throttle loop: expected one in-flight counter and a queue, found %s / %s" % (sorted(li.counters), sorted(li.scanned)))
    cfield, csub = sorted(li.counters)[0]
    X = li.exec_term
    counter = ("attr", ("attr", X, cfield), csub)
    it = li.it
    queue_fields = sorted(li.scanned)

    # ------------------------------------------------------------------ admission
    npop = nstop = 0
    for p in li.paths:
        pops = [e for e in p.calls() if q.call_name(e) in ("popleft", "pop") and isinstance(q.recv(e), tuple) and q.recv(e)[0] == "attr" and q.recv(e)[1] == X and q.recv(e)[2] in queue_fields]
        facts = []
        limit_terms = set()
        for e in p.evs("branch"):
            n = norm_cmp(e.d[0], e.d[1])
            if n and (n[0] == counter or n[2] == counter):
                facts.append((n, e))
                limit_terms.add(n[2] if n[0] == counter else n[0])
        for e in pops:
            npop += 1
            key = "%s: dequeue is admitted by the limit test" % li.target.qualname
            before = [(n, b) for n, b in facts if b.seq < e.seq]
            none_known = [b for b in p.evs("branch") if b.seq < e.seq and none_test(b.d[0]) is not None]
            unlimited = any((b.d[1] is True) != _negated(b.d[0]) for b in none_known)
            strict = [n for n, b in before if n[0] == counter and n[1] == "<"]
            ok = unlimited or bool(strict)
            detail = "popleft reached with %s" % ("no comparison of the in-flight counter against the limit" if not before else "only `%s %s %s` established (needs in-flight < limit)" % (fmt(before[-1][0][0]), before[-1][0][1], fmt(before[-1][0][2])))
            rep.ob("R-ADMIT", key, ok, detail, where_of(e.fn, e.node), trace_of(p, e.seq))
            # counter incremented under the same lock, before hand-over
            incs = [s for s in p.evs("store") if s.d["target"] == counter and s.d.get("aug") == "+" and s.seq > e.seq]
            subs = [c for c in p.calls() if q.call_name(c) == "submit" and isinstance(q.recv(c), tuple) and q.recv(c)[0] == "attr" and q.recv(c)[2] == "_delegate" and c.seq > e.seq]
            qlocks = [l[1] for l in e.locks if l[1][0] == "attr" and l[1][1] == X]
            ok2 = len(incs) == 1 and bool(qlocks) and all(any(l[1] == ql for l in incs[0].locks) for ql in qlocks) and (not subs or incs[0].seq < subs[0].seq)
            rep.ob("R-ADMIT", "%s: counter incremented with the dequeue, before the hand-over" % li.target.qualname, ok2,
                   "after popleft: %d increments of the in-flight counter; queue lock held at dequeue: %s; increment %s" % (len(incs), [fmt(x) for x in qlocks], "after the delegate submit" if (incs and subs and incs[0].seq > subs[0].seq) else "not under that lock" if incs else "missing"), where_of(e.fn, e.node), trace_of(p))
            rep.ob("R-FIFO", "%s: dequeue takes the oldest entry" % li.target.qualname, q.call_name(e) == "popleft" and not e.d["args"], "dequeue uses %s(%s)" % (q.call_name(e), ", ".join(fmt(a) for a in e.d["args"])), where_of(e.fn, e.node))
            rep.ob("R-ADMIT", "%s: dequeue under the queue's lock" % li.target.qualname, bool(qlocks), "popleft without an executor lock held", where_of(e.fn, e.node))
        # stop paths: a comparison established limit <= counter => no dequeue afterwards in this iteration
        for n, b in facts:
            if n[2] == counter and n[1] == "<=":
                nstop += 1
                later = [e for e in pops if e.seq > b.seq]
                rep.ob("R-ADMIT", "%s: loop stops when limit <= in-flight" % li.target.qualname, not later, "a job is dequeued after `limit <= in-flight` was established", where_of(b.fn, b.node), trace_of(p))
                # ... and the drain loop is left: going round again with nothing changed spins for ever, with the
                # queue's lock held
                encl = [l for l in p.evs("loop") if l.seq < b.seq and l.fn is b.fn and l.d[0] in ("enter", "back")]
                if encl:
                    nxt = [l for l in p.evs("loop") if l.seq > b.seq and l.node is encl[-1].node]
                    rep.ob("R-ADMIT", "%s: the drain loop is left when the limit is reached" % li.target.qualname, bool(nxt) and nxt[0].d[0] == "exit", "after `limit <= in-flight` the loop over the queue goes round again instead of ending: nothing has changed, so it spins for ever while holding the queue's lock (submitters and cancels block)", where_of(b.fn, b.node), trace_of(p, b.seq))
            if n[2] == counter and n[1] == "<":
                # limit < counter established only as the stop condition: then equality would be admitted
                later = [e for e in pops if e.seq > b.seq]
                rep.ob("R-ADMIT", "%s: stop condition includes equality" % li.target.qualname, bool(later) and False, "the loop stops only when `limit < in-flight` (strict): with in-flight == limit one more job is admitted", where_of(b.fn, b.node), trace_of(p))
            if n[0] == counter and n[1] == "<=":
                later = [e for e in pops if e.seq > b.seq]
                if later:
                    rep.ob("R-ADMIT", "%s: admission needs strict inequality" % li.target.qualname, False, "a job is dequeued knowing only `in-flight <= limit`", where_of(b.fn, b.node), trace_of(p))
        # limit comparisons dominated by a None test on the same value
        for n, b in facts:
            lim = n[2] if n[0] == counter else n[0]
            guarded = any(none_test(x.d[0]) == lim and x.seq < b.seq and ((x.d[1] is True) == _negated(x.d[0])) for x in p.evs("branch"))
            rep.ob("R-NULLABLE", "%s: limit compared only when not None" % li.target.qualname, guarded, "ordered comparison against %s without a preceding `is None` test of it" % fmt(lim), where_of(b.fn, b.node), trace_of(p, b.seq))
    rep.require(npop >= 1, "throttle hand-over loop: no dequeue found")
    rep.require(nstop >= 1, "throttle hand-over loop: no stop condition found")

    # hand-over order: the batch is iterated in fill order
    for p in li.paths:
        for e in p.evs("loop"):
            if e.d[0] == "enter" and isinstance(e.d[1], tuple) and e.d[1][0] in ("list", "call"):
                subs_after = [c for c in p.calls() if c.seq > e.seq and c.d["callee"] is not None and c.d["callee"].name == "_do_submit"]
                if subs_after or e.d[1][0] == "call":
                    if e.d[1][0] == "call" and not any(contains(e.d[1], ("list", ())) or True for _ in [0]):
                        continue
                    if e.d[1][0] == "call" and q.term_name(e.d[1][1]) in ("reversed", "sorted"):
                        rep.ob("R-FIFO", "%s: batch handed over in dequeue order" % li.target.qualname, False, "the batch is iterated through %s()" % q.term_name(e.d[1][1]), where_of(e.fn, e.node))
                    elif e.d[1][0] == "list" and subs_after:
                        rep.ob("R-FIFO", "%s: batch handed over in dequeue order" % li.target.qualname, True, "", where_of(e.fn, e.node))

    # ---------------------------------------------------------------- queue discipline, whole class
    allowed = {"append": "enqueue", "popleft": "dequeue", "remove": "cancel"}
    nq = 0
    ats = [ctx.types.cls_of(t) for c in tex.mro() if hasattr(c, "key") for t in ctx.types.field_types.get((c.key, cfield), ()) if t.startswith("C:")]
    rep.require(len(ats) == 1 and ats[0] is not None, "throttle: class of the in-flight counter not identified")
    ai = ats[0]
    inc_sites = {}
    dec_sites = {}
    for fi in sorted(prog.functions.values(), key=lambda f: f.key):
        if fi.parent is not None:
            continue
        for ci in ctx.instances(fi):
            ps, it2 = ctx.paths(fi, ci, depth=0)
            for p in ps:
                for e in p.calls():
                    r = q.recv(e)
                    if e.fn is fi and isinstance(r, tuple) and r[0] == "attr" and r[2] in queue_fields and it2.type_of(r[1], p) == "C:" + tex.key:
                        name = q.call_name(e)
                        if name in ("append", "appendleft", "pop", "popleft", "remove", "insert", "extend", "clear", "rotate", "reverse", "extendleft"):
                            nq += 1
                            rep.ob("R-FIFO", "%s: queue operation %s" % (fi.qualname, name), name in allowed, "%s() on the throttle queue breaks the FIFO discipline (enqueue=append, dequeue=popleft)" % name, where_of(fi, e.node))
                            if name == "append":
                                rep.ob("R-FIFO", "%s: enqueue only on submit" % fi.qualname, fi.name.startswith("submit"), "append to the queue outside submit", where_of(fi, e.node))
                    c = e.d["callee"]
                    if c is not None and c.owner is ai and e.fn is fi and c.name != "__init__" and fi.owner is not ai:
                        # direction of this update: the counter method's own `value op= <operand>` with the
                        # operand bound to this call's argument
                        for sgn in _update_signs(ctx, ai, c, e, csub):
                            (inc_sites if sgn == "+" else dec_sites).setdefault(fi.qualname, e)
                for s in p.evs("store"):
                    t = s.d["target"]
                    if s.fn is fi and t[0] == "attr" and t[2] in queue_fields and it2.type_of(t[1], p) == "C:" + tex.key and fi.name != "__init__":
                        rep.ob("R-FIFO", "%s: queue rebound" % fi.qualname, False, "the queue is replaced wholesale", where_of(fi, s.node))
    rep.require(nq >= 3, "throttle queue operations not found")

    # ---------------------------------------------------------------- counter updates are atomic
    # incr and decr run on different threads (hand-over loop / delegate callbacks): each read-modify-write of the
    # counter must hold the counter's own lock, or an update is lost and the bound is exceeded from then on
    clocks = roles.lock_fields(ctx, ai)
    rep.ob("R-COUNT", "the in-flight counter has its own lock", len(clocks) == 1, "lock fields of %s: %s" % (ai.name, clocks), where_of(ai.methods["__init__"]) if "__init__" in ai.methods else ai.module.relpath)
    nrmw = 0
    for m in sorted(ai.methods.values(), key=lambda f: f.key):
        if m.name == "__init__":
            continue
        ps_, it_ = ctx.paths(m, ai, depth=0)
        for p in ps_:
            for s_ in p.evs("store"):
                t = s_.d["target"]
                if s_.d.get("aug") and t[0] == "attr" and t[2] == csub:
                    nrmw += 1
                    opnd = s_.d["value"][3] if isinstance(s_.d["value"], tuple) and s_.d["value"][0] == "bin" and len(s_.d["value"]) > 3 else None
                    unit = _unit_step(s_) or (isinstance(opnd, tuple) and opnd[0] == "param")
                    rep.ob("R-COUNT", "%s: the counter moves in steps of one" % m.qualname, unit, "`%s %s= %s`: one hand-over / one completion must change the in-flight count by exactly one" % (fmt(t), s_.d["aug"], fmt(opnd) if opnd else "?"), where_of(m, s_.node), trace_of(p, s_.seq))
                    rep.ob("R-COUNT", "%s: counter update under the counter's lock" % m.qualname, any(l[1] == ("attr", t[1], lf) for l in s_.locks for lf in clocks), "`%s %s= ...` is a read-modify-write that runs concurrently with the opposite update on another thread; without the counter's lock one of them is lost" % (fmt(t), s_.d["aug"]), where_of(m, s_.node), trace_of(p, s_.seq))
    rep.require(nrmw >= 1, "in-flight counter: increment / decrement operations not found")

    # ---------------------------------------------------------------- counter ownership
    loop_fns = set(e.fn.qualname for p in li.paths for e in p.events)
    for fn, e in sorted(inc_sites.items()):
        rep.ob("R-COUNT", "%s: increments the in-flight counter" % fn, fn in loop_fns, "the in-flight counter is incremented outside the hand-over loop", where_of(e.fn, e.node))
    rep.require(inc_sites, "no increment of the in-flight counter found")
    rep.require(dec_sites, "no decrement of the in-flight counter found")
    DELEG = roles.delegate_field(ctx, tex)
    TQ = roles.Queue(ctx, tex)
    FUTF, FNF = TQ.roles["future"], TQ.roles["fn"]
    cbfns = {}
    nho = 0
    for p in li.paths:
        if p.status == "raise":
            continue
        subs = [e for e in p.calls() if q.call_name(e) == "submit" and isinstance(q.recv(e), tuple) and q.recv(e) == ("attr", X, DELEG)]
        for e in subs:
            nho += 1
            dfut = q.result_of(e)
            regs = [r for r in p.calls() if q.call_name(r) == "add_done_callback" and q.recv(r) == dfut and r.d["args"]]
            decr = []
            for r in regs:
                F, boundargs = _callback_fn(ctx, tex, r.d["args"][0])
                if F is not None and _decrements(ctx, F, csub):
                    decr.append((r, F, boundargs))
            ok = len(decr) == 1
            rep.ob("R-COUNT", "hand-over: one decrement callback per delegate submit", ok, "%d callbacks that decrement the in-flight counter are registered on the future returned by this hand-over's delegate submit (callbacks registered on it: %d)" % (len(decr), len(regs)), where_of(e.fn, e.node), trace_of(p, e.seq))
            if ok:
                r, F, boundargs = decr[0]
                cbfns[F.key] = F
                if boundargs is not None:
                    okb = ("attr", X, cfield) in boundargs and ("attr", X, li.event_field) in boundargs
                    rep.ob("R-COUNT", "hand-over: callback bound to this executor's counter and event", okb, "partial(...) must bind the executor's own %s and %s" % (cfield, li.event_field), where_of(r.fn, r.node))
            a0 = e.d["args"][0] if e.d["args"] else None
            J = a0[1] if isinstance(a0, tuple) and a0[0] == "attr" and a0[2] == FNF else None
            link = [c for c in p.calls() if J is not None and q.recv(c) == ("attr", J, FUTF) and dfut in c.d["args"]]
            if ok and len(link) == 1:
                # stdlib futures run their callbacks in registration order: whatever is attached to the delegate
                # future before the release callback (the caller's future and, through it, the caller's own
                # callbacks) runs while the slot still counts as in flight
                first = decr[0][0].seq < link[0].seq and not any(r.seq < decr[0][0].seq for r in regs if r is not decr[0][0])
                rep.ob("R-COUNT", "hand-over: the release callback is the first one on the delegate future", first, "the delegate future is given to the job's future (or gets another callback) before the callback that decrements the in-flight counter is registered: when the delegate completes, the caller's callbacks run first and a slow or blocking one keeps the slot occupied although the callable is done, so a queued job is not handed over", where_of(link[0].fn, link[0].node), trace_of(p, link[0].seq))
            rep.ob("R-COUNT", "hand-over: the job's future mirrors this hand-over's delegate future", len(link) == 1, "the future of the job whose function was submitted must receive the future returned by that delegate submit (found %d such calls)" % len(link), where_of(e.fn, e.node), trace_of(p, e.seq))
    rep.require(nho >= 1, "throttle hand-over: delegate submit not found on the worker's paths")
    rep.require(len(cbfns) == 1, "throttle hand-over: decrement callback not identified (%s)" % sorted(cbfns))
    cbfn = list(cbfns.values())[0]
    for fn, e in sorted(dec_sites.items()):
        rep.ob("R-COUNT", "%s: decrements the in-flight counter" % fn, fn == cbfn.qualname, "the in-flight counter is decremented outside the delegate-done callback %s" % cbfn.qualname, where_of(e.fn, e.node))
    ps, it2 = ctx.paths(cbfn, tex if cbfn.owner is not None else None, depth=3)
    for p in ps:
        decs = [s_ for s_ in p.evs("store") if s_.d.get("aug") == "-" and s_.d["target"][0] == "attr" and s_.d["target"][2] == csub]
        rep.ob("R-COUNT", "%s: decrements exactly once" % cbfn.qualname, len(decs) == 1 and p.status == "return", "found %d decrements on a callback path (status %s)" % (len(decs), p.status), where_of(cbfn), trace_of(p))

    # ---------------------------------------------------------------- last good value (worker and submit)
    o, subm = tex.lookup("submit")
    sps, sit = ctx.paths(subm, tex, depth=5, inline=roles.std_inline)
    kinds = set()
    lastf = set()
    for root, paths, XT in ((li.target, li.paths, X), (subm, sps, ("param", "self"))):
        for p in paths:
            ucalls = [e for e in p.calls() if e.d.get("user") and not (root is subm and e.d["func"] == ("param", "fn"))]
            if not ucalls:
                continue
            rep.ob("R-LASTGOOD", "%s: the count callable is evaluated once per pass" % root.qualname, len(ucalls) == 1, "%d calls of the count callable on one path" % len(ucalls), where_of(root), trace_of(p))
            u = ucalls[0]
            res = q.result_of(u)
            stores = [e for e in p.evs("store") if e.d["target"][0] == "attr" and e.d["target"][1] == XT and e.seq > u.seq and (e.d["value"] == res or e.d["target"][2] in lastf)]
            raised = any(isinstance(r.d, tuple) and len(r.d) > 2 and isinstance(r.d[2], tuple) and r.d[2][0] == "from" and r.seq > u.seq and r.node is u.node for r in p.evs("raise")) or (p.status == "raise" and not p.evs("catch"))
            caught = [c for c in p.evs("catch") if c.seq > u.seq]
            lims = _limits(p, counter, XT, queue_fields)
            if raised:
                kinds.add("raised")
                rep.ob("R-LASTGOOD", "%s: an exception from the count callable is contained" % root.qualname, bool(caught) and p.status != "raise" or (p.status == "raise" and bool(caught)), "the count callable's exception escapes (status %s)" % p.status, where_of(u.fn, u.node), trace_of(p, u.seq))
                if caught:
                    rep.ob("R-LASTGOOD", "%s: the handler around the count callable catches Exception" % root.qualname, caught[0].d["names"] in (["Exception"], None), "handler catches %s" % caught[0].d["names"], where_of(caught[0].fn, caught[0].node))
                ok = not stores and all(isinstance(l, tuple) and l[0] == "attr" and l[1] == XT for l in lims)
                rep.ob("R-LASTGOOD", "%s: a raising count callable keeps the last value" % root.qualname, ok, "on the failure path the stored limit must be left alone and used (stores %s, limit used %s)" % ([fmt(s_.d["target"]) for s_ in stores], [fmt(l) for l in lims]), where_of(u.fn, u.node), trace_of(p, u.seq))
                for l in lims:
                    if isinstance(l, tuple) and l[0] == "attr":
                        lastf.add(l[2])
            else:
                kinds.add("returned")
                ok = len(stores) == 1 and stores[0].d["value"] == res and all(l == res for l in lims)
                if len(stores) == 1:
                    lastf.add(stores[0].d["target"][2])
                rep.ob("R-LASTGOOD", "%s: a returned value becomes the limit" % root.qualname, ok, "the callable's value must be stored (stores: %d) and used as the limit (used: %s)" % (len(stores), [fmt(l) for l in lims]), where_of(u.fn, u.node), trace_of(p, u.seq))
    rep.ob("R-LASTGOOD", "the count callable is evaluated on the worker's and on submit's paths, with its exception contained", kinds == {"raised", "returned"}, "paths found: %s (the limit must come from a fresh evaluation of the count callable, whose failure is contained)" % sorted(kinds), where_of(subm))
    rep.ob("R-LASTGOOD", "one field keeps the last good limit", len(lastf) == 1, "fields: %s" % sorted(lastf), where_of(subm))

    # ---------------------------------------------------------------- blocking mode: nullable limit
    nb = 0
    QLEN = ("call", ("name", "len"), (("attr", ("param", "self"), queue_fields[0]),), (), None)
    for p in sps:
        ucalls = [e for e in p.calls() if e.d.get("user") and e.d["func"] != ("param", "fn")]
        waits = [e for e in p.calls() if q.call_name(e) == "wait"]
        for b in p.evs("branch"):
            n = norm_cmp(b.d[0], b.d[1])
            if not n or QLEN not in (n[0], n[2]):
                continue
            lim = n[2] if n[0] == QLEN else n[0]
            nb += 1
            guarded = any(none_test(x.d[0]) == lim and x.seq < b.seq and ((x.d[1] is True) == _negated(x.d[0])) for x in p.evs("branch"))
            rep.ob("R-NULLABLE", "blocking submit: limit compared only when not None", guarded, "`%s` is evaluated although the limit may be None (None means unlimited)" % fmt(b.d[0]), where_of(b.fn, b.node), trace_of(p, b.seq))
        apps = [e for e in p.calls() if q.call_name(e) == "append" and q.recv(e) == ("attr", ("param", "self"), queue_fields[0])]
        blocked = [t for t, v, b in q.atoms(p) if v is True and q.self_field(t) and t[2] in roles.ctor_param_fields(ctx, tex, "block")]
        if apps and blocked and not waits and p.status == "return":
            facts = [norm_cmp(b.d[0], b.d[1]) for b in p.evs("branch") if b.seq < apps[0].seq]
            unlimited = any(none_test(b.d[0]) is not None and ((b.d[1] is True) != _negated(b.d[0])) for b in p.evs("branch") if b.seq < apps[0].seq)
            strict = [n for n in facts if n and n[0] == QLEN and n[1] == "<"]
            rep.ob("R-ADMIT", "blocking submit: enqueues only when queue length < limit", unlimited or bool(strict), "in blocking mode the job is enqueued without `len(queue) < limit` being established (facts: %s)" % [("%s %s %s" % (fmt(n[0]), n[1], fmt(n[2]))) for n in facts if n], where_of(apps[0].fn, apps[0].node), trace_of(p, apps[0].seq))
    rep.require(nb >= 1, "blocking submit: comparison of the queue length against the limit not found")

    # ---------------------------------------------------------------- wake-ups
    wake.check_loops(ctx, rep, [li], components="state")
    wake.check_producers(ctx, rep, [li])
    wake.second_waiters(ctx, rep, [li])
    wake.check_producers(ctx, rep, [li], minus_for="blocked submitters", rule="R-WAKE-Q")


def _callback_fn(ctx, cls, v):
    """(function, bound positional args or None) of a callback value: partial(f, ...), self.method, module function, closure"""
    boundargs = None
    if isinstance(v, tuple) and v and v[0] == "partial":
        boundargs = tuple(v[2]) + tuple(x for k, x in v[3])
        v = v[1]
    if isinstance(v, tuple) and v and v[0] == "attr":
        o, m = cls.lookup(v[2])
        return m, boundargs
    if isinstance(v, tuple) and v and v[0] == "func":
        return ctx.prog.functions.get(v[1]), boundargs
    f = roles.closure_fn(v)
    return f, boundargs


def _update_signs(ctx, ai, meth, call_ev, csub):
    """directions ('+' / '-') in which a call of a counter method changes the counter"""
    out = set()
    b = roles.bound(call_ev, ctx.prog)
    ownm = set(m.key for m in ai.methods.values())
    ps, it = ctx.paths(meth, ai, depth=2, inline=lambda callee, ev, path: callee.key in ownm)
    for p in ps:
        for s_ in p.evs("store"):
            t = s_.d["target"]
            if not (s_.d.get("aug") in ("+", "-") and t[0] == "attr" and t[2] == csub):
                continue
            sgn = s_.d["aug"]
            v = s_.d["value"]
            opnd = v[3] if isinstance(v, tuple) and v[0] == "bin" and len(v) > 3 else None
            if isinstance(opnd, tuple) and opnd[0] == "param":
                a = b.get(opnd[1])
                if isinstance(a, tuple) and a[0] == "const" and isinstance(a[1], (int, float)) and a[1] < 0:
                    sgn = "-" if sgn == "+" else "+"
                elif not (isinstance(a, tuple) and a[0] == "const"):
                    out.update({"+", "-"})  # unknown amount: may go either way
                    continue
            out.add(sgn)
    return out


def _decrements(ctx, F, csub):
    ps, it = ctx.paths(F, F.owner, depth=3)
    return any(s_.d.get("aug") == "-" and s_.d["target"][0] == "attr" and s_.d["target"][2] == csub for p in ps for s_ in p.evs("store"))


def _unit_step(s_):
    """is the augmented store a step of exactly one (x += 1, x -= 1, x += -1)?"""
    v = s_.d["value"]
    if not (isinstance(v, tuple) and v[0] == "bin" and len(v) > 3):
        return False
    o = v[3]
    return isinstance(o, tuple) and o[0] == "const" and o[1] in (1, -1)


def _limits(p, counter, XT, queue_fields):
    """limit terms this path compares the in-flight counter / the queue length against"""
    out = []
    qlens = [("call", ("name", "len"), (("attr", XT, f),), (), None) for f in queue_fields]
    for b in p.evs("branch"):
        n = norm_cmp(b.d[0], b.d[1])
        if not n:
            continue
        for x, y in ((n[0], n[2]), (n[2], n[0])):
            if (x == counter or x in qlens) and y not in out:
                out.append(y)
    return out


def _negated(t):
    neg = False
    while isinstance(t, tuple) and t[0] == "not":
        neg = not neg
        t = t[1]
    return neg
