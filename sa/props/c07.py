"""C07 -- throttle: never more than count in flight, FIFO hand-over, no idle capacity.

Decided:
  R-ADMIT     every dequeue in the hand-over loop is dominated by the limit test, with None meaning unlimited
              (R-LINEAR: a job is taken only when `in-flight < limit` is known, the loop stops when
              `limit <= in-flight`), the counter is incremented in the same critical section and before the
              hand-over to the delegate
  R-COUNT     the counter is incremented only by the hand-over loop (once per dequeued job) and decremented
              only by the delegate-done callback, which is registered exactly once per hand-over
  R-FIFO      queue discipline: enqueue = append, dequeue = popleft, the hand-over list is appended and iterated
              forward; no other mutation than remove (cancel)
  R-NULLABLE  every ordered comparison against the limit is dominated by an `is None` test on that value
  R-LASTGOOD  a raising count callable leaves the last value in force
  R-WAKE-*    promptness: producers wake the hand-over loop; blocked submitters (second waiter) -- F6
Not decided: the in-flight bound under all interleavings; dynamic-count latency.
"""
from ..core import where_of, trace_of
from ..interp import fmt, contains, subterms
from ..model import AnalysisError
from .. import q
from .. import wake


def norm_cmp(t, truth):
    """(a, rel, b) known on this path with rel in '<', '<=' ; None if not an ordered comparison"""
    neg = False
    while isinstance(t, tuple) and t[0] == "not":
        neg = not neg
        t = t[1]
    if not (isinstance(t, tuple) and t[0] == "cmp" and t[1] in ("<", "<=", ">", ">=")):
        return None
    op, a, b = t[1], t[2], t[3]
    val = truth != neg
    if op == "<":
        return (a, "<", b) if val else (b, "<=", a)
    if op == "<=":
        return (a, "<=", b) if val else (b, "<", a)
    if op == ">":
        return (b, "<", a) if val else (a, "<=", b)
    return (b, "<=", a) if val else (a, "<", b)


def none_test(t):
    """term t is `X is None` (possibly negated): returns X"""
    while isinstance(t, tuple) and t[0] == "not":
        t = t[1]
    if isinstance(t, tuple) and t[0] == "cmp" and t[1] == "is" and t[3] == ("const", None):
        return t[2]
    if isinstance(t, tuple) and t[0] == "cmp" and t[1] == "is" and t[2] == ("const", None):
        return t[3]
    return None


def check(ctx, rep):
    prog = ctx.prog
    rep.rule("R-ADMIT", "a job is dequeued for hand-over only on a path where the limit is None or `in-flight counter < limit` is established, and the loop stops exactly when `limit <= in-flight counter`; the counter is incremented under the same lock as the dequeue and before the delegate submit")
    rep.rule("R-COUNT", "the in-flight counter is incremented only in the hand-over loop, once per dequeued job, and decremented only by the delegate-done callback; exactly one such callback is registered per hand-over, on the future returned by that hand-over's delegate submit")
    rep.rule("R-FIFO", "the queue is appended on submit and popped from the left by the hand-over loop; the batch list is filled and iterated in the same order")
    rep.rule("R-NULLABLE", "an ordered comparison against the limit value is dominated by a test of that value against None (None means unlimited)")
    rep.rule("R-LASTGOOD", "_eval_throttle stores the count callable's value only when it returned, and returns the stored value on both paths")
    rep.rule("R-WAKE-P", "enabling mutations (enqueue, counter decrement) are followed by set() of the hand-over loop's event")
    rep.rule("R-WAKE-L", "the hand-over loop re-scans between clear() and the next wait()")
    rep.rule("R-WAKE-2", "the hand-over loop is the only waiter on its auto-reset event")
    rep.rule("R-WAKE-Q", "blocked submitters wait for the queue to shrink: every dequeue/removal is followed by a set() that reaches them")

    tex = prog.cls("ThrottleExecutor")
    loops = [li for li in wake.discover(ctx) if li.owner is tex]
    rep.require(len(loops) == 1, "ThrottleExecutor worker loop not found")
    li = loops[0]
    rep.require(len(li.counters) == 1 and len(li.scanned) >= 1, "throttle loop: expected one in-flight counter and a queue, found %s / %s" % (sorted(li.counters), sorted(li.scanned)))
    cfield, csub = sorted(li.counters)[0]
    X = li.exec_term
    counter = ("attr", ("attr", X, cfield), csub)
    it = li.it
    queue_fields = sorted(li.scanned)

    # ------------------------------------------------------------------ admission
    npop = nstop = 0
    for p in li.paths:
        pops = [e for e in p.calls() if q.call_name(e) in ("popleft", "pop") and isinstance(q.recv(e), tuple) and q.recv(e)[0] == "attr" and q.recv(e)[1] == X and q.recv(e)[2] in queue_fields]
        facts = []
        limit_terms = set()
        for e in p.evs("branch"):
            n = norm_cmp(e.d[0], e.d[1])
            if n and (n[0] == counter or n[2] == counter):
                facts.append((n, e))
                limit_terms.add(n[2] if n[0] == counter else n[0])
        for e in pops:
            npop += 1
            key = "%s: dequeue is admitted by the limit test" % li.target.qualname
            before = [(n, b) for n, b in facts if b.seq < e.seq]
            none_known = [b for b in p.evs("branch") if b.seq < e.seq and none_test(b.d[0]) is not None]
            unlimited = any((b.d[1] is True) != _negated(b.d[0]) for b in none_known)
            strict = [n for n, b in before if n[0] == counter and n[1] == "<"]
            ok = unlimited or bool(strict)
            detail = "popleft reached with %s" % ("no comparison of the in-flight counter against the limit" if not before else "only `%s %s %s` established (needs in-flight < limit)" % (fmt(before[-1][0][0]), before[-1][0][1], fmt(before[-1][0][2])))
            rep.ob("R-ADMIT", key, ok, detail, where_of(e.fn, e.node), trace_of(p, e.seq))
            # counter incremented under the same lock, before hand-over
            incs = [s for s in p.evs("store") if s.d["target"] == counter and s.d.get("aug") == "+" and s.seq > e.seq]
            subs = [c for c in p.calls() if q.call_name(c) == "submit" and isinstance(q.recv(c), tuple) and q.recv(c)[0] == "attr" and q.recv(c)[2] == "_delegate" and c.seq > e.seq]
            qlocks = [l[1] for l in e.locks if l[1][0] == "attr" and l[1][1] == X]
            ok2 = len(incs) == 1 and bool(qlocks) and all(any(l[1] == ql for l in incs[0].locks) for ql in qlocks) and (not subs or incs[0].seq < subs[0].seq)
            rep.ob("R-ADMIT", "%s: counter incremented with the dequeue, before the hand-over" % li.target.qualname, ok2,
                   "after popleft: %d increments of the in-flight counter; queue lock held at dequeue: %s; increment %s" % (len(incs), [fmt(x) for x in qlocks], "after the delegate submit" if (incs and subs and incs[0].seq > subs[0].seq) else "not under that lock" if incs else "missing"), where_of(e.fn, e.node), trace_of(p))
            rep.ob("R-FIFO", "%s: dequeue takes the oldest entry" % li.target.qualname, q.call_name(e) == "popleft" and not e.d["args"], "dequeue uses %s(%s)" % (q.call_name(e), ", ".join(fmt(a) for a in e.d["args"])), where_of(e.fn, e.node))
            rep.ob("R-ADMIT", "%s: dequeue under the queue's lock" % li.target.qualname, bool(qlocks), "popleft without an executor lock held", where_of(e.fn, e.node))
        # stop paths: a comparison established limit <= counter => no dequeue afterwards in this iteration
        for n, b in facts:
            if n[2] == counter and n[1] == "<=":
                nstop += 1
                later = [e for e in pops if e.seq > b.seq]
                rep.ob("R-ADMIT", "%s: loop stops when limit <= in-flight" % li.target.qualname, not later, "a job is dequeued after `limit <= in-flight` was established", where_of(b.fn, b.node), trace_of(p))
            if n[2] == counter and n[1] == "<":
                # limit < counter established only as the stop condition: then equality would be admitted
                later = [e for e in pops if e.seq > b.seq]
                rep.ob("R-ADMIT", "%s: stop condition includes equality" % li.target.qualname, bool(later) and False, "the loop stops only when `limit < in-flight` (strict): with in-flight == limit one more job is admitted", where_of(b.fn, b.node), trace_of(p))
            if n[0] == counter and n[1] == "<=":
                later = [e for e in pops if e.seq > b.seq]
                if later:
                    rep.ob("R-ADMIT", "%s: admission needs strict inequality" % li.target.qualname, False, "a job is dequeued knowing only `in-flight <= limit`", where_of(b.fn, b.node), trace_of(p))
        # limit comparisons dominated by a None test on the same value
        for n, b in facts:
            lim = n[2] if n[0] == counter else n[0]
            guarded = any(none_test(x.d[0]) == lim and x.seq < b.seq and ((x.d[1] is True) == _negated(x.d[0])) for x in p.evs("branch"))
            rep.ob("R-NULLABLE", "%s: limit compared only when not None" % li.target.qualname, guarded, "ordered comparison against %s without a preceding `is None` test of it" % fmt(lim), where_of(b.fn, b.node), trace_of(p, b.seq))
    rep.require(npop >= 1, "throttle hand-over loop: no dequeue found")
    rep.require(nstop >= 1, "throttle hand-over loop: no stop condition found")

    # hand-over order: the batch is iterated in fill order
    for p in li.paths:
        for e in p.evs("loop"):
            if e.d[0] == "enter" and isinstance(e.d[1], tuple) and e.d[1][0] in ("list", "call"):
                subs_after = [c for c in p.calls() if c.seq > e.seq and c.d["callee"] is not None and c.d["callee"].name == "_do_submit"]
                if subs_after or e.d[1][0] == "call":
                    if e.d[1][0] == "call" and not any(contains(e.d[1], ("list", ())) or True for _ in [0]):
                        continue
                    if e.d[1][0] == "call" and q.term_name(e.d[1][1]) in ("reversed", "sorted"):
                        rep.ob("R-FIFO", "%s: batch handed over in dequeue order" % li.target.qualname, False, "the batch is iterated through %s()" % q.term_name(e.d[1][1]), where_of(e.fn, e.node))
                    elif e.d[1][0] == "list" and subs_after:
                        rep.ob("R-FIFO", "%s: batch handed over in dequeue order" % li.target.qualname, True, "", where_of(e.fn, e.node))

    # ---------------------------------------------------------------- queue discipline, whole class
    allowed = {"append": "enqueue", "popleft": "dequeue", "remove": "cancel"}
    nq = 0
    ai = prog.cls("AtomicInt")
    inc_sites = {}
    dec_sites = {}
    for fi in sorted(prog.functions.values(), key=lambda f: f.key):
        if fi.parent is not None:
            continue
        for ci in ctx.instances(fi):
            ps, it2 = ctx.paths(fi, ci, depth=0)
            for p in ps:
                for e in p.calls():
                    r = q.recv(e)
                    if e.fn is fi and isinstance(r, tuple) and r[0] == "attr" and r[2] in queue_fields and it2.type_of(r[1], p) == "C:" + tex.key:
                        name = q.call_name(e)
                        if name in ("append", "appendleft", "pop", "popleft", "remove", "insert", "extend", "clear", "rotate", "reverse", "extendleft"):
                            nq += 1
                            rep.ob("R-FIFO", "%s: queue operation %s" % (fi.qualname, name), name in allowed, "%s() on the throttle queue breaks the FIFO discipline (enqueue=append, dequeue=popleft)" % name, where_of(fi, e.node))
                            if name == "append":
                                rep.ob("R-FIFO", "%s: enqueue only on submit" % fi.qualname, fi.name.startswith("submit"), "append to the queue outside submit", where_of(fi, e.node))
                    c = e.d["callee"]
                    if c is not None and c.owner is ai and e.fn is fi:
                        rt = it2.type_of(r, p)
                        (inc_sites if c.name == "incr" else dec_sites if c.name == "decr" else {}).setdefault(fi.qualname, e)
                for s in p.evs("store"):
                    t = s.d["target"]
                    if s.fn is fi and t[0] == "attr" and t[2] in queue_fields and it2.type_of(t[1], p) == "C:" + tex.key and fi.name != "__init__":
                        rep.ob("R-FIFO", "%s: queue rebound" % fi.qualname, False, "the queue is replaced wholesale", where_of(fi, s.node))
    rep.require(nq >= 3, "throttle queue operations not found")

    # ---------------------------------------------------------------- counter ownership
    loop_fns = set(e.fn.qualname for p in li.paths for e in p.events)
    for fn, e in sorted(inc_sites.items()):
        rep.ob("R-COUNT", "%s: increments the in-flight counter" % fn, fn in loop_fns, "the in-flight counter is incremented outside the hand-over loop", where_of(e.fn, e.node))
    rep.require(inc_sites, "no increment of the in-flight counter found")
    rep.require(dec_sites, "no decrement of the in-flight counter found")
    ds = prog.fn("ThrottleExecutor._do_submit")
    ps, it2 = ctx.paths(ds, tex, depth=0)
    cbfn = None
    for p in ps:
        if p.status == "raise":
            continue
        subs = [e for e in p.calls() if q.call_name(e) == "submit" and q.recv(e) == ("attr", ("param", "self"), "_delegate")]
        regs = [e for e in p.calls() if q.call_name(e) == "add_done_callback"]
        ok = len(subs) == 1 and len(regs) == 1
        detail = "%d delegate submits, %d callback registrations on a hand-over path" % (len(subs), len(regs))
        if ok:
            dfut = ("call", subs[0].d["func"], subs[0].d["args"], subs[0].d["kwargs"], subs[0].d.get("site"))
            r = q.recv(regs[0])
            ok = isinstance(r, tuple) and r[0] == "call" and r[1] == subs[0].d["func"]
            detail = "the callback is registered on %s, not on the future returned by this hand-over's delegate submit" % fmt(r)
            a = regs[0].d["args"][0] if regs[0].d["args"] else None
            if ok and isinstance(a, tuple) and a[0] == "partial" and isinstance(a[1], tuple) and a[1][0] == "attr":
                o, cbfn = tex.lookup(a[1][2])
                bound = a[2]
                okb = ("attr", ("param", "self"), cfield) in bound and ("attr", ("param", "self"), li.event_field) in bound
                rep.ob("R-COUNT", "_do_submit: callback bound to this executor's counter and event", okb, "partial(...) must bind self.%s and self.%s" % (cfield, li.event_field), where_of(ds, regs[0].node))
            sd = [e for e in p.calls() if q.call_name(e) == "_set_delegate"]
            okd = len(sd) == 1 and sd[0].d["args"][:1] == (r,) and isinstance(q.recv(sd[0]), tuple) and q.recv(sd[0]) == ("attr", ("param", "job"), "future")
            rep.ob("R-COUNT", "_do_submit: the job's future mirrors this hand-over's delegate future", okd, "job.future._set_delegate(...) must receive the future returned by the delegate submit", where_of(ds))
        rep.ob("R-COUNT", "_do_submit: one decrement callback per hand-over", ok, detail, where_of(ds), trace_of(p))
    rep.require(cbfn is not None, "_do_submit: decrement callback not identified")
    for fn, e in sorted(dec_sites.items()):
        rep.ob("R-COUNT", "%s: decrements the in-flight counter" % fn, fn == cbfn.qualname, "the in-flight counter is decremented outside the delegate-done callback %s" % cbfn.qualname, where_of(e.fn, e.node))
    ps, it2 = ctx.paths(cbfn, tex, depth=1)
    for p in ps:
        decs = [s for s in p.evs("store") if s.d.get("aug") == "-" and s.d["target"][0] == "attr" and s.d["target"][2] == csub]
        rep.ob("R-COUNT", "%s: decrements exactly once" % cbfn.qualname, len(decs) == 1 and p.status == "return", "found %d decrements on a callback path (status %s)" % (len(decs), p.status), where_of(cbfn), trace_of(p))

    # ---------------------------------------------------------------- last good value
    et = prog.fn("ThrottleExecutor._eval_throttle")
    ps, it2 = ctx.paths(et, tex, depth=0)
    kinds = set()
    for p in ps:
        ucalls = [e for e in p.calls() if e.d.get("user")]
        stores = [e for e in p.evs("store") if q.self_field(e.d["target"])]
        caught = p.evs("catch")
        rep.require(len(ucalls) == 1, "_eval_throttle: expected exactly one call of the count callable per path")
        res = ("call", ucalls[0].d["func"], ucalls[0].d["args"], ucalls[0].d["kwargs"], None)
        if caught or p.status == "raise":
            kinds.add("raised")
            ok = p.status == "return" and not stores and q.self_field(p.value)
            rep.ob("R-LASTGOOD", "_eval_throttle: raising count callable keeps the last value", ok, "on the failure path the stored limit must be left alone and returned (status %s, stores %s, returns %s)" % (p.status, [fmt(s.d["target"]) for s in stores], fmt(p.value) if p.value else None), where_of(et), trace_of(p))
            if caught:
                rep.ob("R-LASTGOOD", "_eval_throttle: handler catches Exception", caught[0].d["names"] in (["Exception"], None), "handler catches %s" % caught[0].d["names"], where_of(et, caught[0].node))
        else:
            kinds.add("returned")
            ok = p.status == "return" and len(stores) == 1 and stores[0].d["value"] == res and (p.value == res or p.value == stores[0].d["target"])
            rep.ob("R-LASTGOOD", "_eval_throttle: a returned value becomes the limit", ok, "the callable's value must be stored and returned", where_of(et), trace_of(p))
    rep.require(kinds == {"raised", "returned"}, "_eval_throttle: expected a raising and a returning path")

    # ---------------------------------------------------------------- blocking mode: nullable limit
    bu = prog.maybe_fn("ThrottleExecutor._block_until_ready")
    if bu is not None:
        ps, it2 = ctx.paths(bu, tex, depth=0)
        nb = 0
        for p in ps:
            for b in p.evs("branch"):
                n = norm_cmp(b.d[0], b.d[1])
                if not n:
                    continue
                for lim in (n[0], n[2]):
                    if lim == ("param", bu.params[1]):
                        nb += 1
                        guarded = any(none_test(x.d[0]) == lim and x.seq < b.seq and ((x.d[1] is True) == _negated(x.d[0])) for x in p.evs("branch"))
                        rep.ob("R-NULLABLE", "_block_until_ready: limit compared only when not None", guarded, "`%s` is evaluated although the limit may be None (None means unlimited)" % fmt(b.d[0]), where_of(bu, b.node), trace_of(p, b.seq))
        rep.require(nb >= 1, "_block_until_ready: comparison against the limit not found")
        # blocks only while the queue holds `count` entries: the non-blocking exit is `len(queue) < limit`
        for p in ps:
            if p.status != "return":
                continue
            waits = [e for e in p.calls() if q.call_name(e) == "wait"]
            for b in p.evs("branch"):
                n = norm_cmp(b.d[0], b.d[1])
                if n and n[2] == ("param", bu.params[1]) and n[1] == "<" and not waits:
                    lhs = n[0]
                    ok = isinstance(lhs, tuple) and lhs[0] == "call" and lhs[1] == ("name", "len") and lhs[2] and lhs[2][0] == ("attr", ("param", "self"), queue_fields[0])
                    rep.ob("R-ADMIT", "_block_until_ready: returns when queue length < limit", ok, "the admission test of blocking submit must compare len(queue) with the limit, found %s" % fmt(lhs), where_of(bu, b.node))

    # ---------------------------------------------------------------- wake-ups
    wake.check_loops(ctx, rep, [li], components="state")
    wake.check_producers(ctx, rep, [li])
    wake.second_waiters(ctx, rep, [li])
    wake.check_producers(ctx, rep, [li], minus_for="blocked submitters", rule="R-WAKE-Q")


def _negated(t):
    neg = False
    while isinstance(t, tuple) and t[0] == "not":
        neg = not neg
        t = t[1]
    return neg
