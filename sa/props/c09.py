"""C09 -- timeouts fire exactly once, never early, and at the deadline.

Decided:
  R-DEADLINE  deadline = (clock read inside submit_timeout) + the timeout of this call; submit() passes the
              executor's default; f_timeout passes the caller's timeout
  R-PARTITION per job, in this order: done -> dropped; overdue (deadline < now, with `now` a plain clock read)
              -> cancel list only; else -> pending list only.  The job list becomes exactly the pending part (so a
              job is attempted at most once); the cancel loop walks exactly the overdue part, one cancel() each
  R-SLEEP     the loop sleeps max(min(pending deadlines) - now, 0), or without bound when nothing is pending
  R-WAKE-P    a new job wakes the thread (so the sleep is recomputed)      [shared with C03]
Not decided: 'at the deadline rather than later' as a statement about real time / scheduling latency.
"""
from ..core import where_of, trace_of
from ..interp import fmt, contains, subterms
from ..model import AnalysisError
from .. import q
from .. import wake
from .c07 import norm_cmp


def is_clock(t):
    return isinstance(t, tuple) and t[0] == "call" and q.term_name(t[1]) == "monotonic" and not t[2]


def check(ctx, rep):
    prog = ctx.prog
    rep.rule("R-DEADLINE", "Job.deadline = monotonic() + timeout where the clock is read in submit_timeout and timeout is that call's parameter; the job links the returned future and this submission's delegate future")
    rep.rule("R-PARTITION", "_partition_jobs: done jobs are dropped first; a job is overdue only when `deadline < now` (or <=) was established against an unmodified clock reading; overdue and pending are exclusive; _jobs := pending; exactly one cancel() per overdue job")
    rep.rule("R-SLEEP", "wait time = max(min(deadline of every pending job) - monotonic(), 0), None when no job is pending")
    rep.rule("R-WAKE-P", "appending a job is followed by set() of the timeout thread's event")
    tex = prog.cls("TimeoutExecutor")
    SELF = ("param", "self")
    st = tex.methods.get("submit_timeout")
    rep.require(st is not None, "TimeoutExecutor.submit_timeout not found")
    Job = prog.cls("Job")
    ps, it = ctx.paths(st, tex, depth=1, inline=_none)
    T = ("param", st.params[1])
    n = 0
    for p in ps:
        if p.status != "return":
            continue
        mk = [e for e in p.calls() if e.d["func"] == ("class", Job.key)]
        rep.require(len(mk) == 1, "submit_timeout: expected one Job(...) per path")
        n += 1
        a = list(mk[0].d["args"]) + [None] * 3
        kw = dict((k, v) for k, v in mk[0].d["kwargs"] if k)
        fields = dict(zip(Job.record_fields, a))
        fields.update(kw)
        dl = fields.get("deadline")
        ok = isinstance(dl, tuple) and dl[0] == "bin" and dl[1] == "+" and ((is_clock(dl[2]) and dl[3] == T) or (is_clock(dl[3]) and dl[2] == T))
        rep.ob("R-DEADLINE", "submit_timeout: deadline = now + this call's timeout", ok, "deadline = %s" % (fmt(dl) if dl else None), where_of(st, mk[0].node), trace_of(p))
        subs = [e for e in p.calls() if q.call_name(e) == "submit" and q.recv(e) == ("attr", SELF, "_delegate")]
        ok = len(subs) == 1 and isinstance(fields.get("delegate_future"), tuple) and fields["delegate_future"][:2] == ("call", subs[0].d["func"]) and fields.get("future") == p.value
        rep.ob("R-DEADLINE", "submit_timeout: the job links the returned future with this submission's delegate future", ok, "Job(future=%s, delegate_future=%s), returns %s" % (fmt(fields.get("future")) if fields.get("future") else None, fmt(fields.get("delegate_future")) if fields.get("delegate_future") else None, fmt(p.value)), where_of(st, mk[0].node))
        apps = [e for e in p.calls() if q.call_name(e) == "append" and q.recv(e) == ("attr", SELF, "_jobs")]
        newjob = [k for k, t in p.types.items() if t == "C:" + Job.key]
        ok = len(apps) == 1 and apps[0].d["args"][0] in newjob and q.has_lock(apps[0], ("attr", SELF, "_jobs_lock"))
        rep.ob("R-DEADLINE", "submit_timeout: the job is appended under the job lock", ok, "", where_of(st))
    rep.require(n >= 1, "submit_timeout: no normal path")
    sm = tex.methods.get("submit")
    ps, it = ctx.paths(sm, tex, depth=0)
    for p in ps:
        c = [e for e in p.calls() if e.d["callee"] is st]
        ok = len(c) == 1 and c[0].d["args"] == (("attr", SELF, "_timeout"), ("star", ("seq", (), ("param", sm.vararg), 0))) and tuple(c[0].d["kwargs"]) == ((None, ("kw", (), ("param", sm.kwarg))),)
        rep.ob("R-DEADLINE", "submit uses the executor's default timeout and forwards the call", ok and p.value[:2] == ("call", c[0].d["func"]) if c else False, "", where_of(sm))
    init = tex.methods.get("__init__")
    ps, it = ctx.paths(init, tex, depth=0)
    for p in ps:
        v = p.heap.get(("attr", SELF, "_timeout"))
        rep.ob("R-DEADLINE", "the default timeout is the constructor's timeout", v == ("param", "timeout"), "_timeout = %s" % (fmt(v) if v else None), where_of(init))

    # ---- partition
    pj = tex.methods.get("_partition_jobs")
    ps, it = ctx.paths(pj, tex, depth=0)
    cases = set()
    lists = {}
    for p in ps:
        if p.status != "return":
            continue
        v = p.value
        rep.require(isinstance(v, tuple) and v[0] == "tuple" and len(v[1]) == 2, "_partition_jobs: expected a pair to be returned")
        ret_a, ret_b = v[1]
        job = None
        for e in p.evs("loop"):
            if e.d[0] == "enter":
                rep.ob("R-PARTITION", "_partition_jobs walks the executor's job list", e.d[1] == ("attr", SELF, "_jobs"), "iterates %s" % fmt(e.d[1]), where_of(pj, e.node))
        for b in p.evs("branch"):
            t = b.d[0]
            for s in subterms(t):
                if s[0] == "elem":
                    job = s
        if job is None:
            continue
        done = None
        over = None
        for b in p.evs("branch"):
            t, val = b.d
            if isinstance(t, tuple) and t[0] == "call" and t[1] == ("attr", ("attr", job, "future"), "done"):
                done = (val, b)
            nc = norm_cmp(t, val)
            if nc and (contains(nc[0], ("attr", job, "deadline")) or contains(nc[2], ("attr", job, "deadline"))):
                over = (nc, b)
        in_a = job in (ret_a[1] if ret_a[0] == "list" else ())
        in_b = job in (ret_b[1] if ret_b[0] == "list" else ())
        rep.ob("R-PARTITION", "a job lands in at most one list", not (in_a and in_b), "the same job is pending and overdue", where_of(pj), trace_of(p))
        if done is not None and done[0]:
            cases.add("done")
            rep.ob("R-PARTITION", "a finished job is dropped", not in_a and not in_b, "a job whose future is done is kept in a list", where_of(pj), trace_of(p))
            continue
        rep.require(over is not None, "_partition_jobs: comparison of the deadline with the clock not found")
        nc, b = over
        DL = ("attr", job, "deadline")
        plain = (nc[0] == DL and is_clock(nc[2])) or (nc[2] == DL and is_clock(nc[0]))
        rep.ob("R-PARTITION", "the deadline is compared with an unmodified clock reading", plain, "the comparison is `%s %s %s`: any offset makes the cancel early or late" % (fmt(nc[0]), nc[1], fmt(nc[2])), where_of(pj, b.node), trace_of(p))
        overdue = nc[0] == DL  # deadline < now  or deadline <= now
        if overdue:
            cases.add("overdue")
            which = "b" if in_b else "a" if in_a else None
            rep.ob("R-PARTITION", "an overdue job goes to the cancel list only", (in_a != in_b), "overdue job in %s lists" % ("both" if in_a and in_b else "no"), where_of(pj), trace_of(p))
            lists["overdue"] = which
        else:
            cases.add("pending")
            rep.ob("R-PARTITION", "a job kept as pending was found not done", done is not None and done[0] is False, "a job is kept without looking at job.future.done(): finished jobs would stay in the list until their deadline", where_of(pj), trace_of(p))
            which = "b" if in_b else "a" if in_a else None
            rep.ob("R-PARTITION", "a job before its deadline goes to the pending list only", (in_a != in_b), "pending job in %s lists" % ("both" if in_a and in_b else "no"), where_of(pj), trace_of(p))
            lists["pending"] = which
    rep.ob("R-PARTITION", "_partition_jobs: done / overdue / pending all present", cases == {"done", "overdue", "pending"}, "cases: %s" % sorted(cases), where_of(pj))
    rep.ob("R-PARTITION", "_partition_jobs: overdue and pending are different lists", lists.get("overdue") != lists.get("pending") and None not in (lists.get("overdue"), lists.get("pending")), "%s" % lists, where_of(pj))
    clocks = set()
    for p in ps:
        for e in p.calls():
            if q.call_name(e) == "monotonic":
                clocks.add(e.node.lineno)
    rep.ob("R-PARTITION", "_partition_jobs reads the clock once for all jobs", len(clocks) == 1, "clock read at %d places" % len(clocks), where_of(pj))

    # ---- loop iteration
    li = tex.methods.get("_job_loop_iter")
    ps, it = ctx.paths(li, tex, depth=1, inline=_only_partition_stub)
    X = ("param", li.params[1])
    pend_idx = 0 if lists.get("pending") == "a" else 1
    niter = 0
    for p in ps:
        pc = [e for e in p.calls() if e.d["callee"] is pj]
        if not pc:
            continue
        niter += 1
        res = ("call", pc[0].d["func"], pc[0].d["args"], pc[0].d["kwargs"], None)
        PEND = ("unpack", res, pend_idx)
        OVER = ("unpack", res, 1 - pend_idx)
        JL = ("attr", X, "_jobs_lock")
        rep.ob("R-PARTITION", "_job_loop_iter: the partition is computed under the job lock", q.has_lock(pc[0], JL), "", where_of(li, pc[0].node))
        sj = [e for e in p.evs("store") if e.d["target"] == ("attr", X, "_jobs")]
        rep.ob("R-PARTITION", "_job_loop_iter: the job list becomes exactly the pending part (same lock hold)", len(sj) == 1 and sj[0].d["value"] == PEND and q.has_lock(sj[0], JL), "_jobs := %s" % ([fmt(e.d["value"]) for e in sj]), where_of(li), trace_of(p))
        loops = [e for e in p.evs("loop") if e.d[0] == "enter" and e.fn is li]
        cancels = [e for e in p.calls() if e.d["callee"] is not None and e.d["callee"].name == "_do_cancel"]
        rep.ob("R-PARTITION", "_job_loop_iter: the cancel loop walks exactly the overdue part", any(l.d[1] == OVER for l in loops), "loops over %s" % [fmt(l.d[1]) for l in loops], where_of(li), trace_of(p))
        for c in cancels:
            a0 = c.d["args"][0]
            rep.ob("R-PARTITION", "_job_loop_iter: one cancel attempt per overdue job, outside the job lock", isinstance(a0, tuple) and a0[0] == "elem" and a0[1] == OVER and not q.has_lock(c, JL), "", where_of(li, c.node), trace_of(p, c.seq))
        # sleep
        v = p.value
        rep.require(isinstance(v, tuple) and v[0] == "tuple" and len(v[1]) == 2, "_job_loop_iter: expected (event, wait_time)")
        ev_, wt = v[1]
        rep.ob("R-SLEEP", "_job_loop_iter returns the executor's own event", ev_ == ("attr", X, "_jobs_write"), "returns %s" % fmt(ev_), where_of(li))
        has_pending = p.assume.get(PEND)
        if has_pending is False:
            rep.ob("R-SLEEP", "nothing pending -> wait without bound", wt == ("const", None), "wait time %s" % fmt(wt), where_of(li), trace_of(p))
        elif has_pending is True:
            ok = False
            if isinstance(wt, tuple) and wt[0] == "call" and wt[1] == ("name", "max") and len(wt[2]) == 2 and not wt[3]:
                args = list(wt[2])
                zero = [a for a in args if a == ("const", 0)]
                diff = [a for a in args if a != ("const", 0)]
                if len(zero) == 1 and len(diff) == 1 and diff[0][0] == "bin" and diff[0][1] == "-" and is_clock(diff[0][3]):
                    m = diff[0][2]
                    if isinstance(m, tuple) and m[0] == "call" and m[1] == ("name", "min") and len(m[2]) == 1:
                        c = m[2][0]
                        ok = isinstance(c, tuple) and c[0] == "comp" and c[3] == (PEND,) and not c[4] and len(c[2]) == 1 and c[2][0][0] == "attr" and c[2][0][2] == "deadline" and c[2][0][1][0] == "elem"
            rep.ob("R-SLEEP", "pending jobs -> wait max(min(pending deadlines) - now, 0)", ok, "wait time %s" % fmt(wt), where_of(li), trace_of(p))
    rep.require(niter >= 2, "_job_loop_iter: working iterations not found")
    dc = tex.methods.get("_do_cancel")
    ps, it = ctx.paths(dc, tex, depth=0)
    for p in ps:
        cs = [e for e in p.calls() if q.call_name(e) == "cancel"]
        rep.ob("R-PARTITION", "_do_cancel: exactly one cancel() on the job's (outer) future", len(cs) == 1 and q.recv(cs[0]) == ("attr", ("param", dc.params[1]), "future"), "cancel calls: %s" % [fmt(e.d["func"]) for e in cs], where_of(dc))

    # ---- wake-up and f_timeout
    loops = [l for l in wake.discover(ctx) if l.owner is tex]
    wake.check_producers(ctx, rep, loops)
    rep.rule("R-WAKE-L", "the timeout thread re-reads its job list between clear() of its event and the next wait(): a job submitted while it computes its sleep is not slept over")
    wake.check_loops(ctx, rep, loops, components="state")
    ft = prog.fn("futures.timeout:f_timeout")
    ps, it = ctx.paths(ft, None, depth=0)
    for p in ps:
        if p.status != "return":
            continue
        c = [e for e in p.calls() if q.call_name(e) == "submit_timeout"]
        ok = len(c) == 1 and len(c[0].d["args"]) == 2 and c[0].d["args"][0] == ("param", ft.params[1]) and c[0].d["args"][1][0] == "closure"
        if ok:
            sub = it.closures[c[0].d["args"][1][2]][0]
            ps2, _ = ctx.paths(sub, None, depth=0)
            ok = not sub.params and all(p2.status == "return" and q.term_name(p2.value) == ft.params[0] for p2 in ps2)
        rep.ob("R-DEADLINE", "f_timeout routes through submit_timeout with the caller's timeout and the caller's future", ok, "", where_of(ft))


def _none(callee, ev, path):
    return False


def _only_partition_stub(callee, ev, path):
    return False
