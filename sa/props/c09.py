"""C09 -- timeouts fire exactly once, never early, and at the deadline.

Evaluated on entry points with a stable identity (the public submit / submit_timeout, the timeout thread's
target, the public f_timeout) with all private helpers inlined; no private helper is referred to by name.

Decided:
  R-DEADLINE  deadline = (clock read inside the submit path) + the timeout of this call; submit() passes the
              executor's default; f_timeout passes the caller's timeout; the job record links the returned future
              with this submission's delegate future and is appended under the job lock
  R-PARTITION per job, on every iteration of the timeout thread: a job is put on the cancel side only when
              `deadline < now` (or <=) was established against an unmodified clock reading; cancel side and
              keep side are exclusive; finished jobs are dropped; the job list becomes exactly the keep side
              (so a job is attempted at most once); exactly one cancel() per job of the cancel side
  R-SLEEP     the thread sleeps max(min(kept deadlines) - now, 0), or without bound when nothing is kept
  R-WAKE-*    a new job wakes the thread; the thread re-reads its list between clear() and the next wait()
Not decided: 'at the deadline rather than later' as a statement about real time / scheduling latency.
"""
from ..core import where_of, trace_of
from ..interp import fmt, contains, subterms
from ..model import AnalysisError
from .. import q
from .. import wake
from ..roles import std_inline, bound, is_identity, closure_fn, container_of
from .c07 import norm_cmp

SELF = ("param", "self")
DEPTH = 6


def is_clock(t):
    return isinstance(t, tuple) and t[0] == "call" and q.term_name(t[1]) == "monotonic" and not t[2]


def check(ctx, rep):
    prog = ctx.prog
    rep.rule("R-DEADLINE", "the job record's deadline = monotonic() + timeout where the clock is read in the submit path and timeout is that call's parameter (the default for submit, the caller's for f_timeout); the record links the returned future and this submission's delegate future and is appended under the job lock")
    rep.rule("R-PARTITION", "per iteration of the timeout thread and per job: finished -> dropped; cancel side only when deadline < now (<=) against an unmodified clock reading; cancel side and keep side exclusive; job list := keep side under the job lock; one cancel() per job of the cancel side, outside the lock")
    rep.rule("R-SLEEP", "wait time = max(min(deadline of every kept job) - monotonic(), 0), None when no job is kept")
    rep.rule("R-WAKE-P", "appending a job is followed by set() of the timeout thread's event")
    rep.rule("R-WAKE-L", "the timeout thread re-reads its job list between clear() of its event and the next wait(): a job submitted while it computes its sleep is not slept over")
    tex = prog.cls("TimeoutExecutor")
    loops = [l for l in wake.discover(ctx) if l.owner is tex]
    rep.require(len(loops) == 1, "TimeoutExecutor: worker loop not found")
    li = loops[0]
    rep.require(len(li.scanned) == 1, "TimeoutExecutor: expected exactly one scanned job list, found %s" % sorted(li.scanned))
    JF = sorted(li.scanned)[0]
    # the job list is shared between submitters and the timeout thread: every walk over it is under its lock (or
    # over a copy), so that rebuilding it from a walk cannot lose a job appended meanwhile
    rep.rule("R-GUARDED", "every walk over the timeout executor's job list happens with the list's lock held or over a copy of the list; the rebuilt list is stored in the same hold of the lock as the walk it was computed from")
    from .. import roles as _roles
    nwalk = _roles.iteration_rule(ctx, rep, _roles.Queue(ctx, li.owner, field=JF), "R-GUARDED")
    rep.count("walks over the timeout job list", nwalk, 1)
    nreb, nin = _roles.shrink_rule(ctx, rep, li.owner, JF, "R-GUARDED", "the timeout job list")
    rep.count("places where finished jobs leave the timeout job list (rebuild or in-place removal)", nreb + nin, 1)

    # ------------------------------------------------------------------ submit path
    st = tex.methods.get("submit_timeout")
    sm = tex.methods.get("submit")
    rep.require(st is not None and sm is not None, "TimeoutExecutor.submit / submit_timeout not found")
    ps, it = ctx.paths(st, tex, depth=DEPTH, inline=std_inline)
    T = ("param", st.params[1])
    n = 0
    dl_field = fut_field = None
    for p in ps:
        if p.status != "return":
            continue
        apps = [e for e in p.calls() if q.call_name(e) in ("append", "add") and q.recv(e) == ("attr", SELF, JF)]
        rep.ob("R-DEADLINE", "submit_timeout: one job record appended per submission", len(apps) == 1, "%d appends to the job list" % len(apps), where_of(st), trace_of(p))
        if len(apps) != 1:
            continue
        n += 1
        job = apps[0].d["args"][0]
        fields = dict((k[2], v) for k, v in p.heap.items() if k[0] == "attr" and k[1] == job)
        subs = [e for e in p.calls() if q.call_name(e) == "submit" and q.recv(e) == ("attr", SELF, "_delegate")]
        rep.ob("R-DEADLINE", "submit_timeout: exactly one delegate submit", len(subs) == 1, "", where_of(st), trace_of(p))
        dls = [(f, v) for f, v in fields.items() if isinstance(v, tuple) and v[0] == "bin" and v[1] == "+" and (is_clock(v[2]) or is_clock(v[3]))]
        ok = len(dls) == 1 and ((is_clock(dls[0][1][2]) and dls[0][1][3] == T) or (is_clock(dls[0][1][3]) and dls[0][1][2] == T))
        rep.ob("R-DEADLINE", "submit_timeout: deadline = now + this call's timeout", ok, "record fields: %s" % dict((k, fmt(v)) for k, v in fields.items()), where_of(st), trace_of(p))
        if dls:
            dl_field = dls[0][0]
        if ok and len(subs) == 1:
            # "creation time plus timeout": the clock is read once the future exists -- after the delegate's submit
            # has returned (which may block or be slow) and after the shutdown gate was entered.  A reading from
            # before that makes the deadline earlier than creation + timeout, i.e. an early cancel.
            ck = dls[0][1][2] if is_clock(dls[0][1][2]) else dls[0][1][3]
            rd = [e for e in p.calls() if q.result_of(e) == ck]
            rep.ob("R-DEADLINE", "submit_timeout: the clock is read after the future was created", bool(rd) and rd[-1].seq > subs[0].seq, "the deadline's clock reading is taken before this call's delegate submit: time spent waiting for the executor or inside a slow delegate.submit() is cut off the timeout, so the future can be cancelled before creation time + timeout", where_of(st, rd[-1].node) if rd else where_of(st), trace_of(p, rd[-1].seq if rd else None))
        futs = [f for f, v in fields.items() if v == p.value]
        rep.ob("R-DEADLINE", "submit_timeout: the record links the returned future with this submission's delegate future", len(futs) == 1 and _built_on(p, it, p.value, subs), "record fields: %s; returns %s" % (dict((k, fmt(v)) for k, v in fields.items()), fmt(p.value)), where_of(st), trace_of(p))
        if futs:
            fut_field = futs[0]
        lk = [l for l in apps[0].locks if l[1][0] == "attr" and l[1][1] == SELF and l[1][2] != "_shutdown"]
        rep.ob("R-DEADLINE", "submit_timeout: the job is appended under the job lock", bool(lk), "append without a lock of the executor held", where_of(apps[0].fn, apps[0].node))
    rep.require(n >= 1 and dl_field and fut_field, "submit_timeout: job record / deadline / future field not identified")
    ps, it = ctx.paths(sm, tex, depth=0)
    for p in ps:
        c = [e for e in p.calls() if e.d["callee"] is st]
        ok = len(c) == 1 and c[0].d["args"][:1] == (("attr", SELF, "_timeout"),) and c[0].d["args"][1:] == (("star", ("seq", (), ("param", sm.vararg), 0)),) and tuple(c[0].d["kwargs"]) == ((None, ("kw", (), ("param", sm.kwarg))),)
        rep.ob("R-DEADLINE", "submit uses the executor's default timeout and forwards the call", ok and (p.value[:2] == ("call", c[0].d["func"]) if c else False), "", where_of(sm))
    init = tex.methods.get("__init__")
    ps, it = ctx.paths(init, tex, depth=0)
    for p in ps:
        if p.status == "raise":
            continue
        v = p.heap.get(("attr", SELF, "_timeout"))
        rep.ob("R-DEADLINE", "the default timeout is the constructor's timeout", v == ("param", "timeout"), "_timeout = %s" % (fmt(v) if v else None), where_of(init))

    # ------------------------------------------------------------------ the timeout thread, one iteration
    ps, it = ctx.paths(li.target, li.target.owner, depth=DEPTH, inline=std_inline, maxpaths=20000)
    X = li.exec_term
    XJ = ("attr", X, JF)
    cases = set()
    niter = 0
    # the statements (loops) in which the cancel attempts are made: the sleep must be computed after them
    cancel_loops = set()
    for p in ps:
        for c in p.calls():
            if q.call_name(c) == "cancel" and isinstance(q.recv(c), tuple) and q.recv(c)[0] == "attr" and q.recv(c)[2] == fut_field:
                open_ = []
                for l in p.evs("loop"):
                    if l.seq > c.seq:
                        break
                    if l.d[0] == "enter":
                        open_.append(l.node)
                    elif l.d[0] == "exit" and l.node in open_:
                        open_.remove(l.node)
                cancel_loops.update(id(n) for n in open_)
    for p in ps:
        if p.status not in ("loop", "return"):
            continue
        job = None
        for b in p.evs("branch"):
            for s in subterms(b.d[0]):
                if s[0] == "elem" and s[1] == XJ:
                    job = s
        stores = [e for e in p.evs("store") if e.d["target"] == XJ]
        cancels = [e for e in p.calls() if q.call_name(e) == "cancel" and isinstance(q.recv(e), tuple) and q.recv(e)[0] == "attr" and q.recv(e)[2] == fut_field]
        waits = [e for e in p.calls() if q.call_name(e) == "wait" and it.type_of(q.recv(e), p) == "E:Event"]
        if not stores:
            continue
        niter += 1
        s0 = stores[0]
        keep = s0.d["value"]
        lk = [l for l in s0.locks if l[1][0] == "attr" and l[1][1] == X]
        rep.ob("R-PARTITION", "loop: the job list is replaced under the job lock", bool(lk) and len(stores) == 1, "%d stores to the job list, lock held: %s" % (len(stores), bool(lk)), where_of(s0.fn, s0.node), trace_of(p, s0.seq))
        clocks = [e for e in p.calls() if q.call_name(e) == "monotonic" and e.seq < s0.seq]
        if job is None:
            continue
        done = over = None
        for b in p.evs("branch"):
            t, val = b.d
            if isinstance(t, tuple) and t[0] == "call" and t[1] == ("attr", ("attr", job, fut_field), "done"):
                done = (val, b)
            nc = norm_cmp(t, val)
            if nc and (contains(nc[0], ("attr", job, dl_field)) or contains(nc[2], ("attr", job, dl_field))):
                over = (nc, b)
        keep_d = q.deref(p, keep)
        kept = _contains_elem(keep_d, job)
        cancelled = [e for e in cancels if q.recv(e) == ("attr", job, fut_field)]
        if done is not None and done[0]:
            cases.add("done")
            rep.ob("R-PARTITION", "loop: a finished job is dropped (not kept, not cancelled)", not kept and not cancelled, "a job whose future is done is %s" % ("kept" if kept else "cancelled"), where_of(li.target), trace_of(p))
            continue
        if over is None:
            rep.ob("R-PARTITION", "loop: every unfinished job is compared with the clock", False, "a job is %s without looking at its deadline" % ("kept" if kept else "dropped"), where_of(li.target), trace_of(p))
            continue
        nc, b = over
        DL = ("attr", job, dl_field)
        plain = (nc[0] == DL and is_clock(nc[2])) or (nc[2] == DL and is_clock(nc[0]))
        rep.ob("R-PARTITION", "loop: the deadline is compared with an unmodified clock reading", plain, "the comparison is `%s %s %s`: any offset makes the cancel early or late" % (fmt(nc[0]), nc[1], fmt(nc[2])), where_of(b.fn, b.node), trace_of(p, b.seq))
        overdue = nc[0] == DL
        if overdue:
            cases.add("overdue")
            rep.ob("R-PARTITION", "loop: an overdue job is cancelled exactly once and not kept", len(cancelled) == 1 and not kept, "overdue job: %d cancel attempts, kept: %s" % (len(cancelled), kept), where_of(li.target), trace_of(p))
            for c in cancelled:
                rep.ob("R-PARTITION", "loop: the cancel attempt runs outside the job lock", not [l for l in c.locks if l in lk], "", where_of(c.fn, c.node), trace_of(p, c.seq))
        else:
            cases.add("pending")
            rep.ob("R-PARTITION", "loop: a job before its deadline is kept and not cancelled", kept and not cancelled, "pending job: kept %s, cancel attempts %d" % (kept, len(cancelled)), where_of(li.target), trace_of(p))
            rep.ob("R-PARTITION", "loop: a job kept was found not done", done is not None and done[0] is False, "a job is kept without looking at its future's done(): finished jobs would stay in the list until their deadline", where_of(li.target), trace_of(p))
            for w in waits:
                wt = w.d["args"][0] if w.d["args"] else ("const", None)
                rep.ob("R-SLEEP", "loop: with kept jobs the wait is max(min(kept deadlines) - now, 0)", _sleep_ok(q.deref(p, wt), keep_d, dl_field), "wait(%s)" % fmt(wt), where_of(w.fn, w.node), trace_of(p, w.seq))
                # `now` must be a reading taken after this iteration's cancel attempts (they run callbacks of
                # arbitrary duration): a reading from before them makes the thread oversleep by that time
                ck = _sleep_clock(q.deref(p, wt))
                if ck is not None:
                    rd = [e for e in p.calls() if q.result_of(e) == ck]
                    after = [l.seq for l in p.evs("loop") if id(l.node) in cancel_loops and l.seq < w.seq] + [s0.seq]
                    fresh = bool(rd) and all(rd[-1].seq > x for x in after) and rd[-1].seq < w.seq
                    rep.ob("R-SLEEP", "loop: the sleep is computed from a clock reading taken after the cancel attempts", fresh, "the wait time subtracts a clock reading taken before this iteration's cancel attempts were made (the one used for the partition): the time they take is added to the sleep, so the next deadline is slept over by that much", where_of(w.fn, w.node), trace_of(p, w.seq))
        rep.ob("R-PARTITION", "loop: the clock is read once per iteration for the partition", len(set(e.node.lineno for e in clocks)) == 1, "clock read at %d places before the list is replaced" % len(set(e.node.lineno for e in clocks)), where_of(li.target))
    for p in ps:
        stores = [e for e in p.evs("store") if e.d["target"] == XJ]
        waits = [e for e in p.calls() if q.call_name(e) == "wait" and it.type_of(q.recv(e), p) == "E:Event"]
        if stores and waits and q.truth_of(p, stores[0].d["value"]) is False:
            wt = waits[0].d["args"][0] if waits[0].d["args"] else ("const", None)
            rep.ob("R-SLEEP", "loop: nothing kept -> wait without bound", wt == ("const", None), "wait(%s) although no job is pending" % fmt(wt), where_of(waits[0].fn, waits[0].node), trace_of(p))
    rep.ob("R-PARTITION", "loop: done / overdue / pending all present", cases == {"done", "overdue", "pending"}, "cases: %s" % sorted(cases), where_of(li.target))
    rep.require(niter >= 2, "timeout thread: working iterations not found")

    # ------------------------------------------------------------------ wake-ups, f_timeout
    wake.check_producers(ctx, rep, loops)
    wake.check_loops(ctx, rep, loops, components="state")
    ft = prog.fn("futures.timeout:f_timeout")
    ps, it = ctx.paths(ft, None, depth=0)
    for p in ps:
        if p.status != "return":
            continue
        c = [e for e in p.calls() if q.call_name(e) == "submit_timeout"]
        ok = len(c) == 1 and len(c[0].d["args"]) == 2 and c[0].d["args"][0] == ("param", ft.params[1])
        if ok:
            a1 = c[0].d["args"][1]
            sub = closure_fn(a1) or (prog.functions.get(a1[1]) if isinstance(a1, tuple) and a1[0] == "func" else None)
            ok = False
            if sub is not None:
                ps2, _ = ctx.paths(sub, None, depth=0)
                ok = not sub.params and all(p2.status == "return" and q.term_name(p2.value) == ft.params[0] for p2 in ps2)
        rep.ob("R-DEADLINE", "f_timeout routes through submit_timeout with the caller's timeout and the caller's future", ok, "", where_of(ft))


def _built_on(p, it, v, subs):
    """the returned future is constructed on the result of the delegate submit"""
    if not subs:
        return False
    pre = ("call", subs[0].d["func"])
    if isinstance(v, tuple) and v[0] == "new":
        for c in p.calls():
            if c.d["func"] == ("class", v[1]) and it.site(c.node) == v[2]:
                vals = list(c.d["args"]) + [x for k, x in c.d["kwargs"]]
                if any(isinstance(a, tuple) and a[:2] == pre for a in vals):
                    return True
    return isinstance(v, tuple) and v[:2] == pre


def _contains_elem(keep, job):
    """is `job` put on the collection `keep` (a list literal built in this iteration)"""
    if isinstance(keep, tuple) and keep[0] in ("list", "tuple"):
        return job in keep[1]
    if isinstance(keep, tuple) and keep[0] == "unpack":
        inner = keep[1]
        if isinstance(inner, tuple) and inner[0] == "tuple" and keep[2] < len(inner[1]):
            return _contains_elem(inner[1][keep[2]], job)
    if isinstance(keep, tuple) and keep[0] == "bin" and keep[1] == "+":
        return _contains_elem(keep[2], job) or _contains_elem(keep[3], job)
    return False


def _sleep_clock(wt):
    """the clock reading subtracted in max(min(...) - <clock>, 0)"""
    if isinstance(wt, tuple) and wt[0] == "call" and wt[1] == ("name", "max") and len(wt[2]) == 2:
        for a in wt[2]:
            if isinstance(a, tuple) and a[0] == "bin" and a[1] == "-" and is_clock(a[3]):
                return a[3]
    return None


def _sleep_ok(wt, keep, dl_field):
    if not (isinstance(wt, tuple) and wt[0] == "call" and wt[1] == ("name", "max") and len(wt[2]) == 2 and not wt[3]):
        return False
    args = list(wt[2])
    zero = [a for a in args if a == ("const", 0)]
    diff = [a for a in args if a != ("const", 0)]
    if len(zero) != 1 or len(diff) != 1:
        return False
    d = diff[0]
    if not (isinstance(d, tuple) and d[0] == "bin" and d[1] == "-" and is_clock(d[3])):
        return False
    m = d[2]
    if not (isinstance(m, tuple) and m[0] == "call" and m[1] == ("name", "min") and not m[3]):
        return False
    if len(m[2]) == 1:
        c = m[2][0]
        if isinstance(c, tuple) and c[0] == "comp" and not c[4] and len(c[2]) == 1 and len(c[3]) == 1:
            e = c[2][0]
            return isinstance(e, tuple) and e[0] == "attr" and e[2] == dl_field and e[1][0] == "elem" and c[3][0] == keep
        if isinstance(c, tuple) and c[0] == "list":
            return all(isinstance(e, tuple) and e[0] == "attr" and e[2] == dl_field for e in c[1]) and len(c[1]) >= 1
    return False
