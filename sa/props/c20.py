"""C20 -- metrics: gauges return to reality at quiescence, counters match events.

Decided:
  R-SIBLING   NullMetrics and PrometheusMetrics define the same metric names with the same kind (gauge/counter);
              every metrics.X used in the package exists in both; label keys at every use equal the declared
              labelnames; dec() only on gauges
  R-PAIR-Q    queue gauges: on every path the +1/-1 mutations of a gauged container (retry _jobs, throttle
              _to_submit) are matched one-for-one by inc()/dec() of its gauge (interprocedurally: a helper may
              be unbalanced only if every caller path is balanced)
  R-PAIR-E    executor gauge: __init__ incs EXEC_INPROGRESS (and EXEC_TOTAL) exactly once; the first shutdown
              decs it exactly once with identical labels; a repeated shutdown does not touch it
  R-PAIR-F    future gauge: track_future incs FUTURE_INPROGRESS once and registers record_done with that same
              child; record_done decs exactly once; FUTURE_CANCEL / FUTURE_ERROR are exclusive and on their own case
  R-COUNTER   RETRY_TOTAL exactly on re-submissions (attempt != 0); TIMEOUT / SHUTDOWN_CANCEL exactly when the
              cancel returned true; POLL_TOTAL on every exit of a poll call, POLL_ERROR exactly in its handler
  R-TRACKED   every future handed out by an executor's submit or an f_* combinator went through track_future
  R-OWNEXEC   executors the library constructs for its own use are shut down, module-lifetime, or do not touch
              EXEC_INPROGRESS   (today: known finding F14)
Not decided: gauge values at quiescence for concrete histories.
"""
import ast

from ..core import where_of, trace_of
from ..interp import fmt, contains
from ..model import AnalysisError, ClassInfo, _dotted
from .. import q
from .. import roles
from .c11 import helper_lock_field, gate_flag

PLUS = {"append", "appendleft", "insert", "add"}
MINUS = {"pop", "popleft", "remove", "discard"}


def metric_decls(ctx, rep):
    prog = ctx.prog
    null = prog.cls("NullMetrics")
    prom = prog.cls("PrometheusMetrics")
    nd = {}
    for n, v in null.class_attrs.items():
        if isinstance(v, ast.Call):
            nd[n] = _dotted(v.func)
    pd = {}
    for n, v in prom.class_attrs.items():
        if isinstance(v, ast.Call):
            kind = _dotted(v.func)
            labels = None
            for kw in v.keywords:
                if kw.arg != "labelnames":
                    continue
                val = kw.value
                if isinstance(val, ast.Name):
                    # a module-level constant shared between metrics: BY_EXECUTOR = ("executor",)
                    defs = prom.module.assigns.get(val.id, [])
                    val = defs[0] if len(defs) == 1 else None
                if isinstance(val, (ast.Tuple, ast.List)):
                    labels = tuple(e.value for e in val.elts if isinstance(e, ast.Constant))
                elif isinstance(val, ast.Constant) and isinstance(val.value, str):
                    # a bare string -- ("executor") without the comma -- is iterated by prometheus_client element by
                    # element: the label names become its characters
                    labels = ("<not a tuple/list literal: the string %r>" % val.value,)
            pd[n] = (kind, labels)
    return null, prom, nd, pd


def labelnames_rule(ctx, rep, rule, names):
    """the metrics a worker touches inside its own exception handling must be usable: a metric whose labelnames is a
    bare string raises ValueError from .labels(...) right there (shared with C08 / C18: the poll worker counts
    POLL_ERROR in the handler that fails the shown futures)"""
    null, prom, nd, pd = metric_decls(ctx, rep)
    for n in names:
        if n in pd and pd[n][1] is not None:
            rep.ob(rule, "metric %s: labelnames is a tuple / list of names" % n, not any(str(x).startswith("<not a tuple") for x in pd[n][1]), "labelnames of %s is %s: every .labels(executor=...) on it raises ValueError, inside the worker's handler" % (n, pd[n][1][0]), prom.module.relpath)


def check(ctx, rep):
    prog = ctx.prog
    rep.rule("R-SIBLING", "NullMetrics, PrometheusMetrics and the metrics.X uses agree: same names, same kind, label keys at each use == declared labelnames, dec() only on gauges")
    rep.rule("R-PAIR-Q", "every +1 (append/add/insert) / -1 (pop/popleft/remove) mutation of a gauged queue is matched on the same path by inc()/dec() of its gauge")
    rep.rule("R-PAIR-E", "EXEC_INPROGRESS: inc exactly once in __init__, dec exactly once on the first shutdown with identical labels, untouched by a repeated shutdown")
    rep.rule("R-PAIR-F", "FUTURE_INPROGRESS: track_future incs once and hands the same child to record_done, which decs exactly once; FUTURE_CANCEL xor FUTURE_ERROR on their own case")
    rep.rule("R-COUNTER", "event counters sit exactly on the event's path (RETRY_TOTAL, TIMEOUT, SHUTDOWN_CANCEL, POLL_TOTAL, POLL_ERROR)")
    rep.rule("R-TRACKED", "the future returned by each executor submit / f_* combinator was passed to track_future")
    rep.rule("R-OWNEXEC", "an executor constructed inside a library function for the library's own use is shut down on every path, kept for the module's lifetime, or does not touch EXEC_INPROGRESS")

    null, prom, nd, pd = metric_decls(ctx, rep)
    rep.count("metrics declared (union of NullMetrics and PrometheusMetrics)", len(set(nd) | set(pd)), 16)
    for n in sorted(set(nd) | set(pd)):
        rep.ob("R-SIBLING", "metric %s declared in both" % n, n in nd and n in pd, "%s is missing from %s" % (n, "PrometheusMetrics" if n in nd else "NullMetrics"), where_of(prog.fn("metrics:track_future")))
        if n in pd and pd[n][1] is not None:
            rep.ob("R-SIBLING", "metric %s: labelnames is a tuple / list of names" % n, not any(str(x).startswith("<not a tuple") for x in pd[n][1]), "labelnames of %s is %s: prometheus_client iterates it, so a bare string declares one label per character and every .labels(executor=...) on this metric raises ValueError -- in the place where the event is counted" % (n, pd[n][1][0]), prom.module.relpath)
        if n in nd and n in pd:
            rep.ob("R-SIBLING", "metric %s kind" % n, nd[n] == pd[n][0], "NullMetrics declares %s, PrometheusMetrics %s" % (nd[n], pd[n][0]), null.module.relpath)

    # ---- all metric uses in the package (depth-0 runs of every function)
    uses = 0
    all_events = []
    for fi in sorted(prog.functions.values(), key=lambda f: f.key):
        for ci in ctx.instances(fi):
            # small helpers of the same class are inlined (a method that returns the label dict)
            ps, it = ctx.paths(fi, ci, depth=1, inline=lambda callee, ev, path: callee.owner is not None and fi.owner is not None and callee.owner in fi.owner.mro() and callee.name != "__init__")
            for p in ps:
                for e in p.calls():
                    m = q.metric_of(e)
                    if m is None:
                        continue
                    name, op, labels = m
                    if e.fn is not fi:
                        continue
                    uses += 1
                    key = "%s: metrics.%s.%s" % (e.fn.qualname, name, op)
                    if name not in pd or name not in nd:
                        rep.ob("R-SIBLING", key + " exists", False, "metrics.%s is used but not declared in both metric classes" % name, where_of(e.fn, e.node))
                        continue
                    kind, lnames = pd[name]
                    if lnames is not None and "**" not in labels:
                        rep.ob("R-SIBLING", key + " labels", set(labels) == set(lnames), "label keys %s differ from the declared labelnames %s" % (sorted(labels), sorted(lnames)), where_of(e.fn, e.node))
                    if op == "dec":
                        rep.ob("R-SIBLING", key + " on a gauge", kind == "Gauge", "dec() on %s which is a %s" % (name, kind), where_of(e.fn, e.node))
    rep.count("metric inc/dec call sites", uses, 40)

    pair_queues(ctx, rep)
    pair_exec(ctx, rep)
    pair_future(ctx, rep)
    counters(ctx, rep)
    tracked(ctx, rep)
    own_executors(ctx, rep)


# --------------------------------------------------------------------------- queues
def _queue_delta(e):
    """(+1|-1, container term) for a mutation call event on a self/executor container field"""
    if e.kind != "call":
        return None
    f = e.d["func"]
    if isinstance(f, tuple) and f[0] == "attr" and isinstance(f[1], tuple) and f[1][0] == "attr":
        if f[2] in PLUS:
            return (+1, f[1])
        if f[2] in MINUS:
            return (-1, f[1])
    return None


def pair_queues(ctx, rep):
    prog = ctx.prog
    # discover gauge <-> container association: an inc of a *_QUEUE gauge on a path with exactly one +1 mutation
    assoc = {}
    runs = []
    for fi in sorted(prog.functions.values(), key=lambda f: f.key):
        if fi.parent is not None:
            continue
        for ci in ctx.instances(fi):
            ps, it = ctx.paths(fi, ci, depth=3)
            runs.append((fi, ci, ps, it))
            for p in ps:
                incs = [(q.metric_of(e), e) for e in p.calls() if q.metric_of(e)]
                incs = [(m, e) for m, e in incs if m[0].endswith("_QUEUE") and m[1] == "inc"]
                plus = [(_queue_delta(e), e) for e in p.calls() if _queue_delta(e) and _queue_delta(e)[0] > 0]
                if len(incs) == 1 and len(plus) == 1:
                    fld = plus[0][0][1][2]
                    owner = it.type_of(plus[0][0][1][1], p)
                    if owner:
                        assoc.setdefault(incs[0][0][0], set()).add((owner, fld))
                # ... and from the other direction (a dec next to a -1), so that the association does not hang
                # on a single inc site
                decs = [(m, e) for m, e in [(q.metric_of(e), e) for e in p.calls() if q.metric_of(e)] if m[0].endswith("_QUEUE") and m[1] == "dec"]
                minus = [(_queue_delta(e), e) for e in p.calls() if _queue_delta(e) and _queue_delta(e)[0] < 0]
                if len(decs) == 1 and len(minus) == 1:
                    fld = minus[0][0][1][2]
                    owner = it.type_of(minus[0][0][1][1], p)
                    if owner:
                        assoc.setdefault(decs[0][0][0], set()).add((owner, fld))
    rep.count("gauged queues", len(assoc), 2)
    gauged = {}
    for g, cs in assoc.items():
        for c in cs:
            gauged[c] = g
    balanced = {}
    detail = {}
    for fi, ci, ps, it in runs:
        ok = True
        for p in ps:
            if p.status == "raise":
                continue
            net = {}
            for e in p.calls():
                d = _queue_delta(e)
                if d:
                    owner = it.type_of(d[1][1], p)
                    g = gauged.get((owner, d[1][2]))
                    if g:
                        net.setdefault(g, [0, 0])[0] += d[0]
                m = q.metric_of(e)
                if m and m[0] in assoc:
                    net.setdefault(m[0], [0, 0])[1] += (1 if m[1] == "inc" else -1)
            for g, (mut, gau) in net.items():
                if mut != gau:
                    ok = False
                    detail.setdefault((fi.key, ci.key if ci else None), (g, mut, gau, p))
        balanced[(fi.key, ci.key if ci else None)] = ok
    callers = ctx.callgraph()
    n = 0
    for (fk, ck), ok in sorted(balanced.items(), key=lambda kv: (kv[0][0], kv[0][1] or "")):
        fi = prog.functions[fk]
        involved = (fk, ck) in detail or any(True for _ in [0] if fi.owner and any((("C:" + c.key), f) in gauged for c in [fi.owner] for f in ()))
        if ok:
            continue
        g, mut, gau, p = detail[(fk, ck)]
        cs = callers.get(fk, set())
        excused = bool(cs) and all(balanced.get(c, True) for c in cs)
        n += 1
        key = "%s%s: %s balance" % (fi.qualname, "[%s]" % ck.split(":")[-1] if ck else "", g)
        rep.ob("R-PAIR-Q", key, excused, "queue mutations net %+d but gauge %s net %+d on path [%s]%s" % (mut, g, gau, q.path_sig(p)[:100], "" if not cs else " and not every caller compensates"), where_of(fi), trace_of(p))
    # positive obligations: each function touching a gauged container, balanced
    for (fk, ck), ok in sorted(balanced.items(), key=lambda kv: (kv[0][0], kv[0][1] or "")):
        if not ok:
            continue
        fi = prog.functions[fk]
        for f2, c2, ps, it in runs:
            if f2.key == fk and (c2.key if c2 else None) == ck:
                touches = any(_queue_delta(e) and gauged.get((it.type_of(_queue_delta(e)[1][1], p), _queue_delta(e)[1][2])) for p in ps for e in p.calls() if e.fn is fi)
                if touches:
                    rep.ob("R-PAIR-Q", "%s%s: balanced" % (fi.qualname, "[%s]" % ck.split(":")[-1] if ck else ""), True, "", where_of(fi))
    # "never negative on the way": the gauge moves in the same critical section as the queue.  An increment made after
    # the entry is already visible (lock released) can be overtaken by the decrement of whoever takes the entry out.
    for fi, ci, ps, it in runs:
        for p in ps:
            for e in p.calls():
                qd = _queue_delta(e)
                if not qd or e.fn is not fi:
                    continue
                owner = it.type_of(qd[1][1], p)
                g = gauged.get((owner, qd[1][2]))
                if not g:
                    continue
                want = "inc" if qd[0] > 0 else "dec"
                gs = [x for x in p.calls() if q.metric_of(x) and q.metric_of(x)[0] == g and q.metric_of(x)[1] == want]
                if not gs:
                    continue
                near = min(gs, key=lambda x: abs(x.seq - e.seq))
                lks = [l[1] for l in e.locks if isinstance(l[1], tuple) and l[1][0] == "attr" and l[1][1] == qd[1][1]]
                if not lks:
                    continue
                a, b = (e, near) if e.seq < near.seq else (near, e)
                same = any(roles.held_throughout(p, lk, a, b) and any(l[1] == lk for l in near.locks) for lk in lks)
                rep.ob("R-PAIR-Q", "%s: %s moves in the critical section that changes the queue" % (fi.qualname, g), same, "the queue is changed under %s but %s.%s() happens outside that hold of the lock: between the two the entry is visible to the other side, whose own gauge update can come first (the gauge then reads -1, or one too many, for a moment)" % (fmt(lks[0]), g, want), where_of(fi, near.node), trace_of(p, near.seq))
    # a gauged container must not be re-bound outside __init__
    for fi, ci, ps, it in runs:
        for p in ps:
            for e in p.evs("store"):
                t = e.d["target"]
                if t[0] == "attr" and e.fn is fi and fi.name != "__init__":
                    owner = it.type_of(t[1], p)
                    if (owner, t[2]) in gauged:
                        rep.ob("R-PAIR-Q", "%s: rebinding of gauged queue %s" % (fi.qualname, t[2]), False, "the gauged container is replaced wholesale; the gauge cannot follow", where_of(fi, e.node))


# ------------------------------------------------------------------------ executors
def pair_exec(ctx, rep):
    prog = ctx.prog
    helper, lockfield = helper_lock_field(ctx)
    n = 0
    for ci in ctx.executor_classes():
        if not ctx.gate_field(ci):
            continue
        o, init = ci.lookup("__init__")
        o2, shut = ci.lookup("shutdown")
        if init is None or shut is None:
            continue
        n += 1
        ps, it = ctx.paths(init, ci)
        inc_labels = None
        for p in ps:
            if p.status == "raise":
                # a constructor that fails (user code it runs -- a count callable, say -- raised) leaves no executor
                # behind, so it must not have counted one: the gauge would never come back down
                early = [q.metric_of(e) for e in p.calls() if q.metric_of(e) and q.metric_of(e)[0] in ("EXEC_INPROGRESS", "EXEC_TOTAL") and q.metric_of(e)[1] == "inc"]
                rep.ob("R-PAIR-E", "%s.__init__: nothing is counted before the last point where the constructor can fail" % ci.name, not early, "%s is incremented on a constructor path that then raises (%s): no executor exists afterwards and nothing can ever decrement the gauge" % (", ".join(sorted(set(m[0] for m in early))), fmt(p.value)[:80]), where_of(init), trace_of(p))
                continue
            incs = [q.metric_of(e) for e in p.calls() if q.metric_of(e) and q.metric_of(e)[0] == "EXEC_INPROGRESS"]
            tots = [q.metric_of(e) for e in p.calls() if q.metric_of(e) and q.metric_of(e)[0] == "EXEC_TOTAL"]
            ok = len(incs) == 1 and incs[0][1] == "inc"
            rep.ob("R-PAIR-E", "%s.__init__: EXEC_INPROGRESS inc once" % ci.name, ok, "found %d inc/dec of EXEC_INPROGRESS on a constructor path" % len(incs), where_of(init), trace_of(p))
            rep.ob("R-PAIR-E", "%s.__init__: EXEC_TOTAL inc once" % ci.name, len(tots) == 1 and tots[0][1] == "inc", "found %d inc of EXEC_TOTAL" % len(tots), where_of(init))
            if ok:
                # express the label values through the fields they were stored in (self._name = name)
                rev = dict((v, k) for k, v in p.heap.items() if k[0] == "attr" and k[1] == ("param", "self") and isinstance(v, tuple))
                inc_labels = dict((k, rev.get(v, v)) for k, v in incs[0][2].items())
                if tots:
                    tots[0] = (tots[0][0], tots[0][1], dict((k, rev.get(v, v)) for k, v in tots[0][2].items()))
                if tots:
                    rep.ob("R-PAIR-E", "%s.__init__: same labels for EXEC_TOTAL" % ci.name, tots[0][2] == inc_labels, "labels differ: %s vs %s" % (_lab(tots[0][2]), _lab(inc_labels)), where_of(init))
        ps, it = ctx.paths(shut, ci)
        for p in ps:
            if p.status == "raise":
                continue
            flips = [e for e in p.evs("store") if e.d["target"][0] == "attr" and e.d["target"][2] == gate_flag(ctx) and e.d["value"] == ("const", True)]
            decs = [q.metric_of(e) for e in p.calls() if q.metric_of(e) and q.metric_of(e)[0] == "EXEC_INPROGRESS"]
            for b in p.evs("branch"):
                t = b.d[0]
                if isinstance(t, tuple) and t[0] == "attr" and t[2] == gate_flag(ctx) and it.type_of(t[1], p) == "C:" + helper.key:
                    locked = any(l[1] == ("attr", t[1], lockfield) for l in b.locks)
                    rep.ob("R-PAIR-E", "%s.shutdown: 'first shutdown' decided atomically" % ci.name, locked, "the flag is read outside the helper's lock, so two concurrent shutdown() calls can both dec the gauge", where_of(b.fn, b.node), trace_of(p, b.seq))
            if flips:
                ok = len(decs) == 1 and decs[0][1] == "dec"
                rep.ob("R-PAIR-E", "%s.shutdown: EXEC_INPROGRESS dec once on first shutdown" % ci.name, ok, "found %d inc/dec on the first-shutdown path" % len(decs), where_of(shut), trace_of(p))
                if ok and inc_labels is not None:
                    rep.ob("R-PAIR-E", "%s.shutdown: dec uses the constructor's labels" % ci.name, decs[0][2] == inc_labels, "constructor incs %s but shutdown decs %s" % (_lab(inc_labels), _lab(decs[0][2])), where_of(shut))
            else:
                rep.ob("R-PAIR-E", "%s.shutdown: repeated call leaves the gauge" % ci.name, not decs, "gauge changed although this call did not shut the executor down", where_of(shut), trace_of(p))
    rep.count("executor classes with gauge", n, 10)


def _lab(labels):
    return "{%s}" % ", ".join("%s=%s" % (k, fmt(v)) for k, v in sorted(labels.items()))


# -------------------------------------------------------------------------- futures
def pair_future(ctx, rep):
    """track_future(f): one FUTURE_INPROGRESS inc, and the done-callback it registers -- whatever its form: partial of
    a module function, nested function, lambda -- decrements that very child once and counts a cancel / an error
    exclusively.  The callback is analysed by applying it to the future at the registration point."""
    prog = ctx.prog
    tf = prog.fn("metrics:track_future")
    F = ("param", tf.params[0])
    ps, it = ctx.paths(tf, None, depth=4, immediate_callbacks=True, inline=lambda callee, ev, path: callee.module is tf.module)
    ncb = 0
    for p in ps:
        if p.status == "raise":
            rep.ob("R-PAIR-F", "track_future never raises", False, "track_future can leave by exception (%s): every future handed out by the library goes through it" % fmt(p.value), where_of(tf), trace_of(p))
            ncb += 3
            continue
        if p.status != "return":
            continue
        incs = [e for e in p.calls() if q.call_name(e) == "inc" and name_of_metric(q.recv(e)) == "FUTURE_INPROGRESS"]
        rep.ob("R-PAIR-F", "track_future: FUTURE_INPROGRESS inc once", len(incs) == 1, "found %d" % len(incs), where_of(tf), trace_of(p))
        # "futures created" is counted here: once per tracked future, before anything can complete it
        tot = [e for e in p.calls() if q.call_name(e) == "inc" and name_of_metric(q.recv(e)) == "FUTURE_TOTAL"]
        rep.ob("R-COUNTER", "track_future: FUTURE_TOTAL inc once per tracked future", len(tot) == 1 and not tot[0].d["args"], "FUTURE_TOTAL.inc() x%d on a path of track_future: the counter of futures created no longer equals the number of futures handed out" % len(tot), where_of(tf), trace_of(p))
        regs = [e for e in p.calls() if q.call_name(e) == "add_done_callback" and q.recv(e) == F]
        rep.ob("R-PAIR-F", "track_future: registers one done-callback on the future", len(regs) == 1, "found %d registrations" % len(regs), where_of(tf), trace_of(p))
        rep.ob("R-PAIR-F", "track_future: returns its argument", p.value == F, "track_future must return the future it was given", where_of(tf))
        if len(incs) == 1 and len(regs) == 1:
            # "never negative on the way": a future that is already done runs the callback (and its dec) at
            # registration time, so the inc has to come first
            rep.ob("R-PAIR-F", "track_future: the gauge is incremented before the done-callback is registered", incs[0].seq < regs[0].seq, "FUTURE_INPROGRESS.inc() comes after add_done_callback(): for a future that is already done (or completes in between) the callback decrements first and the gauge reads -1 for a moment", where_of(tf, incs[0].node), trace_of(p, incs[0].seq))
        marks = p.evs("immediate-callback")
        if not marks or not incs:
            continue
        ncb += 1
        m = marks[0]
        after = [e for e in p.calls() if e.seq > m.seq]
        decs = [e for e in after if q.call_name(e) == "dec"]
        ok = len(decs) == 1 and q.recv(decs[0]) == q.recv(incs[0])
        rep.ob("R-PAIR-F", "done-callback: decrements the gauge child that was incremented, exactly once", ok, "found %d dec() on the callback's path%s" % (len(decs), "" if not decs or q.recv(decs[0]) == q.recv(incs[0]) else " (on %s, not the incremented child)" % fmt(q.recv(decs[0]))), where_of(tf), trace_of(p))
        c_inc = [e for e in after if q.call_name(e) == "inc" and name_of_metric(q.recv(e)) == "FUTURE_CANCEL"]
        f_inc = [e for e in after if q.call_name(e) == "inc" and name_of_metric(q.recv(e)) == "FUTURE_ERROR"]
        was_c = q.truth_of(p, ("call", ("attr", F, "cancelled"), (), (), None))
        was_f = q.truth_of(p, ("call", ("attr", F, "exception"), (), (), None))
        want_c = 1 if was_c else 0
        want_f = 1 if (not was_c and was_f) else 0
        rep.ob("R-PAIR-F", "done-callback: cancel/error counters exclusive [cancelled=%s failed=%s]" % (was_c, was_f), len(c_inc) == want_c and len(f_inc) == want_f and was_c is not None, "cancelled=%s failed=%s but FUTURE_CANCEL inc x%d, FUTURE_ERROR inc x%d" % (was_c, was_f, len(c_inc), len(f_inc)), where_of(tf), trace_of(p))
    rep.require(ncb >= 3, "track_future: the registered done-callback could not be analysed (%d paths)" % ncb)


def name_of_metric(t):
    if isinstance(t, tuple) and t[0] == "call" and isinstance(t[1], tuple) and t[1][0] == "attr" and t[1][2] == "labels":
        m = t[1][1]
        if isinstance(m, tuple) and m[0] == "attr":
            return m[2]
    return None


# ------------------------------------------------------------------------- counters
def counters(ctx, rep):
    """event counters, evaluated on the entry points that reach them (worker threads, shutdown) with helpers inlined"""
    prog = ctx.prog
    SELF = ("param", "self")
    # RETRY_TOTAL: on the retry worker's paths, per hand-over to the delegate
    rex = prog.cls("RetryExecutor")
    layer = roles.Layer(ctx, rex)
    rep.require(layer.loop is not None, "RetryExecutor worker thread not found")
    RQ = roles.Queue(ctx, rex)
    FNF = RQ.roles["fn"]
    DELEG = roles.delegate_field(ctx, rex)
    ps, it = ctx.paths(layer.loop, None, depth=6, inline=roles.std_inline)
    kinds = set()
    for p in ps:
        subs = [e for e in p.calls() if q.call_name(e) == "submit" and isinstance(q.recv(e), tuple) and q.recv(e)[0] == "attr" and q.recv(e)[2] == DELEG]
        rt = [e for e in p.calls() if q.metric_of(e) and q.metric_of(e)[0] == "RETRY_TOTAL"]
        if not subs:
            rep.ob("R-COUNTER", "retry worker: RETRY_TOTAL only with a hand-over", not rt, "retry counted on a path without a delegate submit", where_of(layer.loop), trace_of(p))
            continue
        a0 = subs[0].d["args"][0] if subs[0].d["args"] else None
        J = a0[1] if isinstance(a0, tuple) and a0[0] == "attr" and a0[2] == FNF else None
        is_first = None
        wrong = None
        import operator
        ops = {"==": operator.eq, "!=": operator.ne, "<": operator.lt, "<=": operator.le, ">": operator.gt, ">=": operator.ge}
        for t, v, b in q.atoms(p):
            if isinstance(t, tuple) and t[0] == "cmp" and t[1] in ops and b.seq < subs[0].seq:
                A, B = t[2], t[3]
                if isinstance(A, tuple) and A[0] == "attr" and A[1] == J and B[0] == "const" and isinstance(B[1], int) and not isinstance(B[1], bool):
                    pred = lambda n, t=t, B=B: ops[t[1]](n, B[1])  # noqa: E731
                elif isinstance(B, tuple) and B[0] == "attr" and B[1] == J and A[0] == "const" and isinstance(A[1], int) and not isinstance(A[1], bool):
                    pred = lambda n, t=t, A=A: ops[t[1]](A[1], n)  # noqa: E731
                else:
                    continue
                sat = set(n for n in range(0, 6) if pred(n) == v)
                if sat == {0}:
                    is_first = True
                elif sat == {1, 2, 3, 4, 5}:
                    is_first = False
                else:
                    wrong = (t, v, b)
        if is_first is None and wrong is not None:
            rep.ob("R-COUNTER", "retry worker: RETRY_TOTAL decided by 'attempt number is 0'", False, "the attempt test `%s` (%s) does not separate the first attempt (0) from re-submissions (>= 1)" % (fmt(wrong[0]), wrong[1]), where_of(wrong[2].fn, wrong[2].node), trace_of(p, wrong[2].seq))
            kinds.update({True, False})
            continue
        if is_first is None:
            rep.ob("R-COUNTER", "retry worker: RETRY_TOTAL decided by the attempt number", not rt or False, "RETRY_TOTAL is incremented on a hand-over path that does not test the job's attempt number against 0", where_of(subs[0].fn, subs[0].node), trace_of(p, subs[0].seq))
            continue
        kinds.add(is_first)
        want = 0 if is_first else 1
        rep.ob("R-COUNTER", "retry worker: RETRY_TOTAL iff re-submission [%s]" % ("first" if is_first else "retry"), len(rt) == want, "attempt %s 0 but RETRY_TOTAL inc x%d" % ("==" if is_first else "!=", len(rt)), where_of(subs[0].fn, subs[0].node), trace_of(p, subs[0].seq))
    if not kinds:
        # no hand-over path looks at the attempt number at all: then the counter is not kept where re-submissions
        # happen.  Wherever else it is incremented (for instance where a retry is *scheduled*), it also counts the
        # retries that never take place -- cancelled or shut down while waiting.
        elsewhere = sorted(set(e.fn.qualname for fi in prog.functions.values() if fi.parent is None for ci in ctx.instances(fi) for p in ctx.paths(fi, ci, depth=0)[0] for e in p.calls() if e.fn is fi and q.metric_of(e) and q.metric_of(e)[0] == "RETRY_TOTAL"))
        rep.ob("R-COUNTER", "retry worker: RETRY_TOTAL is counted at the re-submission", False, "no hand-over path of the retry worker tests the attempt number and counts RETRY_TOTAL (incremented in: %s): a retry that is scheduled but cancelled or shut down before it is re-submitted would be counted although it never happened" % (elsewhere or "nowhere"), where_of(layer.loop))
    else:
        rep.require(kinds == {True, False}, "retry worker: expected hand-over paths for first attempt and retry (found %s)" % sorted(kinds))
    # TIMEOUT: on the timeout worker's paths, per cancel() of an overdue job's future
    tox = prog.cls("TimeoutExecutor")
    tl = roles.Layer(ctx, tox)
    rep.require(tl.loop is not None, "TimeoutExecutor worker thread not found")
    ps, it = ctx.paths(tl.loop, None, depth=6, inline=roles.std_inline)
    ncs = 0
    for p in ps:
        cs = [e for e in p.calls() if q.call_name(e) == "cancel" and e.d["callee"] is None]
        ti = [e for e in p.calls() if q.metric_of(e) and q.metric_of(e)[0] == "TIMEOUT"]
        if not cs:
            rep.ob("R-COUNTER", "timeout worker: TIMEOUT only after a cancel", not ti, "TIMEOUT counted on a path without a cancel()", where_of(tl.loop), trace_of(p))
            continue
        ncs += 1
        truths = [q.truth_of(p, q.result_of(c)) for c in cs]
        rep.ob("R-COUNTER", "timeout worker: the result of cancel() decides", all(t is not None for t in truths), "the result of cancel() is not tested", where_of(cs[0].fn, cs[0].node), trace_of(p, cs[0].seq))
        if all(t is not None for t in truths):
            want = len([t for t in truths if t])
            rep.ob("R-COUNTER", "timeout worker: TIMEOUT iff cancel succeeded [%s]" % truths, len(ti) == want, "cancel() %s but TIMEOUT inc x%d" % (truths, len(ti)), where_of(cs[0].fn, cs[0].node), trace_of(p, cs[0].seq))
    rep.require(ncs >= 1, "timeout worker: cancel of overdue jobs not found")
    # SHUTDOWN_CANCEL
    cs_cls = prog.cls("CancelOnShutdownExecutor")
    sh = cs_cls.methods["shutdown"]
    own = set(m.key for m in cs_cls.methods.values())
    ps, it = ctx.paths(sh, cs_cls, depth=4, inline=lambda callee, ev, path: True if callee.key in own else None)
    seen = 0
    for p in ps:
        cs = [e for e in p.calls() if q.call_name(e) == "cancel" and isinstance(q.recv(e), tuple) and q.recv(e)[0] == "elem"]
        sc = [e for e in p.calls() if q.metric_of(e) and q.metric_of(e)[0] == "SHUTDOWN_CANCEL"]
        if not cs:
            rep.ob("R-COUNTER", "CancelOnShutdownExecutor.shutdown: SHUTDOWN_CANCEL only after a cancel", not sc, "counter incremented without a cancel", where_of(sh), trace_of(p))
            continue
        seen += 1
        truth = q.truth_of(p, q.result_of(cs[0]))
        rep.require(truth is not None, "CancelOnShutdownExecutor.shutdown: the result of cancel() is not tested")
        rep.ob("R-COUNTER", "CancelOnShutdownExecutor.shutdown: SHUTDOWN_CANCEL iff cancel succeeded [%s]" % truth, len(sc) == (1 if truth else 0), "cancel() %s but SHUTDOWN_CANCEL inc x%d" % (truth, len(sc)), where_of(sh), trace_of(p))
    rep.require(seen >= 2, "CancelOnShutdownExecutor.shutdown: cancel loop not found")
    from .c10 import discard_order_rule
    discard_order_rule(ctx, rep, "R-COUNTER")
    # POLL_TOTAL / POLL_ERROR: on the poll worker's paths, per call of the poll function
    pex = prog.cls("PollExecutor")
    pl = roles.Layer(ctx, pex)
    rep.require(pl.loop is not None, "PollExecutor worker thread not found")
    PF = roles.ctor_param_fields(ctx, pex, "poll_fn")
    ps, it = ctx.paths(pl.loop, None, depth=6, inline=roles.std_inline)
    kinds = set()
    for p in ps:
        pt = [e for e in p.calls() if q.metric_of(e) and q.metric_of(e)[0] == "POLL_TOTAL"]
        pe = [e for e in p.calls() if q.metric_of(e) and q.metric_of(e)[0] == "POLL_ERROR"]
        ucalls = [e for e in p.calls() if e.d.get("user") and isinstance(e.d["func"], tuple) and e.d["func"][0] == "attr" and e.d["func"][2] in PF]
        if not ucalls:
            rep.ob("R-COUNTER", "poll worker: POLL_TOTAL / POLL_ERROR only with a poll call", not pt and not pe, "poll counters change on a path that does not call the poll function", where_of(pl.loop), trace_of(p))
            continue
        u = ucalls[0]
        failed = any(r.node is u.node and isinstance(r.d, tuple) and len(r.d) > 2 and isinstance(r.d[2], tuple) and r.d[2][0] == "from" for r in p.evs("raise"))
        kinds.add(failed)
        tag = "poll_fn raised" if failed else "poll_fn returned"
        rep.ob("R-COUNTER", "poll worker: POLL_TOTAL once per poll call [%s]" % tag, len(pt) == len(ucalls), "POLL_TOTAL inc x%d on a path that called the poll function %d times (status %s)" % (len(pt), len(ucalls), p.status), where_of(u.fn, u.node), trace_of(p, u.seq))
        rep.ob("R-COUNTER", "poll worker: POLL_ERROR iff poll_fn raised [%s]" % tag, len(pe) == (1 if failed else 0), "poll function %s but POLL_ERROR inc x%d" % ("raised" if failed else "returned", len(pe)), where_of(u.fn, u.node), trace_of(p, u.seq))
    rep.require(kinds == {True, False}, "poll worker: expected a returning and a raising poll path")


# -------------------------------------------------------------------------- tracked
def tracked(ctx, rep):
    prog = ctx.prog
    tf = prog.fn("metrics:track_future")
    n = 0
    sites = 0
    # executors
    for ci in ctx.executor_classes():
        if not ctx.gate_field(ci) or ci.name == "AsyncioExecutor":
            continue
        for c in ci.mro():
            if not isinstance(c, ClassInfo):
                continue
            for name, m in c.methods.items():
                if not (name == "submit" or name.startswith("submit_")) or ci.lookup(name)[1] is not m:
                    continue
                ps, it = ctx.paths(m, ci, inline=_no_track_inline)
                for p in ps:
                    if p.status != "return":
                        continue
                    tr = [e for e in p.calls() if e.d["callee"] is tf]
                    if ci.name == "CancelOnShutdownExecutor":
                        continue  # returns the delegate's own (already tracked) future
                    n += 1
                    ok = any(e.d["args"][:1] == (p.value,) or p.value == ("call", e.d["func"], e.d["args"], e.d["kwargs"], None) for e in tr)
                    rep.ob("R-TRACKED", "%s.%s returns a tracked future" % (ci.name, name), ok, "returned %s was not passed to track_future" % fmt(p.value), where_of(m), trace_of(p))
    rep.count("tracked executor submit paths", n, 10)
    for fi in prog.functions.values():
        if fi.parent is None:
            ps, it = ctx.paths(fi, fi.owner, depth=0)
            if any(e.d["callee"] is tf and e.fn is fi for p in ps for e in p.calls()):
                sites += 1
    rep.count("functions calling track_future", sites, 15)


def _no_track_inline(callee, ev, path):
    if callee.qualname == "track_future":
        return False
    return None


# --------------------------------------------------------------------- own executors
def own_executors(ctx, rep):
    """executors constructed inside library functions (not by the user through Executors.*)"""
    prog = ctx.prog
    execs = set(c.key for c in ctx.executor_classes())
    # roots: the public future functions (more_executors.futures.__all__); private helpers are inlined, so the
    # construction is reported under the public function through which a user reaches it
    import ast as _ast
    pub = prog.modules.get("more_executors.futures")
    rep.require(pub is not None and pub.assigns.get("__all__"), "more_executors.futures.__all__ not found")
    names = [e.value for e in pub.assigns["__all__"][0].elts if isinstance(e, _ast.Constant)]
    roots = []
    for n in names:
        r = prog.resolve_symbol("more_executors.futures", n)
        if r[0] == "func":
            roots.append(r[1])
    rep.count("public future functions", len(roots), 14)
    rootset = set(f.key for f in roots)
    found = 0
    for fi in sorted(roots, key=lambda f: f.key):
        try:
            ps, it = ctx.paths(fi, None, depth=14, inline=_own_inline(fi, rootset))
        except AnalysisError:
            raise
        built = {}
        for p in ps:
            for e in p.calls():
                f = e.d["func"]
                if isinstance(f, tuple) and f[0] == "class" and f[1] in execs:
                    # constructed directly in this function's own call tree, not via another root
                    obj = None
                    touches = any(q.metric_of(x) and q.metric_of(x)[0] == "EXEC_INPROGRESS" and q.metric_of(x)[1] == "inc" and len(x.stack) > len(e.stack) for x in p.calls() if x.seq > e.seq)
                    shut = any(q.call_name(x) == "shutdown" for x in p.calls() if x.seq > e.seq)
                    stored = [s for s in p.evs("store") if s.d["target"][0] == "global"]
                    built.setdefault(f[1].split(":")[-1], []).append((touches, shut, stored, p, e))
        for cname, lst in sorted(built.items()):
            found += 1
            bad = [x for x in lst if x[0] and not x[1]]
            # module-lifetime: held strongly by a module global
            strong = all(any(not _is_weak(s.d["value"]) for s in x[2]) for x in lst) and all(x[2] for x in lst)
            key = "%s constructs %s per call" % (fi.qualname, cname)
            ok = not bad or strong
            x = (bad or lst)[0]
            rep.ob("R-OWNEXEC", key, ok, "%s() builds a %s (EXEC_INPROGRESS +1) that is never shut down and not kept for the module's lifetime: its exec_inprogress gauge child grows by one per call" % (fi.name, cname), where_of(x[4].fn, x[4].node))
    rep.count("library-internal executor construction sites", found, 4)


def _own_inline(root, rootset):
    def pol(callee, ev, path):
        # do not descend into other public roots: their constructions are reported under their own name
        if callee.key in rootset and callee is not root:
            return False
        if callee.qualname in ("track_future", "record_done"):
            return False
        if callee.owner is not None and callee.owner.name in ("_Future", "MapFuture", "FlatMapFuture") and callee.name not in ("__init__",):
            return False
        return None
    return pol


def _is_weak(v):
    return isinstance(v, tuple) and (v[0] == "extnew" and v[1] == "weakref" or (v[0] == "call" and "ref" in fmt(v[1])))
