"""C05 -- retry: exact attempt accounting, sequential attempts, exact back-off.

Decided:
  R-POLICY    eval_policy: stop flag first; should_retry exactly once per finished attempt with (attempt, delegate
              future); sleep_time only after a true answer, with the same arguments; any exception from the policy
              ends retrying ('no retry'), it never escapes
  R-CALLBACK  the delegate callback either re-queues (no resolution, so the future is not done and fires nothing
              before the final attempt) or copies exactly that attempt's outcome to the job's future
  R-JOB       job records: the first job has attempt 0 and is due now; the hand-over creates attempt+1 (the only
              place the number grows) bound to that hand-over's delegate future; the re-queued job keeps the
              attempt number and is due at (clock read after the attempt finished) + sleep_time; fn/args/kwargs/
              policy/future are copied from the same job
  R-NEXT      the job picked next never has an attempt in flight; among waiting jobs the earliest due one wins
  R-DUE       the submit loop hands a job over only when `when <= now`, else waits `when - now`
  R-TABLE     ExceptionRetryPolicy.should_retry: no exception -> False; attempt >= max_attempts -> False;
              isinstance of a configured base -> True; else False
  R-ARITH     ExceptionRetryPolicy.sleep_time == min(sleep * exponent ** (attempt - 1), max_sleep)
  R-WHOCALLS  a RetryFuture is resolved only through copy_future, called only from the no-retry branch of the
              callback and from the stop-retry branch of the loop
Not decided: 'exactly then' as a statement about time under contention; custom policies' own logic.
"""
from ..core import where_of, trace_of
from ..interp import fmt, contains, subterms
from ..model import AnalysisError
from .. import q
from .c03 import terminal_on
from .c07 import norm_cmp


def canon(t):
    """canonical arithmetic: products and min/max arguments are unordered"""
    if not isinstance(t, tuple):
        return t
    if t[0] == "bin" and t[1] == "*":
        fs = []
        for x in (t[2], t[3]):
            c = canon(x)
            if isinstance(c, tuple) and c and c[0] == "mul":
                fs.extend(c[1])
            else:
                fs.append(c)
        return ("mul", tuple(sorted(fs, key=repr)))
    if t[0] == "bin":
        return ("bin", t[1], canon(t[2]), canon(t[3]))
    if t[0] == "call" and t[1] in (("name", "min"), ("name", "max")) and not t[3]:
        return (t[1][1], tuple(sorted((canon(a) for a in t[2]), key=repr)))
    if t[0] == "call" and t[1] == ("name", "pow") and len(t[2]) == 2:
        return ("bin", "**", canon(t[2][0]), canon(t[2][1]))
    return t


def check(ctx, rep):
    prog = ctx.prog
    rep.rule("R-POLICY", "eval_policy tests the stop flag before any policy call; calls should_retry once with (job.attempt, job.delegate_future), sleep_time once and only after a true answer with the same arguments; every exception raised by the policy is caught and means 'no retry'")
    rep.rule("R-CALLBACK", "per delegate completion: the policy is evaluated at most once; a retry re-queues the job without touching the future; otherwise the attempt's outcome is copied to the job's future and the job is removed")
    rep.rule("R-JOB", "job records carry the same (policy, future, fn, args, kwargs) through hand-over and re-queue; attempt: 0 at submit, +1 (constant) at hand-over only, unchanged at re-queue; when: now at submit, None in flight, (fresh clock read) + sleep_time at re-queue")
    rep.rule("R-NEXT", "_get_next_job skips every job with an attempt in flight, returns a stop-flagged or overdue job at once, otherwise the waiting job with the smallest due time")
    rep.rule("R-DUE", "the submit loop calls _submit_now(job) only after `job.when <= now` was established on a fresh clock read, and otherwise waits exactly `job.when - now`")
    rep.rule("R-TABLE", "ExceptionRetryPolicy.should_retry decision table")
    rep.rule("R-ARITH", "ExceptionRetryPolicy.sleep_time has the closed form min(sleep * exponent ** (attempt - 1), max_sleep)")
    rep.rule("R-WHOCALLS", "copy_future (the only resolver of retry futures) is called from exactly the no-retry branch of the delegate callback and the stop-retry branch of the submit loop")
    rex = prog.cls("RetryExecutor")
    SELF = ("param", "self")

    # ------------------------------------------------------------------ eval_policy
    ep = prog.fn("retry:eval_policy")
    ps, it = ctx.paths(ep, None, depth=0)
    JOB = ("param", ep.params[0])
    want_args = (("attr", JOB, "attempt"), ("attr", JOB, "delegate_future"))
    kinds = set()
    for p in ps:
        sig = q.path_sig(p)
        sr = [e for e in p.calls() if q.call_name(e) == "should_retry"]
        st = [e for e in p.calls() if q.call_name(e) == "sleep_time"]
        flag = [e for e in p.evs("branch") if e.d[0] == ("attr", JOB, "stop_retry")]
        if p.status == "raise":
            rep.ob("R-POLICY", "eval_policy: an exception from the policy never escapes", False, "a raising %s leaves eval_policy by exception %s: the delegate callback dies, the future is never resolved and the job is never removed" % ("sleep_time" if st else "should_retry", fmt(p.value)), where_of(ep), trace_of(p))
            continue
        rep.ob("R-POLICY", "eval_policy: stop flag tested before any policy call", bool(flag) and all(flag[0].seq < e.seq for e in sr + st), "the policy is consulted before (or without) looking at stop_retry", where_of(ep), trace_of(p))
        if flag and flag[0].d[1] is True:
            kinds.add("stopped")
            rep.ob("R-POLICY", "eval_policy: stop flag set -> no retry, policy not consulted", not sr and not st and p.value == ("tuple", (("const", False), ("const", None))), "returns %s after %d policy calls" % (fmt(p.value), len(sr) + len(st)), where_of(ep), trace_of(p))
            continue
        caught = p.evs("catch")
        if caught:
            kinds.add("policy raised")
            rep.ob("R-POLICY", "eval_policy: a raising policy means no retry", p.value == ("tuple", (("const", False), ("const", None))) and caught[0].d["names"] in (["Exception"], None), "handler (%s) returns %s" % (caught[0].d["names"], fmt(p.value)), where_of(ep), trace_of(p))
            continue
        rep.ob("R-POLICY", "eval_policy: should_retry called exactly once with (attempt, delegate future)", len(sr) == 1 and tuple(sr[0].d["args"]) == want_args and q.recv(sr[0]) == ("attr", JOB, "policy"), "should_retry calls: %s" % [[fmt(a) for a in e.d["args"]] for e in sr], where_of(ep), trace_of(p))
        if len(sr) != 1:
            continue
        res = ("call", sr[0].d["func"], sr[0].d["args"], sr[0].d["kwargs"], None)
        ans = p.assume.get(res)
        if ans:
            kinds.add("retry")
            ok = len(st) == 1 and tuple(st[0].d["args"]) == want_args and st[0].seq > sr[0].seq and q.recv(st[0]) == ("attr", JOB, "policy")
            rep.ob("R-POLICY", "eval_policy: sleep_time once, after a true answer, same arguments", ok, "sleep_time calls: %s" % [[fmt(a) for a in e.d["args"]] for e in st], where_of(ep), trace_of(p))
            if ok:
                sres = ("call", st[0].d["func"], st[0].d["args"], st[0].d["kwargs"], None)
                rep.ob("R-POLICY", "eval_policy: returns (answer, delay)", p.value == ("tuple", (res, sres)), "returns %s" % fmt(p.value), where_of(ep))
        else:
            kinds.add("no retry")
            rep.ob("R-POLICY", "eval_policy: no sleep_time after a false answer", not st and isinstance(p.value, tuple) and p.value[0] == "tuple" and p.value[1][0] == res, "sleep_time x%d, returns %s" % (len(st), fmt(p.value)), where_of(ep), trace_of(p))
    rep.require({"stopped", "policy raised", "retry", "no retry"} <= kinds, "eval_policy: expected stopped / raising / retry / no-retry paths, found %s" % sorted(kinds))

    # --------------------------------------------------------------- delegate callback
    cb = rex.methods.get("_delegate_callback")
    ps, it = ctx.paths(cb, rex, depth=6)
    kinds = set()
    epf = ep
    for p in ps:
        evals = [e for e in p.calls() if e.d["callee"] is epf]
        rt = [e for e in p.calls() if e.d["callee"] is not None and e.d["callee"].name == "_retry"]
        cf = [e for e in p.calls() if e.d["callee"] is not None and e.d["callee"].name == "copy_future"]
        pops = [e for e in p.calls() if q.call_name(e) == "pop" and isinstance(q.recv(e), tuple) and q.recv(e)[0] == "attr" and q.recv(e)[2] == "_jobs"]
        if not evals:
            continue
        job = evals[0].d["args"][0]
        D = ("attr", job, "future")
        rep.ob("R-CALLBACK", "_delegate_callback: policy evaluated once per completion", len(evals) == 1, "eval_policy x%d" % len(evals), where_of(cb), trace_of(p))
        terms = [e for e in p.calls() if terminal_on(e, D, it, p)]
        if p.status == "raise":
            rep.ob("R-CALLBACK", "_delegate_callback does not exit by exception", False, "raises %s" % fmt(p.value), where_of(cb), trace_of(p))
            continue
        if rt:
            kinds.add("retry")
            ok = len(rt) == 1 and rt[0].d["args"][0] == job and not terms and not cf
            rep.ob("R-CALLBACK", "_delegate_callback: a retry re-queues the same job and leaves the future pending", ok, "on the retry branch: _retry x%d, future resolved: %s" % (len(rt), bool(terms or cf)), where_of(cb), trace_of(p))
            # the delay handed to _retry is the policy's answer
            sl = [e for e in p.calls() if q.call_name(e) == "sleep_time"]
            if sl and len(rt[0].d["args"]) > 1:
                sres = ("call", sl[0].d["func"], sl[0].d["args"], sl[0].d["kwargs"], None)
                rep.ob("R-CALLBACK", "_delegate_callback: the delay is the policy's sleep_time", rt[0].d["args"][1] == sres, "_retry receives %s" % fmt(rt[0].d["args"][1]), where_of(cb))
        else:
            kinds.add("final")
            ok = len(cf) == 1 and cf[0].d["args"] == (("param", cb.params[1]), D)
            rep.ob("R-CALLBACK", "_delegate_callback: the final attempt's outcome is copied to the job's future", ok, "copy_future calls: %s" % [[fmt(a) for a in e.d["args"]] for e in cf], where_of(cb), trace_of(p))
            pj = [e for e in p.calls() if e.d["callee"] is not None and e.d["callee"].name == "_pop_job"]
            rep.ob("R-CALLBACK", "_delegate_callback: the finished job is removed after the future is resolved", len(pj) == 1 and bool(cf) and pj[0].seq > cf[0].seq and pj[0].d["args"][:1] == (job,) and all(x.seq > cf[0].seq for x in pops), "_pop_job calls: %d" % len(pj), where_of(cb), trace_of(p))
    rep.require(kinds == {"retry", "final"}, "_delegate_callback: expected retry and final paths")
    # copy_future: value -> tolerant set_result(f1.result()); exception -> copied from f1
    cpf = prog.fn("retry:copy_future")
    ps, it = ctx.paths(cpf, None, depth=1)
    F1, F2 = ("param", cpf.params[0]), ("param", cpf.params[1])
    for p in ps:
        if p.status == "raise":
            continue
        failed = None
        for t, v in p.branch_atoms():
            if isinstance(t, tuple) and t[0] == "call" and t[1] == ("attr", F1, "exception"):
                failed = v if failed is None else failed
            if isinstance(t, tuple) and t[0] == "cmp" and t[1] == "is" and t[2][:2] == ("call", ("attr", F1, "exception")) and t[3] == ("const", None):
                failed = (not v) if failed is None else failed
        rep.require(failed is not None, "copy_future: test of f1.exception() not found")
        if failed:
            ok = any(c.d["callee"] is not None and c.d["callee"].name == "copy_future_exception" and c.d["args"] == (F1, F2) for c in p.calls()) and not [c for c in p.calls() if q.call_name(c) == "set_result"]
            rep.ob("R-CALLBACK", "copy_future: a failed attempt's exception is copied from the delegate", ok, "", where_of(cpf), trace_of(p))
        else:
            sr = [c for c in p.calls() if q.call_name(c) == "set_result" and q.recv(c) == F2]
            ok = len(sr) == 1 and sr[0].d["args"][0][:2] == ("call", ("attr", F1, "result"))
            rep.ob("R-CALLBACK", "copy_future: a successful attempt's value becomes the result", ok, "", where_of(cpf), trace_of(p))

    # -------------------------------------------------------------------- job records
    RJ = prog.cls("RetryJob")
    fields = ("policy", "delegate_future", "future", "attempt", "when", "fn", "args", "kwargs")

    def job_fields(p, obj):
        return dict((f, p.heap.get(("attr", obj, f))) for f in fields + ("old_delegate", "stop_retry"))

    sr_ = rex.methods.get("submit_retry")
    ps, it = ctx.paths(sr_, rex, depth=1, inline=_job_init_only)
    for p in ps:
        if p.status != "return":
            continue
        mk = [e for e in p.calls() if e.d["func"] == ("class", RJ.key)]
        rep.require(len(mk) == 1, "submit_retry: expected one RetryJob per path")
        obj = [k[1] for k in p.heap if k[0] == "attr" and k[2] == "attempt" and k[1][0] == "new"]
        jf = job_fields(p, obj[0]) if obj else {}
        ok = jf.get("attempt") == ("const", 0) and jf.get("delegate_future") == ("const", None) and isinstance(jf.get("when"), tuple) and q.term_name(jf["when"][1]) == "monotonic" and jf.get("policy") == ("param", sr_.params[1]) and jf.get("fn") == ("param", sr_.params[2]) and jf.get("args") == ("seq", (), ("param", sr_.vararg), 0) and jf.get("kwargs") == ("kw", (), ("param", sr_.kwarg))
        rep.ob("R-JOB", "submit_retry: first job (attempt 0, due now, caller's fn/args/kwargs/policy)", ok, "job fields: %s" % dict((k, fmt(v)) for k, v in jf.items() if v is not None), where_of(sr_, mk[0].node))
        futv = jf.get("future")
        rep.ob("R-JOB", "submit_retry: the job's future is the one returned", futv is not None and p.value == futv, "returns %s, job holds %s" % (fmt(p.value), fmt(futv) if futv else None), where_of(sr_))
    sn = rex.methods.get("_submit_now")
    ps, it = ctx.paths(sn, rex, depth=2, inline=_job_init_only)
    J = ("param", sn.params[1])
    nh = 0
    for p in ps:
        subs = [e for e in p.calls() if q.call_name(e) == "submit" and q.recv(e) == ("attr", SELF, "_delegate")]
        if not subs:
            continue
        nh += 1
        rep.ob("R-JOB", "_submit_now: exactly one delegate submit per hand-over, with the job's fn/args/kwargs", len(subs) == 1 and subs[0].d["args"] == (("attr", J, "fn"), ("star", ("attr", J, "args"))) and tuple(subs[0].d["kwargs"]) == ((None, ("attr", J, "kwargs")),), "submit(%s; %s)" % ([fmt(a) for a in subs[0].d["args"]], [(k, fmt(v)) for k, v in subs[0].d["kwargs"]]), where_of(sn, subs[0].node), trace_of(p))
        dres = [v for k, v in p.heap.items() if k == ("attr", ("attr", J, "future"), "delegate_future")]
        obj = [k[1] for k in p.heap if k[0] == "attr" and k[2] == "attempt" and k[1][0] == "new"]
        jf = job_fields(p, obj[0]) if obj else {}
        dfut = jf.get("delegate_future")
        ok = isinstance(dfut, tuple) and dfut[:2] == ("call", subs[0].d["func"]) and jf.get("attempt") == ("bin", "+", ("attr", J, "attempt"), ("const", 1)) and jf.get("when") == ("const", None)
        ok = ok and all(jf.get(f) == ("attr", J, f) for f in ("policy", "future", "fn", "args", "kwargs"))
        rep.ob("R-JOB", "_submit_now: in-flight job = same job, attempt + 1, this hand-over's delegate future", ok, "new job fields: %s" % dict((k, fmt(v)) for k, v in jf.items() if v is not None), where_of(sn), trace_of(p))
        rep.ob("R-JOB", "_submit_now: the future's delegate link is this hand-over's delegate future", dres and dres[0] == dfut, "", where_of(sn))
        regs = [e for e in p.calls() if q.call_name(e) == "add_done_callback" and q.recv(e) == dfut]
        rep.ob("R-JOB", "_submit_now: the completion callback is registered exactly once on that delegate future", len(regs) == 1 and regs[0].d["args"] == (("attr", SELF, "_delegate_callback"),), "registrations: %d" % len(regs), where_of(sn), trace_of(p))
        apps = [e for e in p.calls() if q.call_name(e) == "append" and q.recv(e) == ("attr", SELF, "_jobs")]
        rep.ob("R-JOB", "_submit_now: the callback is registered after the in-flight job is in the list", bool(apps) and bool(regs) and apps[0].seq < regs[0].seq, "the callback could run before its job exists", where_of(sn))
    rep.require(nh >= 2, "_submit_now: hand-over paths not found")
    rt = rex.methods.get("_retry")
    ps, it = ctx.paths(rt, rex, depth=2, inline=_job_init_only)
    J = ("param", rt.params[1])
    S = ("param", rt.params[2])
    for p in ps:
        if p.status != "return":
            continue
        obj = [k[1] for k in p.heap if k[0] == "attr" and k[2] == "attempt" and k[1][0] == "new"]
        rep.require(obj, "_retry: new job not found")
        jf = job_fields(p, obj[0])
        w = jf.get("when")
        clock_ok = isinstance(w, tuple) and w[0] == "bin" and w[1] == "+" and ((q.term_name(w[2][1]) == "monotonic" and w[2][0] == "call" and w[3] == S) or (w[3][0] == "call" and q.term_name(w[3][1]) == "monotonic" and w[2] == S))
        rep.ob("R-JOB", "_retry: next attempt is due at (clock read now, after the attempt finished) + sleep_time", clock_ok, "when = %s" % (fmt(w) if w else None), where_of(rt), trace_of(p))
        ok = jf.get("attempt") == ("attr", J, "attempt") and jf.get("delegate_future") == ("const", None) and all(jf.get(f) == ("attr", J, f) for f in ("policy", "future", "fn", "args", "kwargs")) and jf.get("old_delegate") == ("attr", J, "delegate_future")
        rep.ob("R-JOB", "_retry: re-queued job = same job, same attempt number, no delegate, old delegate kept", ok, "new job fields: %s" % dict((k, fmt(v)) for k, v in jf.items() if v is not None), where_of(rt), trace_of(p))
        rep.ob("R-JOB", "_retry: the stop flag is inherited", jf.get("stop_retry") == ("attr", J, "stop_retry"), "stop_retry = %s" % (fmt(jf["stop_retry"]) if jf.get("stop_retry") else None), where_of(rt))

    # ------------------------------------------------------------------ next job
    gn = rex.methods.get("_get_next_job")
    ps, it = ctx.paths(gn, rex, depth=0, unroll=2)
    nret = 0
    for p in ps:
        if p.status != "return" or p.value == ("const", None):
            continue
        v = p.value
        if p.assume.get(v) is False:
            continue  # a job object is never falsy
        nret += 1
        atoms = p.branch_atoms()
        inflight = [tv for t, tv in atoms if t == ("attr", v, "delegate_future")]
        rep.ob("R-NEXT", "_get_next_job never returns a job with an attempt in flight", inflight == [False], "returned %s with delegate_future tested %s" % (fmt(v), inflight), where_of(gn), trace_of(p))
        # if two waiting jobs were compared, the returned one is not later than the other
        for t, tv in atoms:
            n = norm_cmp(t, tv)
            if n and n[0][0] == "attr" and n[2][0] == "attr" and n[0][2] == "when" and n[2][2] == "when" and n[0][1] != n[2][1]:
                early = n[0][1]
                rep.ob("R-NEXT", "_get_next_job prefers the earlier due time", (v == early) or (n[1] == "<=" and v == n[2][1]) and False or v == early, "established %s.when %s %s.when but returns %s" % (fmt(n[0][1]), n[1], fmt(n[2][1]), fmt(v)), where_of(gn), trace_of(p))
    rep.require(nret >= 6, "_get_next_job: returning paths not found")

    # ------------------------------------------------------------------ submit loop
    lp = prog.fn("retry:_submit_loop")
    ps, it = ctx.paths(lp, None, depth=1, inline=_loop_inline)
    nsub = nwait = 0
    for p in ps:
        sn_calls = [e for e in p.calls() if e.d["callee"] is sn]
        waits = [e for e in p.calls() if e.d["callee"] is not None and e.d["callee"].name == "_submit_wait" and len(e.d["args"]) > 1]
        for e in sn_calls:
            nsub += 1
            job = e.d["args"][0]
            due = None
            for b in p.evs("branch"):
                n = norm_cmp(b.d[0], b.d[1])
                if n and b.seq < e.seq and n[0] == ("attr", job, "when") and n[1] == "<=" and isinstance(n[2], tuple) and n[2][0] == "call" and q.term_name(n[2][1]) == "monotonic":
                    due = b
            rep.ob("R-DUE", "_submit_loop: hand-over only when the job is due", due is not None, "_submit_now(job) reached without establishing job.when <= now", where_of(lp, e.node), trace_of(p, e.seq))
            stopped = [b for b in p.evs("branch") if b.d[0] == ("attr", job, "stop_retry") and b.seq < e.seq]
            rep.ob("R-DUE", "_submit_loop: a stop-flagged job is never handed over", bool(stopped) and stopped[0].d[1] is False, "", where_of(lp, e.node), trace_of(p, e.seq))
        for e in waits:
            nwait += 1
            d = e.d["args"][1]
            ok = isinstance(d, tuple) and d[0] == "bin" and d[1] == "-" and d[2][0] == "attr" and d[2][2] == "when" and d[3][0] == "call" and q.term_name(d[3][1]) == "monotonic"
            notdue = [b for b in p.evs("branch") if b.seq < e.seq and norm_cmp(b.d[0], b.d[1]) and norm_cmp(b.d[0], b.d[1])[2] == d[2] and norm_cmp(b.d[0], b.d[1])[1] == "<" and norm_cmp(b.d[0], b.d[1])[0] == d[3]] if ok else []
            rep.ob("R-DUE", "_submit_loop: otherwise wait exactly until the job is due", ok and bool(notdue), "timed wait of %s" % fmt(d), where_of(lp, e.node), trace_of(p, e.seq))
    rep.require(nsub >= 1 and nwait >= 1, "_submit_loop: hand-over / timed wait not found")

    # ------------------------------------------------------------------ policy table
    pol = prog.cls("ExceptionRetryPolicy")
    srm = pol.methods.get("should_retry")
    ps, it = ctx.paths(srm, pol, depth=0)
    A = ("param", srm.params[1])
    FUT = ("param", srm.params[2])
    rows = set()
    for p in ps:
        if p.status != "return":
            rep.ob("R-TABLE", "should_retry returns on every path", False, "status %s" % p.status, where_of(srm), trace_of(p))
            continue
        exc_t = None
        lim = None
        inst = None
        for b in p.evs("branch"):
            t, v = b.d
            if isinstance(t, tuple) and t[0] == "call" and t[1] == ("attr", FUT, "exception"):
                exc_t = v
            elif isinstance(t, tuple) and t[0] == "cmp" and t[1] == "is" and t[2][:2] == ("call", ("attr", FUT, "exception")):
                exc_t = not v
            n = norm_cmp(t, v)
            if n and (n[0] == A or n[2] == A):
                lim = n
            if isinstance(t, tuple) and t[0] == "call" and t[1] == ("name", "isinstance"):
                inst = v if inst is None or v else inst
        if exc_t is False:
            rows.add("no exception")
            rep.ob("R-TABLE", "should_retry: no exception -> False", p.value == ("const", False) and lim is None, "returns %s" % fmt(p.value), where_of(srm), trace_of(p))
            continue
        rep.require(lim is not None, "should_retry: comparison of attempt with the maximum not found")
        maxf = lim[2] if lim[0] == A else lim[0]
        rep.ob("R-TABLE", "should_retry: the limit is the configured max_attempts", maxf == ("attr", ("param", "self"), "_max_attempts"), "attempt compared with %s" % fmt(maxf), where_of(srm))
        if lim[2] == A and lim[1] == "<=":  # max <= attempt
            rows.add("exhausted")
            rep.ob("R-TABLE", "should_retry: attempt >= max_attempts -> False", p.value == ("const", False), "returns %s" % fmt(p.value), where_of(srm), trace_of(p))
        elif lim[0] == A and lim[1] == "<":  # attempt < max
            if inst:
                rows.add("retryable")
                rep.ob("R-TABLE", "should_retry: exception of a configured base -> True", p.value == ("const", True), "returns %s" % fmt(p.value), where_of(srm), trace_of(p))
            else:
                rows.add("other exception")
                rep.ob("R-TABLE", "should_retry: exception outside the configured bases -> False", p.value == ("const", False), "returns %s" % fmt(p.value), where_of(srm), trace_of(p))
        else:
            rep.ob("R-TABLE", "should_retry: attempts are exhausted exactly when attempt >= max_attempts", False, "the code establishes `%s %s %s` (off by one: max_attempts attempts must run, not more, not fewer)" % (fmt(lim[0]), lim[1], fmt(lim[2])), where_of(srm), trace_of(p))
            rows.add("exhausted")
            rows.add("retryable")
            rows.add("other exception")
    rep.ob("R-TABLE", "should_retry: all four rows present", rows >= {"no exception", "exhausted", "retryable", "other exception"}, "rows found: %s" % sorted(rows), where_of(srm))
    slm = pol.methods.get("sleep_time")
    ps, it = ctx.paths(slm, pol, depth=0)
    A = ("param", slm.params[1])
    S_ = lambda f: ("attr", ("param", "self"), f)  # noqa: E731
    want = canon(("call", ("name", "min"), (("bin", "*", S_("_sleep"), ("bin", "**", S_("_exponent"), ("bin", "-", A, ("const", 1)))), S_("_max_sleep")), (), None))
    for p in ps:
        rep.ob("R-ARITH", "sleep_time closed form", p.status == "return" and canon(p.value) == want, "returns %s, expected min(sleep * exponent ** (attempt - 1), max_sleep)" % fmt(p.value), where_of(slm))
    init = pol.methods.get("__init__")
    ps, it = ctx.paths(init, pol, depth=0)
    for p in ps:
        for f, k in (("_max_attempts", "max_attempts"), ("_exponent", "exponent"), ("_sleep", "sleep"), ("_max_sleep", "max_sleep")):
            v = [e.d["value"] for e in p.evs("store") if e.d["target"] == S_(f)]
            ok = bool(v) and isinstance(v[0], tuple) and v[0][0] == "call" and v[0][2][:1] == (("const", k),)
            rep.ob("R-ARITH", "ExceptionRetryPolicy stores %s from the keyword of the same name" % k, ok, "%s = %s" % (f, fmt(v[0]) if v else None), where_of(init))

    # ------------------------------------------------------------------ who resolves retry futures
    callers = ctx.callgraph()
    cs = sorted(set(k for k, _ in callers.get(cpf.key, set())))
    allowed = {cb.key, lp.key}
    rep.ob("R-WHOCALLS", "copy_future is called only from the delegate callback and the submit loop", set(cs) <= allowed and len(cs) == 2, "callers: %s" % [c.split(":")[-1] for c in cs], where_of(cpf))
    rtc = sorted(set(k for k, _ in callers.get(rt.key, set())))
    rep.ob("R-WHOCALLS", "_retry is called only from the delegate callback", rtc == [cb.key], "callers: %s" % [c.split(":")[-1] for c in rtc], where_of(rt))


def _job_init_only(callee, ev, path):
    if callee.name == "__init__" and callee.owner is not None and callee.owner.name == "RetryJob":
        return True
    if callee.name in ("_append_job", "_pop_job"):
        return True
    return False


def _loop_inline(callee, ev, path):
    return callee.name in ("_get_next_job", "is_shutdown")
