"""C05 -- retry: exact attempt accounting, sequential attempts, exact back-off.

All rules are evaluated on entry points with a stable identity -- the public submit methods, the worker loop
(the Thread target), the completion callback (the method the executor registers on the delegate's future) and the
public policy classes -- with every private helper inlined.  No private helper is referred to by name.

Decided:
  R-POLICY    per completion: the stop flag is looked at before any policy call; should_retry exactly once with
              (the job's attempt number, the delegate future); sleep_time once, only after a true answer, with
              the same arguments; an exception from the policy means 'no retry' and never leaves the callback
  R-CALLBACK  a retry re-queues a record for the same future and leaves the future untouched (not done, no
              callback before the final attempt); otherwise exactly that attempt's outcome is copied to the
              job's future and the job is removed afterwards
  R-JOB       records: first job attempt 0 / due now / caller's fn, args, kwargs, policy; the hand-over creates
              attempt + 1 (the only place the number grows) bound to that hand-over's delegate future; the
              re-queued record keeps the attempt number and is due at (clock read after the attempt finished)
              + sleep_time; fn / args / kwargs / policy / future are copied from the same job
  R-FIND      every walk over the job list is under the executor lock or over a copy (the finished attempt's job
              is always found, so the policy is consulted and the future resolved)
  R-NEXT      the job picked by the loop never has an attempt in flight; among waiting jobs the earliest wins
  R-DUE       hand-over only after `when <= now` was established on a fresh clock read, else a wait of `when - now`
  R-TABLE     ExceptionRetryPolicy.should_retry decision table
  R-ARITH     ExceptionRetryPolicy.sleep_time == min(sleep * exponent ** (attempt - 1), max_sleep)
  R-WHOCALLS  a retry future is resolved only on the final branch of the callback and on the stop-retry branch of
              the loop
Not decided: 'exactly then' as a statement about time under contention; custom policies' own logic.
"""
from ..core import where_of, trace_of
from ..interp import fmt, contains, subterms
from ..model import AnalysisError, ClassInfo
from .. import q
from ..roles import Layer, std_inline, bound, job_fields, container_of
from .c03 import terminal_on
from .c07 import norm_cmp

SELF = ("param", "self")
DEPTH = 8


def canon(t):
    """canonical arithmetic: products and min/max arguments are unordered"""
    if not isinstance(t, tuple):
        return t
    if t[0] == "bin" and t[1] == "*":
        fs = []
        for x in (t[2], t[3]):
            c = canon(x)
            if isinstance(c, tuple) and c and c[0] == "mul":
                fs.extend(c[1])
            else:
                fs.append(c)
        return ("mul", tuple(sorted(fs, key=repr)))
    if t[0] == "bin":
        return ("bin", t[1], canon(t[2]), canon(t[3]))
    if t[0] == "call" and t[1] in (("name", "min"), ("name", "max")) and not t[3]:
        return (t[1][1], tuple(sorted((canon(a) for a in t[2]), key=repr)))
    if t[0] == "call" and t[1] == ("name", "pow") and len(t[2]) == 2:
        return ("bin", "**", canon(t[2][0]), canon(t[2][1]))
    return t


def is_clock(t):
    return isinstance(t, tuple) and t[0] == "call" and q.term_name(t[1]) == "monotonic" and not t[2]


def discover(ctx):
    """roles of the retry layer"""
    prog = ctx.prog
    rex = prog.cls("RetryExecutor")
    lay = Layer(ctx, rex)
    if lay.loop is None or lay.callback is None:
        raise AnalysisError("RetryExecutor: worker loop / completion callback not found (loop=%s, callback=%s)" % (lay.loop, lay.callback))
    # the job list and the record class: what the public submit appends
    sub = [m for m in lay.submit_methods if m.name != "submit"] or lay.submit_methods
    jobs_field = rec_cls = None
    for m in lay.submit_methods:
        ps, it = ctx.paths(m, rex, depth=4, inline=std_inline)
        for p in ps:
            for e in p.calls():
                r = q.recv(e)
                if q.call_name(e) in ("append", "add", "insert", "appendleft") and isinstance(r, tuple) and r[0] == "attr" and r[1] == SELF and e.d["args"]:
                    t = it.type_of(e.d["args"][-1], p)
                    c = ctx.types.cls_of(t) if t else None
                    if c is not None:
                        jobs_field, rec_cls = r[2], c
    if jobs_field is None:
        raise AnalysisError("RetryExecutor.submit: enqueue of a job record not found")
    lay.jobs_field = jobs_field
    lay.rec_cls = rec_cls
    # record field roles, from the first job built by submit:  which field holds the future returned, etc.
    lay.roles = {}
    for m in lay.submit_methods:
        if "fn" not in m.params:
            continue
        ps, it = ctx.paths(m, rex, depth=4, inline=std_inline)
        for p in ps:
            if p.status != "return":
                continue
            objs = [k for k, t in p.types.items() if t == "C:" + rec_cls.key and k[0] == "new"]
            for obj in objs:
                jf = job_fields(p, obj)
                for f, v in jf.items():
                    if v == p.value:
                        lay.roles["future"] = f
                    elif v == ("param", "fn"):
                        lay.roles["fn"] = f
                    elif v == ("seq", (), ("param", m.vararg), 0):
                        lay.roles["args"] = f
                    elif v == ("kw", (), ("param", m.kwarg)):
                        lay.roles["kwargs"] = f
                    elif v == ("param", m.params[1]) and m.params[1] != "fn":
                        lay.roles["policy"] = f
                    elif is_clock(v):
                        lay.roles["when"] = f
                    elif v == ("const", 0) and type(v[1]) is int:
                        lay.roles["attempt"] = f
                lay.first_job = (m, obj)
    need = {"future", "fn", "args", "kwargs", "policy", "when", "attempt"}
    if not need <= set(lay.roles):
        raise AnalysisError("RetryExecutor: record fields not identified: missing %s" % sorted(need - set(lay.roles)))
    return lay


def check(ctx, rep):
    prog = ctx.prog
    rep.rule("R-POLICY", "on every path of the completion callback: the stop flag is tested before any policy call; should_retry is called at most once, with (job attempt, delegate future); sleep_time once and only after a true answer with the same arguments; no path leaves the callback by an exception raised in the policy")
    rep.rule("R-CALLBACK", "per completion: a retry appends a record for the same future and does not touch the future; otherwise the completed delegate's outcome is copied to the job's future and the job is removed after that")
    rep.rule("R-JOB", "records carry the same (policy, future, fn, args, kwargs); attempt: 0 at submit, +1 (constant) at hand-over only, unchanged at re-queue; due time: now at submit, (fresh clock read) + sleep_time at re-queue; the in-flight record holds the delegate future of its own hand-over")
    rep.rule("R-FIND", "the job of a finished attempt is always found: every walk over the job list happens with the executor lock held or over a copy of the list (an iterator over the live list skips an entry when another thread removes one)")
    rep.rule("R-NEXT", "the job selected by the loop has no attempt in flight; a stop-flagged or overdue job is taken at once, otherwise the waiting job with the smallest due time")
    rep.rule("R-DUE", "the loop hands a job over only after `job.when <= now` on a fresh clock read, and otherwise waits exactly `job.when - now`")
    rep.rule("R-TABLE", "ExceptionRetryPolicy.should_retry decision table")
    rep.rule("R-ARITH", "ExceptionRetryPolicy.sleep_time has the closed form min(sleep * exponent ** (attempt - 1), max_sleep)")
    rep.rule("R-WHOCALLS", "the future of a job is resolved (result / exception set) only on the no-retry branch of the completion callback and on the stop-retry branch of the worker loop")
    from .. import roles as _roles
    nwalk = _roles.iteration_rule(ctx, rep, _roles.Queue(ctx, prog.cls("RetryExecutor")), "R-FIND")
    rep.count("walks over the retry job list", nwalk, 3)
    # "attempt k+1 starts exactly when its delay has elapsed" needs the worker to notice a re-queued job: producers
    # wake it, and it re-reads its job list between clear() and the next wait() (shared with C03)
    from .. import wake as _wake
    rep.rule("R-WAKE-P", "enabling mutations of the retry job list are followed by set() of the worker's event")
    rep.rule("R-WAKE-L", "the retry worker re-reads its job list between clear() of its event and the next wait()")
    _loops = [l for l in _wake.discover(ctx) if l.owner is prog.cls("RetryExecutor")]
    rep.require(len(_loops) == 1, "RetryExecutor: worker loop not found")
    _wake.check_loops(ctx, rep, _loops, components="state")
    _wake.check_producers(ctx, rep, _loops)
    lay = discover(ctx)
    rex = lay.cls
    R = lay.roles
    JF = lay.jobs_field
    JOBS = ("attr", SELF, JF)
    rep.note("retry roles: loop=%s callback=%s jobs=%s record=%s fields=%s" % (lay.loop.qualname, lay.callback.qualname, JF, lay.rec_cls.name, R))

    def rec_new(p):
        return [k for k, t in p.types.items() if t == "C:" + lay.rec_cls.key and k[0] == "new"]

    # ---------------------------------------------------------------- first job
    m0, _ = lay.first_job
    ps, it = ctx.paths(m0, rex, depth=4, inline=std_inline)
    for p in ps:
        if p.status != "return":
            continue
        objs = rec_new(p)
        rep.ob("R-JOB", "submit: exactly one job record per submission", len(objs) == 1, "%d records built" % len(objs), where_of(m0), trace_of(p))
        if len(objs) != 1:
            continue
        jf = job_fields(p, objs[0])
        inflight = [f for f, v in jf.items() if f not in R.values() and v == ("const", None)]
        ok = jf.get(R["attempt"]) == ("const", 0) and type(jf[R["attempt"]][1]) is int and is_clock(jf.get(R["when"])) and jf.get(R["fn"]) == ("param", "fn")
        rep.ob("R-JOB", "submit: first job is attempt 0, due now, with the caller's fn / args / kwargs / policy", ok, "fields: %s" % dict((k, fmt(v)) for k, v in jf.items()), where_of(m0), trace_of(p))
        apps = [e for e in p.calls() if q.call_name(e) in ("append", "add") and q.recv(e) == JOBS and e.d["args"] == (objs[0],)]
        rep.ob("R-JOB", "submit: the record is enqueued once", len(apps) == 1, "", where_of(m0))
    # which record field marks 'attempt in flight' (holds the delegate future) and which is the stop flag:
    # discovered on the hand-over / cancel paths below

    # ---------------------------------------------------------------- worker loop
    loop = lay.loop
    ps, it = ctx.paths(loop, loop.owner, depth=DEPTH, inline=std_inline, maxpaths=20000)
    X = None
    for p in ps:
        for b in p.evs("branch"):
            if it.type_of(b.d[0], p) == "C:" + rex.key:
                X = b.d[0]
    rep.require(X is not None, "retry worker loop: executor dereference not found")
    XJOBS = ("attr", X, JF)
    nsub = nwait = nstop = 0
    inflight_field = stop_field = None
    for p in ps:
        subs = [e for e in p.calls() if q.call_name(e) == "submit" and q.recv(e) == ("attr", X, "_delegate")]
        for e in subs:
            nsub += 1
            a = e.d["args"]
            job = a[0][1] if a and isinstance(a[0], tuple) and a[0][0] == "attr" and a[0][2] == R["fn"] else None
            rep.ob("R-JOB", "hand-over: submits the job's own (fn, *args, **kwargs)", job is not None and a == (("attr", job, R["fn"]), ("star", ("attr", job, R["args"]))) and tuple(e.d["kwargs"]) == ((None, ("attr", job, R["kwargs"])),), "submit(%s; %s)" % ([fmt(x) for x in a], [(k, fmt(v)) for k, v in e.d["kwargs"]]), where_of(e.fn, e.node), trace_of(p, e.seq))
            if job is None:
                continue
            dres = ("call", e.d["func"], e.d["args"], e.d["kwargs"], e.d.get("site"))
            others = [x for x in subs if x is not e]
            rep.ob("R-JOB", "hand-over: one delegate submit per iteration", not others, "%d delegate submits in one iteration" % len(subs), where_of(e.fn, e.node), trace_of(p))
            objs = [o for o in rec_new(p)]
            rep.ob("R-JOB", "hand-over: one in-flight record", len(objs) == 1, "%d records built" % len(objs), where_of(e.fn, e.node), trace_of(p))
            if len(objs) != 1:
                continue
            jf = job_fields(p, objs[0])
            holders = [f for f, v in jf.items() if isinstance(v, tuple) and v[:2] == ("call", e.d["func"])]
            rep.ob("R-JOB", "hand-over: the in-flight record holds this hand-over's delegate future", len(holders) == 1, "fields holding the delegate future: %s" % holders, where_of(e.fn, e.node), trace_of(p))
            if len(holders) == 1:
                inflight_field = holders[0]
            ok = jf.get(R["attempt"]) == ("bin", "+", ("attr", job, R["attempt"]), ("const", 1)) and all(jf.get(R[k]) == ("attr", job, R[k]) for k in ("policy", "future", "fn", "args", "kwargs"))
            rep.ob("R-JOB", "hand-over: same job, attempt + 1", ok, "new record: %s" % dict((k, fmt(v)) for k, v in jf.items()), where_of(e.fn, e.node), trace_of(p))
            apps = [x for x in p.calls() if q.call_name(x) in ("append", "add") and q.recv(x) == XJOBS and x.d["args"] == (objs[0],)]
            regs = [x for x in p.calls() if q.call_name(x) == "add_done_callback" and isinstance(q.recv(x), tuple) and q.recv(x)[:2] == ("call", e.d["func"])]
            okr = len(regs) == 1 and regs[0].d["args"] == (("attr", X, lay.callback.name),)
            rep.ob("R-JOB", "hand-over: the completion callback is registered exactly once on this delegate future", okr, "registrations: %s" % [[fmt(z) for z in x.d["args"]] for x in regs], where_of(e.fn, e.node), trace_of(p))
            rep.ob("R-JOB", "hand-over: the callback is registered after the in-flight record is in the list", len(apps) == 1 and bool(regs) and apps[0].seq < regs[0].seq, "the callback could run before its job exists", where_of(e.fn, e.node), trace_of(p))
            due = None
            for b in p.evs("branch"):
                n = norm_cmp(b.d[0], b.d[1])
                if n and b.seq < e.seq and n[0] == ("attr", job, R["when"]) and n[1] == "<=" and is_clock(n[2]):
                    due = b
            rep.ob("R-DUE", "loop: hand-over only when the job is due", due is not None, "the delegate submit is reached without establishing job.%s <= now" % R["when"], where_of(e.fn, e.node), trace_of(p, e.seq))
        for e in p.calls():
            if q.call_name(e) == "wait" and it.type_of(q.recv(e), p) == "E:Event" and e.d["args"] and e.d["args"][0] != ("const", None):
                d = e.d["args"][0]
                nwait += 1
                ok = isinstance(d, tuple) and d[0] == "bin" and d[1] == "-" and isinstance(d[2], tuple) and d[2][0] == "attr" and d[2][2] == R["when"] and is_clock(d[3])
                notdue = []
                if ok:
                    for b in p.evs("branch"):
                        n = norm_cmp(b.d[0], b.d[1])
                        if n and b.seq < e.seq and n[2] == d[2] and n[1] == "<" and n[0] == d[3]:
                            notdue.append(b)
                rep.ob("R-DUE", "loop: otherwise wait exactly until the job is due", ok and bool(notdue), "timed wait of %s" % fmt(d), where_of(e.fn, e.node), trace_of(p, e.seq))
    rep.require(nsub >= 1 and nwait >= 1 and inflight_field is not None, "retry worker loop: hand-over / timed wait not found")
    # the job handed over / waited for was selected with no attempt in flight
    for p in ps:
        for e in p.calls():
            if q.call_name(e) == "submit" and q.recv(e) == ("attr", X, "_delegate") and e.d["args"] and e.d["args"][0][0] == "attr":
                job = e.d["args"][0][1]
                fl = [b for b in p.evs("branch") if b.d[0] == ("attr", job, inflight_field) and b.seq < e.seq]
                rep.ob("R-NEXT", "loop: the job handed over has no attempt in flight", bool(fl) and fl[0].d[1] is False, "job.%s is %s before the hand-over" % (inflight_field, "not tested" if not fl else "true"), where_of(e.fn, e.node), trace_of(p, e.seq))

    # ---------------------------------------------------------------- completion callback
    cb = lay.callback
    ps, it = ctx.paths(cb, rex, depth=DEPTH, inline=std_inline, maxpaths=20000)
    DP = ("param", cb.params[1])
    kinds = set()
    for p in ps:
        pol = [e for e in p.calls() if e.d.get("user")]
        sr = [e for e in pol if q.call_name(e) == "should_retry"]
        st = [e for e in pol if q.call_name(e) == "sleep_time"]
        # the job this completion belongs to: selected by comparing a record's in-flight field with the parameter
        job = None
        for b in p.evs("branch"):
            t = b.d[0]
            if isinstance(t, tuple) and t[0] == "cmp" and t[1] in ("==", "is") and b.d[1] is True and DP in (t[2], t[3]):
                o = t[2] if t[3] == DP else t[3]
                if isinstance(o, tuple) and o[0] == "attr" and o[2] == inflight_field:
                    job = o[1]
        if job is None:
            continue
        D = ("attr", job, R["future"])
        terms = [e for e in p.calls() if terminal_on(e, D, it, p)]
        resolved = [e for e in terms if q.call_name(e) != "cancel"]
        apps = [e for e in p.calls() if q.call_name(e) in ("append", "add") and q.recv(e) == JOBS]
        pops = [e for e in p.calls() if q.call_name(e) in ("pop", "remove") and q.recv(e) == JOBS]
        flags = [b for b in p.evs("branch") if isinstance(b.d[0], tuple) and b.d[0][0] == "attr" and b.d[0][1] == job and b.d[0][2] not in (inflight_field,) and b.d[0][2] not in R.values()]
        if p.status == "raise":
            v = p.value
            user = isinstance(v, tuple) and len(v) > 2 and isinstance(v[2], tuple) and v[2][:1] == ("from",)
            rep.ob("R-POLICY", "callback: an exception from the policy never escapes", not user, "a raising %s leaves the completion callback by exception: the future is never resolved and the job is never removed" % ("sleep_time" if st else "should_retry"), where_of(cb), trace_of(p))
            continue
        cancelled = any(isinstance(b.d[0], tuple) and b.d[0][0] == "call" and b.d[0][1] == ("attr", DP, "cancelled") and b.d[1] for b in p.evs("branch"))
        if cancelled:
            continue
        want_args = (("attr", job, R["attempt"]), ("attr", job, inflight_field))
        rep.ob("R-POLICY", "callback: should_retry at most once per completion", len(sr) <= 1, "should_retry x%d" % len(sr), where_of(cb), trace_of(p))
        if flags:
            stop_field = flags[0].d[0][2]
            rep.ob("R-POLICY", "callback: stop flag tested before any policy call", all(flags[0].seq < e.seq for e in pol), "the policy is consulted before the stop flag is looked at", where_of(cb), trace_of(p))
            if flags[0].d[1] is True:
                kinds.add("stopped")
                rep.ob("R-POLICY", "callback: stop flag set -> policy not consulted, no retry", not pol and not apps, "policy calls: %d, re-queued: %s" % (len(pol), bool(apps)), where_of(cb), trace_of(p))
        else:
            rep.ob("R-POLICY", "callback: stop flag tested before any policy call", not pol, "the policy is consulted without looking at a stop flag", where_of(cb), trace_of(p))
        for e in sr:
            rep.ob("R-POLICY", "callback: should_retry receives (attempt, delegate future) of this job's policy", tuple(e.d["args"]) == want_args and q.recv(e) == ("attr", job, R["policy"]), "should_retry(%s) on %s" % ([fmt(a) for a in e.d["args"]], fmt(q.recv(e))), where_of(e.fn, e.node), trace_of(p, e.seq))
        ans = None
        if len(sr) == 1:
            ans = q.truth_of(p, ("call", sr[0].d["func"], sr[0].d["args"], sr[0].d["kwargs"], None))
        caught = [c for c in p.evs("catch") if isinstance(c.d["exc"], tuple) and len(c.d["exc"]) > 2 and isinstance(c.d["exc"][2], tuple) and c.d["exc"][2][:1] == ("from",)]
        if caught:
            kinds.add("policy raised")
            rep.ob("R-POLICY", "callback: a raising policy means no retry", not apps and bool(resolved), "after a policy exception: re-queued %s, future resolved %s" % (bool(apps), bool(resolved)), where_of(cb), trace_of(p))
        elif ans:
            rep.ob("R-POLICY", "callback: sleep_time once, after a true answer, same arguments", len(st) == 1 and tuple(st[0].d["args"]) == want_args and st[0].seq > sr[0].seq, "sleep_time calls: %s" % [[fmt(a) for a in e.d["args"]] for e in st], where_of(cb), trace_of(p))
        else:
            rep.ob("R-POLICY", "callback: no sleep_time without a true answer", not st, "sleep_time x%d" % len(st), where_of(cb), trace_of(p))
        if apps:
            kinds.add("retry")
            objs = rec_new(p)
            ok = len(apps) == 1 and len(objs) == 1 and apps[0].d["args"] == (objs[0],) and ans is True
            rep.ob("R-CALLBACK", "callback: a retry re-queues exactly one record, only after a true should_retry", ok, "appends: %d, should_retry answered %s" % (len(apps), ans), where_of(cb), trace_of(p))
            rep.ob("R-CALLBACK", "callback: a retry leaves the future untouched", not terms, "the future is resolved / cancelled on the retry branch: it would be done before the final attempt", where_of(cb), trace_of(p))
            if len(objs) == 1:
                jf = job_fields(p, objs[0])
                w = jf.get(R["when"])
                sres = ("call", st[0].d["func"], st[0].d["args"], st[0].d["kwargs"], None) if len(st) == 1 else None
                clock_ok = isinstance(w, tuple) and w[0] == "bin" and w[1] == "+" and sres is not None and ((is_clock(w[2]) and w[3] == sres) or (is_clock(w[3]) and w[2] == sres))
                rep.ob("R-JOB", "re-queue: next attempt is due at (clock read now, after the attempt finished) + sleep_time", clock_ok, "when = %s" % (fmt(w) if w else None), where_of(cb), trace_of(p))
                ok = jf.get(R["attempt"]) == ("attr", job, R["attempt"]) and jf.get(inflight_field) == ("const", None) and all(jf.get(R[k]) == ("attr", job, R[k]) for k in ("policy", "future", "fn", "args", "kwargs"))
                rep.ob("R-JOB", "re-queue: same job, same attempt number, no delegate in flight", ok, "new record: %s" % dict((k, fmt(v)) for k, v in jf.items()), where_of(cb), trace_of(p))
                if stop_field:
                    rep.ob("R-JOB", "re-queue: the stop flag is inherited", jf.get(stop_field) == ("attr", job, stop_field), "%s = %s" % (stop_field, fmt(jf[stop_field]) if jf.get(stop_field) else None), where_of(cb), trace_of(p))
                rem = [e for e in pops if e.seq < apps[0].seq]
                rep.ob("R-CALLBACK", "callback: the finished attempt's record is replaced, not duplicated", bool(rem) or _zero_pop(p, JOBS), "the old record stays next to the new one", where_of(cb), trace_of(p))
        else:
            kinds.add("final")
            ok = bool(resolved) and _from_delegate(p, resolved, DP, D)
            rep.ob("R-CALLBACK", "callback: the final attempt's outcome is copied to the job's future", ok, "the job's future is %s" % ("not resolved" if not resolved else "resolved with something else than the completed delegate's outcome"), where_of(cb), trace_of(p))
            if resolved and pops:
                rep.ob("R-CALLBACK", "callback: the finished job is removed after the future is resolved", all(x.seq > resolved[0].seq for x in pops), "", where_of(cb), trace_of(p))
    rep.require({"retry", "final", "policy raised"} <= kinds, "completion callback: expected retry / final / raising-policy paths, found %s" % sorted(kinds))

    # ---------------------------------------------------------------- selection of the next job
    sel = None
    ps_loop, it_loop = ctx.paths(loop, loop.owner, depth=DEPTH, inline=std_inline, maxpaths=20000)
    for p in ps_loop:
        for e in p.calls():
            c = e.d["callee"]
            if c is not None and c.owner is rex and e.d["inlined"]:
                inner = [l for l in p.evs("loop") if l.fn is c and l.d[0] == "enter" and l.d[1] == XJOBS]
                if inner:
                    sel = c
    rep.require(sel is not None, "retry worker loop: the function that selects the next job was not identified")
    ps, it = ctx.paths(sel, rex, depth=2, inline=std_inline, unroll=2)
    nret = 0
    for p in ps:
        if p.status != "return" or p.value == ("const", None):
            continue
        v = p.value
        if p.assume.get(v) is False:
            continue
        nret += 1
        atoms = p.branch_atoms()
        inflight = [tv for t, tv in atoms if t == ("attr", v, inflight_field)]
        rep.ob("R-NEXT", "selection never returns a job with an attempt in flight", inflight == [False], "returned %s with %s tested %s" % (fmt(v), inflight_field, inflight), where_of(sel), trace_of(p))
        # a job returned from inside the walk ("taken at once") must be stop-flagged or overdue on a clock reading
        lv = [e for e in p.evs("loop") if e.fn is sel]
        walking = bool(lv) and not any(e.d[0] == "exit" for e in lv)
        if walking:
            flagged = any(tv and isinstance(t, tuple) and t[0] == "attr" and t[1] == v and t[2] not in (inflight_field, R["when"]) for t, tv in atoms)
            due = False
            for t, tv in atoms:
                n = norm_cmp(t, tv)
                if n and n[0] == ("attr", v, R["when"]) and n[1] in ("<=", "<") and is_clock(n[2]):
                    due = True
            rep.ob("R-NEXT", "selection takes a job at once only if it is stop-flagged or overdue", flagged or due, "returns %s from inside the walk without having established that it is stop-flagged or that its due time has passed (the loop would then sleep on a later job while an earlier one is due)" % fmt(v), where_of(sel), trace_of(p))
        for t, tv in atoms:
            n = norm_cmp(t, tv)
            if n and n[0][0] == "attr" and n[2][0] == "attr" and n[0][2] == R["when"] and n[2][2] == R["when"] and n[0][1] != n[2][1]:
                early = n[0][1]
                rep.ob("R-NEXT", "selection prefers the earlier due time", v == early, "established %s.when %s %s.when but returns %s" % (fmt(n[0][1]), n[1], fmt(n[2][1]), fmt(v)), where_of(sel), trace_of(p))
    # the walk looks at every job: it is left only by taking the job at hand (never by break, never by returning
    # something else from inside it) -- a job in flight is skipped, it does not end the search
    for p in ps:
        lv = [e for e in p.evs("loop") if e.fn is sel and not (e.d[0] == "exit" and e.d[1] == "comprehension")]
        brk = [e for e in lv if e.d[0] == "exit" and e.d[1] == "break"]
        rep.ob("R-NEXT", "selection walks the whole job list", not brk, "the walk over the job list is left by `break` (path: %s): the jobs behind that point are not considered, so a job that is due is not started while e.g. an earlier one is in flight" % q.path_sig(p)[-150:], where_of(sel, brk[0].node) if brk else where_of(sel), trace_of(p))
        if p.status == "return" and lv and not any(e.d[0] == "exit" for e in lv):
            v = p.value
            cur = isinstance(v, tuple) and v[0] == "elem"
            rep.ob("R-NEXT", "selection leaves the walk only with the job at hand", cur, "returns %s from inside the walk over the job list: the remaining jobs are not considered" % fmt(v), where_of(sel), trace_of(p))
    # among the waiting jobs the one returned is provably the earliest: for every other waiting job seen on the path
    # there is a chain of established comparisons  returned.when <= ... <= other.when  (three jobs are needed to
    # tell a correct running minimum from one that compares against a stale value)
    ps3, it3 = ctx.paths(sel, rex, depth=2, inline=std_inline, unroll=3, maxpaths=20000)
    WHEN = R["when"]
    nmin = 0
    for p in ps3:
        if p.status != "return" or not (isinstance(p.value, tuple) and p.value[0] == "elem"):
            continue
        lv = [e for e in p.evs("loop") if e.fn is sel]
        if not any(e.d[0] == "exit" for e in lv):
            continue  # taken at once (stop-flagged / overdue): handled above
        v = p.value
        atoms = p.branch_atoms()
        waiting = set(t[1] for t, tv in atoms if isinstance(t, tuple) and t[0] == "attr" and t[2] == inflight_field and isinstance(t[1], tuple) and t[1][0] == "elem" and tv is False)
        le = set()
        for t, tv in atoms:
            n = norm_cmp(t, tv)
            if n and n[0][0] == "attr" and n[2][0] == "attr" and n[0][2] == WHEN and n[2][2] == WHEN and n[1] in ("<", "<="):
                le.add((n[0][1], n[2][1]))
        reach = {v}
        changed = True
        while changed:
            changed = False
            for a, b in le:
                if a in reach and b not in reach:
                    reach.add(b)
                    changed = True
        others = [o for o in waiting if o != v]
        if len(others) >= 2:
            nmin += 1
        bad = [o for o in others if o not in reach]
        nm = lambda o: "job#%d" % (o[3] if len(o) > 3 else 1)
        rep.ob("R-NEXT", "selection returns the earliest of the waiting jobs", not bad, "returns %s although nothing on this path establishes that its due time is not later than that of %s (comparisons made: %s): with three or more jobs waiting the worker can sleep towards the wrong job and start the earliest one late" % (nm(v), ", ".join(nm(o) for o in bad), ["%s.when <= %s.when" % (nm(a), nm(b)) for a, b in sorted(le)]), where_of(sel), trace_of(p))
    rep.require(nmin >= 1, "job selection: no path with three waiting jobs was enumerated")
    # a walk that has seen a job with no attempt in flight does not come back empty-handed: returning None sends the
    # worker into an untimed wait although a job is waiting for its due time
    for p in ps:
        if p.status == "return" and (p.value == ("const", None) or p.assume.get(p.value) is False):
            seen_waiting = [t for t, tv in p.branch_atoms() if isinstance(t, tuple) and t[0] == "attr" and t[2] == inflight_field and isinstance(t[1], tuple) and t[1][0] == "elem" and tv is False]
            rep.ob("R-NEXT", "selection returns a job whenever one is waiting", not seen_waiting, "the walk found %s with no attempt in flight but the selection returns nothing: the worker then waits without a timeout and the retry is not started when its delay has passed" % (fmt(seen_waiting[0][1]) if seen_waiting else ""), where_of(sel), trace_of(p))
    rep.require(nret >= 6, "job selection: returning paths not found")

    # ---------------------------------------------------------------- who resolves retry futures
    # roots: every method of the executor / future class and the loop; resolution of a job's future may only
    # happen in the callback (final branch) and the loop (stop-retry branch)
    rfut = prog.cls("RetryFuture")
    offenders = []
    for m in sorted(rex.methods.values(), key=lambda f: f.key):
        if m is cb:
            continue
        psm, itm = ctx.paths(m, rex, depth=0)
        for p in psm:
            for e in p.calls():
                if e.fn is m and q.call_name(e) in ("set_result", "set_exception", "set_exception_info") and e.d["callee"] is None:
                    offenders.append((m, e))
    rep.ob("R-WHOCALLS", "no other method of the executor sets a job future's outcome directly", not offenders, "%s sets an outcome" % (offenders[0][0].qualname if offenders else ""), where_of(offenders[0][0], offenders[0][1].node) if offenders else where_of(cb))
    nstoploop = 0
    for p in ps_loop:
        for e in p.calls():
            if q.call_name(e) in ("set_result", "set_exception", "set_exception_info") and e.d["callee"] is None:
                r = q.recv(e)
                if isinstance(r, tuple) and r[0] == "super":
                    r = r[2]
                if isinstance(r, tuple) and r[0] == "attr" and r[2] == R["future"]:
                    job = r[1]
                    st_ = [b for b in p.evs("branch") if isinstance(b.d[0], tuple) and b.d[0][0] == "attr" and b.d[0][1] == job and stop_field and b.d[0][2] == stop_field and b.seq < e.seq]
                    nstoploop += 1
                    rep.ob("R-WHOCALLS", "loop: a job's future is resolved only on the stop-retry branch", bool(st_) and st_[-1].d[1] is True, "the worker loop resolves a future although retrying was not stopped", where_of(e.fn, e.node), trace_of(p, e.seq))
    rep.require(nstoploop >= 1, "retry worker loop: stop-retry branch not found")

    _policy(ctx, rep)


def _zero_pop(p, JOBS):
    """the removal helper searched the list without a hit on this (symbolic) iteration: not evidence of a duplicate"""
    return any(l.d[0] == "enter" and contains(l.d[1], JOBS) for l in p.evs("loop"))


def _from_delegate(p, resolved, DP, D):
    for e in resolved:
        n = q.call_name(e)
        if n == "set_result":
            a = e.d["args"][0] if e.d["args"] else None
            if isinstance(a, tuple) and a[:2] == ("call", ("attr", DP, "result")):
                return True
        else:
            # exception copied from the completed delegate
            for c in p.calls():
                if c.seq < e.seq and c.d["callee"] is not None and c.d["args"][:1] == (DP,) and any(x == D for x in c.d["args"][1:]):
                    return True
            a = e.d["args"][0] if e.d["args"] else None
            if isinstance(a, tuple) and contains(a, ("attr", DP, "exception")) or (isinstance(a, tuple) and contains(a, ("attr", DP, "exception_info"))):
                return True
    return False


def _instance_test(v, FUT, BASES):
    """v is `any(isinstance(<the future's exception>, k) for k in <bases>)` or `isinstance(<exception>, tuple(<bases>))`"""
    def is_exc(t):
        return isinstance(t, tuple) and t[:2] == ("call", ("attr", FUT, "exception"))
    if not isinstance(v, tuple) or v[0] != "call":
        return False
    if v[1] == ("name", "bool") and len(v[2]) == 1:
        return _instance_test(v[2][0], FUT, BASES)
    if v[1] == ("name", "any") and len(v[2]) == 1:
        c = v[2][0]
        if isinstance(c, tuple) and c[0] == "comp" and len(c[2]) == 1 and len(c[3]) == 1 and not c[4]:
            elt = c[2][0]
            return isinstance(elt, tuple) and elt[:2] == ("call", ("name", "isinstance")) and len(elt[2]) == 2 and is_exc(elt[2][0]) and isinstance(elt[2][1], tuple) and elt[2][1][0] == "elem" and (BASES is None or container_of(elt[2][1]) == BASES) and (BASES is None or container_of(c[3][0]) == BASES or c[3][0] == BASES)
        return False
    if v[1] == ("name", "isinstance") and len(v[2]) == 2 and is_exc(v[2][0]):
        b = v[2][1]
        return BASES is None or b == BASES or (isinstance(b, tuple) and b[0] == "call" and b[1] == ("name", "tuple") and b[2] == (BASES,))
    return False


def _policy(ctx, rep):
    prog = ctx.prog
    pol = prog.cls("ExceptionRetryPolicy")
    srm = pol.methods.get("should_retry")
    slm = pol.methods.get("sleep_time")
    rep.require(srm is not None and slm is not None, "ExceptionRetryPolicy.should_retry / sleep_time not found")
    # configuration fields by keyword
    init = pol.methods.get("__init__")
    ps, it = ctx.paths(init, pol, depth=0)
    cfg = {}
    for p in ps:
        for e in p.evs("store"):
            t, v = e.d["target"], e.d["value"]
            if q.self_field(t) and isinstance(v, tuple) and v[0] == "call" and isinstance(v[1], tuple) and v[1][0] == "attr" and v[1][2] in ("get", "pop") and v[2] and v[2][0][0] == "const":
                cfg.setdefault(v[2][0][1], t[2])
    for k in ("max_attempts", "exponent", "sleep", "max_sleep", "exception_base"):
        rep.ob("R-ARITH", "ExceptionRetryPolicy keeps the `%s` keyword" % k, k in cfg, "no field is initialised from kwargs[%r]" % k, where_of(init))
    if not all(k in cfg for k in ("max_attempts", "exponent", "sleep", "max_sleep")):
        return
    S_ = lambda k: ("attr", SELF, cfg[k])  # noqa: E731
    ps, it = ctx.paths(srm, pol, depth=2, inline=std_inline)
    A = ("param", srm.params[1])
    FUT = ("param", srm.params[2])
    rows = set()
    for p in ps:
        if p.status != "return":
            rep.ob("R-TABLE", "should_retry returns on every path", False, "status %s" % p.status, where_of(srm), trace_of(p))
            continue
        exc_t = None
        lim = None
        inst = None
        for b in p.evs("branch"):
            t, v = b.d
            if isinstance(t, tuple) and t[0] == "call" and t[1] == ("attr", FUT, "exception"):
                exc_t = v
            elif isinstance(t, tuple) and t[0] == "cmp" and t[1] == "is" and isinstance(t[2], tuple) and t[2][:2] == ("call", ("attr", FUT, "exception")):
                exc_t = not v
            n = norm_cmp(t, v)
            if n and (n[0] == A or n[2] == A):
                lim = n
            if isinstance(t, tuple) and t[0] == "call" and t[1] == ("name", "isinstance"):
                inst = v if inst is None or v else inst
        if exc_t is False:
            rows.add("no exception")
            rep.ob("R-TABLE", "should_retry: no exception -> False", p.value == ("const", False), "returns %s" % fmt(p.value), where_of(srm), trace_of(p))
            continue
        if lim is None:
            # the limit was not looked at on this path: acceptable only if the answer is False for another reason
            if inst is False or inst is None:
                rows.add("other exception")
                rep.ob("R-TABLE", "should_retry: exception outside the configured bases -> False", p.value == ("const", False), "returns %s" % fmt(p.value), where_of(srm), trace_of(p))
            else:
                rep.ob("R-TABLE", "should_retry: the attempt limit is consulted before answering True", False, "answers %s for a retryable exception without comparing attempt with max_attempts" % fmt(p.value), where_of(srm), trace_of(p))
            continue
        maxf = lim[2] if lim[0] == A else lim[0]
        rep.ob("R-TABLE", "should_retry: the limit is the configured max_attempts", maxf == S_("max_attempts"), "attempt compared with %s" % fmt(maxf), where_of(srm))
        if lim[2] == A and lim[1] == "<=":
            rows.add("exhausted")
            rep.ob("R-TABLE", "should_retry: attempt >= max_attempts -> False", p.value == ("const", False), "returns %s" % fmt(p.value), where_of(srm), trace_of(p))
        elif lim[0] == A and lim[1] == "<":
            if inst is None and _instance_test(p.value, FUT, S_("exception_base") if "exception_base" in cfg else None):
                # `return any(isinstance(exc, k) for k in bases)` / `return isinstance(exc, tuple(bases))`:
                # the answer *is* the membership test -- both remaining rows at once
                rows.update({"retryable", "other exception"})
                rep.ob("R-TABLE", "should_retry: answers whether the exception is of a configured base", True, "", where_of(srm))
            elif inst:
                rows.add("retryable")
                rep.ob("R-TABLE", "should_retry: exception of a configured base -> True", p.value == ("const", True), "returns %s" % fmt(p.value), where_of(srm), trace_of(p))
            else:
                rows.add("other exception")
                rep.ob("R-TABLE", "should_retry: exception outside the configured bases -> False", p.value == ("const", False), "returns %s" % fmt(p.value), where_of(srm), trace_of(p))
        else:
            rep.ob("R-TABLE", "should_retry: attempts are exhausted exactly when attempt >= max_attempts", False, "the code establishes `%s %s %s` (off by one: max_attempts attempts must run, not more, not fewer)" % (fmt(lim[0]), lim[1], fmt(lim[2])), where_of(srm), trace_of(p))
            rows.update({"exhausted", "retryable", "other exception"})
    rep.ob("R-TABLE", "should_retry: all four rows present", rows >= {"no exception", "exhausted", "retryable", "other exception"}, "rows found: %s" % sorted(rows), where_of(srm))
    ps, it = ctx.paths(slm, pol, depth=2, inline=std_inline)
    A = ("param", slm.params[1])
    want = canon(("call", ("name", "min"), (("bin", "*", S_("sleep"), ("bin", "**", S_("exponent"), ("bin", "-", A, ("const", 1)))), S_("max_sleep")), (), None))
    for p in ps:
        rep.ob("R-ARITH", "sleep_time closed form", p.status == "return" and canon(p.value) == want, "returns %s, expected min(sleep * exponent ** (attempt - 1), max_sleep)" % fmt(p.value), where_of(slm))
