"""C19 -- bind / flat_bind chains are equivalent to the executor chain; names propagate.

Evaluated on public entry points (CanCustomize.with_*, Executors.with_* / bind / flat_bind, BoundCallable.__call__,
constructors) with private helpers inlined; no private helper is referred to by name.

Decided:
  R-WITH      every with_X of CanCustomize puts the inherited name into kwargs (unless one was given) and then
              returns Executors.with_X(self, *args, **kwargs); every Executors.with_X builds XExecutor: on a bound
              callable it builds the layer on the bound executor and re-binds the same function, otherwise it
              builds the layer on the delegate -- with the caller's *args, **kwargs
  R-BOUND     BoundCallable keeps the executor and function it was given; calling it performs exactly one
              executor.submit(fn, *args, **kwargs) and returns its result
  R-FLATBIND  Executors.flat_bind(executor, fn) returns bind(executor, fn).with_flat_map(<identity function>)
  R-NAME      after construction every CanCustomize instance has an attribute recognised by the name propagation
              that holds the name it was given (bound callables: the bound executor's name); thread names embed it
Not decided: outcome equivalence of paired programs (that is C01/C13 behaviour).
"""
from ..core import where_of, trace_of
from ..interp import fmt, contains
from ..model import AnalysisError, ClassInfo
from .. import q
import ast
from .. import roles
from ..roles import std_inline, bound, is_identity

SELF = ("param", "self")


def camel(s):
    return "".join(x.capitalize() for x in s.split("_"))


def check(ctx, rep):
    prog = ctx.prog
    rep.rule("R-WITH", "CanCustomize.with_X: if self has a recognised name attribute and no name was given, kwargs['name'] := that attribute, before returning Executors.with_X(self, *args, **kwargs); Executors.with_X(executor, ...) builds XExecutor(executor or bound executor, *args, **kwargs) and re-binds the bound function")
    rep.rule("R-BOUND", "BoundCallable keeps the executor and function it was given; calling it performs exactly one executor.submit(fn, *args, **kwargs) and returns its result")
    rep.rule("R-FLATBIND", "Executors.flat_bind(executor, fn) returns bind(executor, fn).with_flat_map(<identity function>)")
    rep.rule("R-NAME", "after construction every CanCustomize instance has an attribute recognised by the name propagation that holds the name it was given (or, for a bound callable, the bound executor's name); worker thread names embed the name")
    cc = prog.cls("CanCustomize")
    ex = prog.cls("Executors")
    bc = prog.cls("BoundCallable")
    withs = sorted(n for n in cc.methods if n.startswith("with_"))
    ewiths = sorted(n for n in ex.methods if n.startswith("with_"))
    rep.count("CanCustomize.with_* methods", len(withs), 8)
    rep.count("Executors.with_* methods", len(ewiths), 8)
    rep.ob("R-WITH", "CanCustomize and Executors offer the same with_* set", set(withs) == set(ewiths), "CanCustomize only: %s; Executors only: %s" % (sorted(set(withs) - set(ewiths)), sorted(set(ewiths) - set(withs))), cc.module.relpath)

    # ---- CanCustomize.with_X
    cands = []
    inherits = {}
    for n in withs:
        m = cc.methods[n]
        ps, it = ctx.paths(m, cc, depth=4, inline=_own_helpers(cc))
        KW = ("kw", (), ("param", m.kwarg)) if m.kwarg else None
        key = "CanCustomize.%s" % n
        rep.ob("R-WITH", key + " takes *args, **kwargs", m.vararg is not None and m.kwarg is not None, "", where_of(m))
        if KW is None:
            continue
        nret = 0
        inherits[n] = False
        for p in ps:
            if p.status != "return":
                continue
            nret += 1
            dl = [e for e in p.calls() if isinstance(e.d["func"], tuple) and e.d["func"][0] == "attr" and e.d["func"][1] == ("class", ex.key)]
            ok = len(dl) == 1 and dl[0].d["func"][2] == n
            rep.ob("R-WITH", key + " delegates to Executors.%s" % n, ok, "calls %s" % [fmt(e.d["func"]) for e in dl], where_of(m), trace_of(p))
            if not ok:
                continue
            d = dl[0]
            a = d.d["args"]
            fw = a[:1] == (SELF,) and a[1:] == (("star", ("seq", (), ("param", m.vararg), 0)),) and tuple(d.d["kwargs"]) == ((None, KW),)
            rep.ob("R-WITH", key + " forwards (self, *args, **kwargs) and returns the result", fw and p.value == q.result_of(d), "Executors.%s(%s; %s)" % (n, [fmt(x) for x in a], [(k, fmt(v)) for k, v in d.d["kwargs"]]), where_of(d.fn, d.node), trace_of(p))
            has = []
            for e in p.calls():
                if q.call_name(e) == "hasattr" and e.d["args"][:1] == (SELF,) and len(e.d["args"]) == 2 and e.d["args"][1][0] == "const":
                    c = e.d["args"][1][1]
                    if c not in cands:
                        cands.append(c)
                    has.append((c, q.truth_of(p, q.result_of(e))))
            given = None
            for t, v, e in q.atoms(p):
                if isinstance(t, tuple) and t[0] == "cmp" and t[1] == "in" and t[2] == ("const", "name") and t[3] == KW:
                    given = v
            stores = [e for e in p.evs("store") if e.d["target"] == ("sub", KW, ("const", "name"))]
            first_true = [c for c, v in has if v]
            if first_true and given is False:
                attr = first_true[0]
                val = stores[0].d["value"] if stores else None
                okv = len(stores) == 1 and val in (("attr", SELF, attr), ("call", ("name", "getattr"), (SELF, ("const", attr)), (), None)) and stores[0].seq < d.seq
                inherits[n] = inherits[n] or okv
                rep.ob("R-WITH", key + " inherits the name", okv, "self has %s and no name was given: kwargs['name'] must become self.%s before the delegation (stores: %s)" % (attr, attr, [fmt(e.d["value"]) for e in stores]), where_of(m), trace_of(p))
            else:
                rep.ob("R-WITH", key + " does not override a given name", not stores, "kwargs['name'] is overwritten although %s" % ("a name was given" if given else "no name attribute was found"), where_of(m), trace_of(p))
        rep.ob("R-WITH", key + " has a normal path", nret > 0, "", where_of(m))
    for n in withs:
        rep.ob("R-WITH", "CanCustomize.%s passes the executor's name on" % n, inherits.get(n, False), "no path of %s puts the name attribute of self into kwargs['name'] after finding that self has it (hasattr) and that no name was given: the layer created by this call is named 'default' whatever the executor it is chained onto is called" % n, where_of(cc.methods[n]))
    rep.require(len(cands) >= 1, "CanCustomize.with_*: no hasattr(self, <name attribute>) test found: names are not propagated")

    # ---- Executors.with_X
    for n in ewiths:
        m = ex.methods[n]
        ps, it = ctx.paths(m, ex, depth=4, inline=_own_helpers(ex))
        want_cls = camel(n[5:]) + "Executor"
        key = "Executors.%s" % n
        E = ("param", m.params[1])
        seen = set()
        for p in ps:
            if p.status != "return":
                continue
            ctor = [e for e in p.calls() if isinstance(e.d["func"], tuple) and e.d["func"][0] == "class" and prog.classes.get(e.d["func"][1]) in ctx.executor_classes()]
            rep.ob("R-WITH", key + " builds exactly one %s" % want_cls, len(ctor) == 1 and ctor[0].d["func"][1].split(":")[-1] == want_cls, "builds %s" % [e.d["func"][1].split(":")[-1] for e in ctor], where_of(m), trace_of(p))
            if len(ctor) != 1:
                continue
            c = ctor[0]
            a = c.d["args"]
            rest_ok = a[1:] == (("star", ("seq", (), ("param", m.vararg), 0)),) and tuple(c.d["kwargs"]) == ((None, ("kw", (), ("param", m.kwarg))),)
            isb = None
            for t, v, e in q.atoms(p):
                if isinstance(t, tuple) and t[0] == "call" and t[1] == ("name", "isinstance") and t[2][:1] == (E,) and t[2][1] == ("class", bc.key):
                    isb = v
            seen.add(isb)
            newex = [k for k, tt in p.types.items() if k[0] == "new" and k[1] == c.d["func"][1]]
            if isb:
                exf = _stored_fields(ctx, bc, "executor")
                fnf = _stored_fields(ctx, bc, "fn")
                ok1 = len(exf) == 1 and a[:1] == (("attr", E, exf[0]),) and rest_ok
                rep.ob("R-WITH", key + " (bound callable): new layer on the bound executor", ok1, "%s(%s)" % (want_cls, [fmt(x) for x in a]), where_of(c.fn, c.node), trace_of(p))
                mk = [e for e in p.calls() if e.d["func"] == ("class", bc.key)]
                ok2 = len(mk) == 1 and len(fnf) == 1
                if ok2:
                    b = bound(mk[0], prog)
                    ok2 = b.get("executor") in newex and b.get("fn") == ("attr", E, fnf[0]) and isinstance(p.value, tuple) and p.value[0] == "new" and p.value[1] == bc.key
                rep.ob("R-WITH", key + " (bound callable): re-binds the same function to the new layer", ok2, "must return a BoundCallable of (new executor, the bound callable's function)", where_of(m), trace_of(p))
            else:
                ok = a[:1] == (E,) and rest_ok and p.value in newex
                rep.ob("R-WITH", key + " (executor): builds the layer on the delegate with the caller's arguments", ok, "%s(%s), returns %s" % (want_cls, [fmt(x) for x in a], fmt(p.value)), where_of(c.fn, c.node), trace_of(p))
        rep.ob("R-WITH", key + " handles bound callables and executors", seen >= {True, False}, "cases: %s" % sorted(str(x) for x in seen), where_of(m))

    # ---- BoundCallable
    call = bc.methods.get("__call__")
    rep.require(call is not None, "BoundCallable.__call__ not found")
    exf = _stored_fields(ctx, bc, "executor")
    fnf = _stored_fields(ctx, bc, "fn")
    rep.ob("R-BOUND", "BoundCallable.__init__ keeps executor and fn", len(exf) == 1 and len(fnf) == 1, "expected one field holding the executor parameter and one holding fn (found %s, %s)" % (exf, fnf), where_of(bc.methods["__init__"]))
    # bulk attribute copies onto the object (functools.update_wrapper copies the wrapped callable's __dict__) must not
    # come after the two fields are set: a wrapped callable that has attributes of the same names -- another
    # BoundCallable -- replaces them, and the call then goes to the inner callable's executor only
    binit = bc.methods["__init__"]
    ps, it = ctx.paths(binit, bc, depth=2, inline=_own_helpers(bc))
    for p in ps:
        if p.status == "raise":
            continue
        for fld in exf + fnf:
            st = [e for e in p.evs("store") if q.self_field(e.d["target"], fld)]
            if not st:
                continue
            late = [e for e in p.calls() if e.seq > st[-1].seq and ((q.call_name(e) in ("update_wrapper", "wraps") and SELF in e.d["args"][:1]) or (q.call_name(e) == "update" and q.recv(e) == ("attr", SELF, "__dict__")))]
            rep.ob("R-BOUND", "BoundCallable.__init__: nothing overwrites %s afterwards" % ("the executor field" if fld in exf else "the function field"), not late, "%s runs after self.%s was set and copies every attribute of the wrapped callable onto the object: binding a callable that is itself a BoundCallable replaces the field with the inner one's, so calling the outer callable submits the inner function to the inner executor and bypasses the executor it was bound to" % (fmt(late[0].d["func"]) if late else "", fld), where_of(binit, late[0].node) if late else where_of(binit), trace_of(p))
    if len(exf) == 1 and len(fnf) == 1:
        ps, it = ctx.paths(call, bc, depth=2, inline=_own_helpers(bc))
        for p in ps:
            subs = [e for e in p.calls() if q.call_name(e) == "submit"]
            ok = len(subs) == 1 and q.recv(subs[0]) == ("attr", SELF, exf[0]) and subs[0].d["args"] == (("attr", SELF, fnf[0]), ("star", ("seq", (), ("param", call.vararg), 0))) and tuple(subs[0].d["kwargs"]) == ((None, ("kw", (), ("param", call.kwarg))),)
            ok = ok and p.status == "return" and p.value == q.result_of(subs[0])
            rep.ob("R-BOUND", "BoundCallable.__call__ submits fn once", ok, "must return self.<executor>.submit(self.<fn>, *args, **kwargs)", where_of(call), trace_of(p))
    bind = ex.methods.get("bind")
    ps, it = ctx.paths(bind, ex, depth=2, inline=_own_helpers(ex))
    for p in ps:
        mk = [e for e in p.calls() if e.d["func"] == ("class", bc.key)]
        ok = len(mk) == 1 and p.status == "return" and isinstance(p.value, tuple) and p.value[0] == "new"
        if ok:
            b = bound(mk[0], prog)
            ok = b.get("executor") == ("param", bind.params[1]) and b.get("fn") == ("param", bind.params[2])
        rep.ob("R-BOUND", "Executors.bind returns BoundCallable(executor, fn)", ok, "", where_of(bind))

    # ---- flat_bind
    fb = ex.methods.get("flat_bind")
    ps, it = ctx.paths(fb, ex, depth=0)
    for p in ps:
        if p.status != "return":
            continue
        b = [e for e in p.calls() if q.call_name(e) == "bind"]
        w = [e for e in p.calls() if q.call_name(e) == "with_flat_map"]
        ok = len(b) == 1 and len(w) == 1 and q.recv(w[0]) == q.result_of(b[0])
        if ok:
            bb = bound(b[0], prog)
            ok = bb.get("executor", b[0].d["args"][0] if b[0].d["args"] else None) == ("param", fb.params[1]) and bb.get("fn", b[0].d["args"][1] if len(b[0].d["args"]) > 1 else None) == ("param", fb.params[2])
        ident = False
        if ok:
            vals = list(w[0].d["args"]) + [v for k, v in w[0].d["kwargs"]]
            ident = len(vals) == 1 and is_identity(ctx, vals[0])
        rep.ob("R-FLATBIND", "Executors.flat_bind", ok and ident and p.value == q.result_of(w[0]), "must return cls.bind(executor, fn).with_flat_map(<identity>)", where_of(fb), trace_of(p))

    # ---- every CanCustomize class leaves a recognised name attribute
    n = 0
    for ci in prog.subclasses(cc, strict=True):
        if ci.name in ("CanCustomizeBind",):
            continue
        o, init = ci.lookup("__init__")
        if init is None:
            continue
        n += 1
        ps, it = ctx.paths(init, ci, depth=2, inline=_own_helpers(ci))
        for p in ps:
            if p.status == "raise":
                continue
            st = [e for e in p.evs("store") if q.self_field(e.d["target"]) and e.d["target"][2] in cands]
            key = "%s.__init__ leaves a name attribute" % ci.name
            if st:
                v = st[-1].d["value"]
                v = p.heap.get(v, v) if isinstance(v, tuple) else v
                src_ok = v == ("param", "name") or (isinstance(v, tuple) and v[0] == "call" and isinstance(v[1], tuple) and v[1][0] == "attr" and v[1][2] in ("pop", "get") and v[2][:1] == (("const", "name"),)) or (isinstance(v, tuple) and v[0] == "call" and v[1] == ("name", "getattr") and v[2][1][0] == "const" and v[2][1][1] in cands) or (isinstance(v, tuple) and v[0] == "attr" and v[2] in cands)
                rep.ob("R-NAME", key, src_ok, "the name attribute %s is set to %s, not to the name given" % (st[-1].d["target"][2], fmt(v)), where_of(init, st[-1].node), trace_of(p))
                # bulk attribute copies onto self (functools.update_wrapper copies the wrapped callable's __dict__,
                # self.__dict__.update(...)) must not come after it: they could overwrite the inherited name
                late = [e for e in p.calls() if e.seq > st[-1].seq and ((q.call_name(e) in ("update_wrapper", "wraps") and SELF in e.d["args"][:1]) or (q.call_name(e) == "update" and q.recv(e) == ("attr", SELF, "__dict__")))]
                rep.ob("R-NAME", "%s.__init__: nothing overwrites the name attribute afterwards" % ci.name, not late, "%s runs after the name attribute was set and copies arbitrary attributes of the wrapped callable onto the object: a callable that has a %s attribute of its own replaces the executor's name" % (fmt(late[0].d["func"]) if late else "", st[-1].d["target"][2]), where_of(init, late[0].node) if late else where_of(init), trace_of(p))
            else:
                neg = [e for e in p.calls() if q.call_name(e) == "hasattr" and q.truth_of(p, q.result_of(e)) is False and e.d["args"][1][0] == "const" and e.d["args"][1][1] in cands]
                ok = len(set(e.d["args"][1][1] for e in neg)) == len(cands) and not ("name" in init.all_param_names())
                if ci.name == "CustomizableProcessPoolExecutor":
                    rep.exception("R-NAME", key, "process pools take no name (kwargs.pop('name') discards it); C19 is about layers that create threads")
                    continue
                rep.ob("R-NAME", key, ok, "a constructor path leaves no attribute among %s, so layers chained onto this object are named 'default'" % cands, where_of(init), trace_of(p))
    rep.count("CanCustomize classes with a constructor", n, 11)

    # ---- thread names embed the name
    for owner, target, node, initfi in ctx.types.thread_targets:
        ps, it = ctx.paths(initfi, owner if initfi.owner is not None else None, depth=1, inline=lambda callee, ev, path: callee.key in ctx.types.thread_factories)
        for p in ps:
            if p.status == "raise":
                continue
            th = [e for e in p.calls() if e.d["func"] == ("ext", "threading.Thread")]
            rep.require(len(th) == 1, "%s.__init__: expected one Thread(...) per path" % owner.name)
            kw = dict((k, v) for k, v in th[0].d["kwargs"] if k)
            nm = kw.get("name")
            namev = [("param", "name")] + [k for k, v in p.heap.items() if v == ("param", "name")]
            ok = isinstance(nm, tuple) and ((nm[0] == "bin" and nm[1] == "%" and nm[2][0] == "const" and "%s" in str(nm[2][1]) and nm[3] in namev) or (nm[0] == "bin" and nm[1] == "+" and any(x in namev for x in nm[2:])) or nm[0] == "str?")
            rep.ob("R-NAME", "%s thread name embeds the executor name" % owner.name, ok, "Thread(name=...) must be built from the executor's name, found %s" % (fmt(nm) if nm else None), where_of(initfi, th[0].node))


def _own_helpers(cls):
    own = set()
    for c in cls.mro():
        if isinstance(c, ClassInfo):
            for m in c.methods.values():
                own.add(m.key)

    def pol(callee, ev, path):
        if callee.key in own and callee.name != "__init__":
            return True
        # small private module-level helpers next to the class (e.g. a late-import accessor)
        if callee.owner is None and callee.parent is None and callee.module is cls.module and callee.name.startswith("_"):
            return True
        # name lookup shared between the mix-in and the bound callable may live in a module-level function
        if callee.owner is None and callee.parent is None and not callee.name.startswith("f_") and roles.std_inline(callee, ev, path) is not False and _reads_attrs_only(callee):
            return True
        return False
    return pol


def _reads_attrs_only(fi):
    """a module-level function that only inspects its arguments (hasattr / getattr / comparisons): safe to inline anywhere"""
    for n in ast.walk(fi.node):
        if isinstance(n, ast.Call):
            f = n.func
            if not (isinstance(f, ast.Name) and f.id in ("hasattr", "getattr", "isinstance", "len")):
                return False
        if isinstance(n, (ast.Global, ast.Nonlocal, ast.Yield, ast.YieldFrom, ast.With, ast.Try, ast.Raise)):
            return False
        if isinstance(n, (ast.Attribute, ast.Subscript, ast.Name)) and isinstance(n.ctx, (ast.Store, ast.Del)) and not isinstance(n, ast.Name):
            return False
    return True


def _stored_fields(ctx, ci, param):
    init = ci.methods["__init__"]
    ps, it = ctx.paths(init, ci, depth=0)
    out = set()
    for p in ps:
        for e in p.evs("store"):
            if q.self_field(e.d["target"]) and e.d["value"] == ("param", param):
                out.add(e.d["target"][2])
    return sorted(out)
