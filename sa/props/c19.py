"""C19 -- bind / flat_bind chains are equivalent to the executor chain; names propagate.

Decided:
  R-WITH      the 8 with_* methods of CanCustomize agree: each propagates the name into kwargs and then delegates
              to the Executors method of its own name with (self, *args, **kwargs); the 8 Executors.with_* agree:
              each calls _customize(executor, <its executor class>, *args, **kwargs)
  R-CUSTOMIZE _customize on a bound callable builds the new layer on the bound executor and re-binds the same
              function; otherwise builds the layer on the delegate
  R-BOUND     BoundCallable stores (executor, fn) and __call__ submits fn with the caller's arguments, once
  R-FLATBIND  flat_bind(fn) == bind(fn).with_flat_map(identity)
  R-NAME      every CanCustomize class leaves an attribute that the name propagation recognises, holding the
              name it was given (bound callables: the bound executor's name); thread names embed the name
Not decided: outcome equivalence of paired programs (that is C01/C13 behaviour).
"""
from ..core import where_of, trace_of
from ..interp import fmt, contains
from ..model import AnalysisError, ClassInfo
from .. import q


def camel(s):
    return "".join(x.capitalize() for x in s.split("_"))


def check(ctx, rep):
    prog = ctx.prog
    rep.rule("R-WITH", "each CanCustomize.with_X propagates the name into kwargs, then returns Executors.with_X(self, *args, **kwargs); each Executors.with_X returns cls._customize(executor, XExecutor, *args, **kwargs)")
    rep.rule("R-CUSTOMIZE", "_customize(bound callable) = bind(executor_class(bound executor, *args, **kwargs), bound fn); _customize(executor) = executor_class(executor, *args, **kwargs)")
    rep.rule("R-BOUND", "BoundCallable keeps the executor and function it was given; calling it performs exactly one executor.submit(fn, *args, **kwargs) and returns its result")
    rep.rule("R-FLATBIND", "Executors.flat_bind(executor, fn) returns bind(executor, fn).with_flat_map(<identity function>)")
    rep.rule("R-NAME", "after construction every CanCustomize instance has an attribute recognised by the name propagation that holds the name it was given (or, for a bound callable, the bound executor's name); worker thread names embed the name")

    cc = prog.cls("CanCustomize")
    ex = prog.cls("Executors")
    prop = None
    for n, m in cc.methods.items():
        if n.endswith("propagate_name"):
            prop = m
    rep.require(prop is not None, "CanCustomize.__propagate_name not found")

    # ---- candidate attribute names recognised by the propagation
    ps, it = ctx.paths(prop, cc)
    cands = []
    for p in ps:
        for e in p.calls():
            if q.call_name(e) == "hasattr" and e.d["args"][:1] == (("param", "self"),) and e.d["args"][1][0] == "const":
                if e.d["args"][1][1] not in cands:
                    cands.append(e.d["args"][1][1])
    rep.require(len(cands) >= 1, "__propagate_name: no hasattr(self, <name>) test found")
    for p in ps:
        stores = [e for e in p.evs("store") if e.d["target"] == ("sub", ("param", "kwargs"), ("const", "name"))]
        has = [(e.d["args"][1][1], p.assume.get(("call", e.d["func"], e.d["args"], e.d["kwargs"], None))) for e in p.calls() if q.call_name(e) == "hasattr"]
        first_true = [c for c, v in has if v]
        given = None
        for t, v in p.branch_atoms():
            if isinstance(t, tuple) and t[0] == "cmp" and t[1] == "in" and t[2] == ("const", "name") and t[3] == ("param", "kwargs"):
                given = v
        key = "__propagate_name [%s]" % q.path_sig(p)[:110]
        if first_true and given is False:
            attr = first_true[0]
            ok = len(stores) == 1 and stores[0].d["value"] == ("call", ("name", "getattr"), (("param", "self"), ("const", attr)), (), None)
            rep.ob("R-NAME", key, ok, "self has %s and no name was given: kwargs['name'] must become getattr(self, %r)" % (attr, attr), where_of(prop), trace_of(p))
        else:
            rep.ob("R-NAME", key, not stores, "kwargs['name'] is overwritten although %s" % ("a name was given" if given else "no name attribute was found"), where_of(prop), trace_of(p))

    # ---- with_* siblings on CanCustomize
    withs = sorted(n for n in cc.methods if n.startswith("with_"))
    rep.count("CanCustomize.with_* methods", len(withs), 8)
    for n in withs:
        m = cc.methods[n]
        ps, it = ctx.paths(m, cc, depth=0)
        for p in ps:
            if p.status != "return":
                continue
            pc = [e for e in p.calls() if e.d["callee"] is prop]
            dl = [e for e in p.calls() if e.d["func"] == ("attr", ("class", ex.key), n)]
            key = "CanCustomize.%s" % n
            ok = len(pc) == 1 and pc[0].d["args"] == (("kw", (), ("param", m.kwarg)),) if m.kwarg else False
            rep.ob("R-WITH", key + " propagates the name", ok, "expected exactly one name propagation on this method's **kwargs", where_of(m), trace_of(p))
            if len(dl) != 1:
                others = [fmt(e.d["func"]) for e in p.calls() if isinstance(e.d["func"], tuple) and e.d["func"][0] == "attr" and e.d["func"][1] == ("class", ex.key)]
                rep.ob("R-WITH", key + " delegates to Executors.%s" % n, False, "expected one call of Executors.%s, found %s" % (n, others), where_of(m), trace_of(p))
                continue
            d = dl[0]
            fw = d.d["args"][:1] == (("param", "self"),)
            okf, why = q.args_forwarded(_shift(d), m)
            rep.ob("R-WITH", key + " delegates to Executors.%s" % n, fw and okf and p.value == ("call", d.d["func"], d.d["args"], d.d["kwargs"], None), "must return Executors.%s(self, *args, **kwargs): %s" % (n, why), where_of(m, d.node), trace_of(p))
            if pc:
                rep.ob("R-WITH", key + " propagates before delegating", pc[0].seq < d.seq, "the name must be put into kwargs before the delegation", where_of(m))
    ewiths = sorted(n for n in ex.methods if n.startswith("with_"))
    rep.count("Executors.with_* methods", len(ewiths), 8)
    rep.ob("R-WITH", "CanCustomize and Executors offer the same with_* set", set(withs) == set(ewiths), "CanCustomize: %s; Executors: %s" % (sorted(set(withs) - set(ewiths)), sorted(set(ewiths) - set(withs))), where_of(prop))
    cust = ex.methods.get("_customize")
    rep.require(cust is not None, "Executors._customize not found")
    for n in ewiths:
        m = ex.methods[n]
        ps, it = ctx.paths(m, ex, depth=0)
        want_cls = camel(n[5:]) + "Executor"
        for p in ps:
            if p.status != "return":
                continue
            cs = [e for e in p.calls() if e.d["callee"] is cust]
            key = "Executors.%s" % n
            if len(cs) != 1:
                rep.ob("R-WITH", key + " customizes", False, "expected exactly one call of _customize", where_of(m))
                continue
            a = cs[0].d["args"]
            ok = len(a) >= 2 and a[0] == ("param", m.params[1]) and isinstance(a[1], tuple) and a[1][0] == "class" and a[1][1].split(":")[-1] == want_cls
            rest_ok = a[2:] == (("star", ("seq", (), ("param", m.vararg), 0)),) if m.vararg else a[2:] == ()
            kw_ok = tuple(cs[0].d["kwargs"]) == ((None, ("kw", (), ("param", m.kwarg))),) if m.kwarg else not cs[0].d["kwargs"]
            rep.ob("R-WITH", key + " customizes with %s" % want_cls, ok and rest_ok and kw_ok and p.value == ("call", cs[0].d["func"], cs[0].d["args"], cs[0].d["kwargs"], None), "must return cls._customize(executor, %s, *args, **kwargs); found class %s" % (want_cls, fmt(a[1]) if len(a) > 1 else "?"), where_of(m, cs[0].node))

    # ---- _customize
    bc = prog.cls("BoundCallable")
    ps, it = ctx.paths(cust, ex, depth=0)
    seen = set()
    for p in ps:
        if p.status != "return":
            continue
        isb = None
        for t, v in p.branch_atoms():
            if isinstance(t, tuple) and t[0] == "call" and t[1] == ("name", "isinstance") and t[2][:1] == (("param", "delegate"),) and t[2][1] == ("class", bc.key):
                isb = v
        rep.require(isb is not None, "_customize: isinstance(delegate, BoundCallable) test not found")
        seen.add(isb)
        ctor = [e for e in p.calls() if e.d["func"] == ("param", "executor_class")]
        rep.require(len(ctor) == 1, "_customize: expected one executor_class(...) call per path")
        a = ctor[0].d["args"]
        rest_ok = a[1:] == (("star", ("seq", (), ("param", cust.vararg), 0)),) and tuple(ctor[0].d["kwargs"]) == ((None, ("kw", (), ("param", cust.kwarg))),)
        newex = ("call", ctor[0].d["func"], ctor[0].d["args"], ctor[0].d["kwargs"], None)
        if isb:
            exf = [f for f in _stored_fields(ctx, bc, "executor")]
            fnf = [f for f in _stored_fields(ctx, bc, "fn")]
            ok1 = len(exf) == 1 and a[:1] == (("attr", ("param", "delegate"), exf[0]),) and rest_ok
            rep.ob("R-CUSTOMIZE", "_customize(bound): new layer on the bound executor", ok1, "executor_class must be applied to the bound callable's executor with *args, **kwargs; found %s" % [fmt(x) for x in a], where_of(cust, ctor[0].node), trace_of(p))
            binds = [e for e in p.calls() if q.call_name(e) == "bind"]
            ok2 = len(binds) == 1 and len(fnf) == 1 and binds[0].d["args"] == (newex, ("attr", ("param", "delegate"), fnf[0])) and p.value == ("call", binds[0].d["func"], binds[0].d["args"], binds[0].d["kwargs"], None)
            rep.ob("R-CUSTOMIZE", "_customize(bound): re-binds the same function", ok2, "must return bind(new executor, the bound callable's function)", where_of(cust), trace_of(p))
        else:
            ok = a[:1] == (("param", "delegate"),) and rest_ok and p.value == newex
            rep.ob("R-CUSTOMIZE", "_customize(executor): builds the layer on the delegate", ok, "must return executor_class(delegate, *args, **kwargs)", where_of(cust, ctor[0].node), trace_of(p))
    rep.require(seen == {True, False}, "_customize: expected a bound-callable path and a plain path")

    # ---- BoundCallable
    call = bc.methods.get("__call__")
    rep.require(call is not None, "BoundCallable.__call__ not found")
    exf = _stored_fields(ctx, bc, "executor")
    fnf = _stored_fields(ctx, bc, "fn")
    rep.ob("R-BOUND", "BoundCallable.__init__ keeps executor and fn", len(exf) == 1 and len(fnf) == 1, "expected one field holding the executor parameter and one holding fn (found %s, %s)" % (exf, fnf), where_of(bc.methods["__init__"]))
    if len(exf) == 1 and len(fnf) == 1:
        ps, it = ctx.paths(call, bc, depth=0)
        for p in ps:
            subs = [e for e in p.calls() if q.call_name(e) == "submit"]
            ok = len(subs) == 1 and q.recv(subs[0]) == ("attr", ("param", "self"), exf[0]) and subs[0].d["args"] == (("attr", ("param", "self"), fnf[0]), ("star", ("seq", (), ("param", call.vararg), 0))) and tuple(subs[0].d["kwargs"]) == ((None, ("kw", (), ("param", call.kwarg))),)
            ok = ok and p.status == "return" and p.value[:2] == ("call", subs[0].d["func"])
            rep.ob("R-BOUND", "BoundCallable.__call__ submits fn once", ok, "must return self.<executor>.submit(self.<fn>, *args, **kwargs)", where_of(call), trace_of(p))
    bind = ex.methods.get("bind")
    ps, it = ctx.paths(bind, ex, depth=0)
    for p in ps:
        mk = [e for e in p.calls() if e.d["func"] == ("class", bc.key)]
        ok = len(mk) == 1 and mk[0].d["args"] == (("param", "executor"), ("param", "fn")) and p.status == "return" and p.value[0] == "new"
        rep.ob("R-BOUND", "Executors.bind returns BoundCallable(executor, fn)", ok, "", where_of(bind))

    # ---- flat_bind
    fb = ex.methods.get("flat_bind")
    ps, it = ctx.paths(fb, ex, depth=0)
    for p in ps:
        if p.status != "return":
            continue
        b = [e for e in p.calls() if q.call_name(e) == "bind"]
        w = [e for e in p.calls() if q.call_name(e) == "with_flat_map"]
        ok = len(b) == 1 and len(w) == 1 and b[0].d["args"] == (("param", "executor"), ("param", "fn")) and q.recv(w[0]) == ("call", b[0].d["func"], b[0].d["args"], b[0].d["kwargs"], None)
        ident = False
        if ok and len(w[0].d["args"]) == 1 and not w[0].d["kwargs"]:
            a = w[0].d["args"][0]
            if isinstance(a, tuple) and a[0] == "closure":
                sub = it.closures[a[2]][0]
                ps2, it2 = ctx.paths(sub, None, depth=0)
                ident = all(q2.status == "return" and len(sub.params) == 1 and q2.value == ("param", sub.params[0]) for q2 in ps2)
            elif isinstance(a, tuple) and a[0] == "func":
                sub = prog.functions[a[1]]
                ps2, it2 = ctx.paths(sub, None, depth=0)
                ident = all(q2.status == "return" and len(sub.params) == 1 and q2.value == ("param", sub.params[0]) for q2 in ps2)
        rep.ob("R-FLATBIND", "Executors.flat_bind", ok and ident and p.value == ("call", w[0].d["func"], w[0].d["args"], w[0].d["kwargs"], None), "must return cls.bind(executor, fn).with_flat_map(<identity>)", where_of(fb), trace_of(p))

    # ---- every CanCustomize class leaves a recognised name attribute
    n = 0
    for ci in prog.subclasses(cc, strict=True):
        if ci.name in ("CanCustomizeBind",):
            continue
        o, init = ci.lookup("__init__")
        if init is None:
            continue
        n += 1
        ps, it = ctx.paths(init, ci)
        for p in ps:
            if p.status == "raise":
                continue
            st = [e for e in p.evs("store") if q.self_field(e.d["target"]) and e.d["target"][2] in cands]
            key = "%s.__init__ leaves a name attribute" % ci.name
            has_name_param = "name" in init.all_param_names() or init.kwarg
            if st:
                v = st[-1].d["value"]
                src_ok = v == ("param", "name") or (isinstance(v, tuple) and v[0] == "call" and isinstance(v[1], tuple) and v[1][0] == "attr" and v[1][2] in ("pop", "get") and v[2][:1] == (("const", "name"),)) or (isinstance(v, tuple) and v[0] == "call" and v[1] == ("name", "getattr") and v[2][1][0] == "const" and v[2][1][1] in cands)
                rep.ob("R-NAME", key, src_ok, "the name attribute %s is set to %s, not to the name given" % (st[-1].d["target"][2], fmt(v)), where_of(init, st[-1].node), trace_of(p))
            else:
                # acceptable only when the wrapped object itself has no recognised name attribute
                neg = [e for e in p.calls() if q.call_name(e) == "hasattr" and p.assume.get(("call", e.d["func"], e.d["args"], e.d["kwargs"], None)) is False and e.d["args"][1][0] == "const" and e.d["args"][1][1] in cands]
                ok = len(set(e.d["args"][1][1] for e in neg)) == len(cands) and not ("name" in init.all_param_names())
                if ci.name == "CustomizableProcessPoolExecutor":
                    rep.exception("R-NAME", key, "process pools take no name (kwargs.pop('name') discards it); C19 is about layers that create threads")
                    continue
                rep.ob("R-NAME", key, ok, "a constructor path leaves no attribute among %s, so layers chained onto this object are named 'default'" % cands, where_of(init), trace_of(p))
    rep.count("CanCustomize classes with a constructor", n, 11)

    # ---- thread names embed the name
    for owner, target, node, initfi in ctx.types.thread_targets:
        ps, it = ctx.paths(initfi, owner)
        for p in ps:
            if p.status == "raise":
                continue
            th = [e for e in p.calls() if e.d["func"] == ("ext", "threading.Thread")]
            rep.require(len(th) == 1, "%s.__init__: expected one Thread(...) per path" % owner.name)
            kw = dict((k, v) for k, v in th[0].d["kwargs"] if k)
            nm = kw.get("name")
            ok = isinstance(nm, tuple) and nm[0] == "bin" and nm[1] == "%" and nm[2][0] == "const" and "%s" in str(nm[2][1]) and (nm[3] == ("param", "name") or nm[3] == ("attr", ("param", "self"), "_name") and p.heap.get(nm[3]) in (None, ("param", "name")))
            rep.ob("R-NAME", "%s thread name embeds the executor name" % owner.name, ok, "Thread(name=...) must be built from the executor's name, found %s" % (fmt(nm) if nm else None), where_of(initfi, th[0].node))


def _shift(ev):
    """view of a call event without its first positional argument (the explicit self)"""
    class V(object):
        pass
    v = V()
    v.d = dict(ev.d)
    v.d["args"] = tuple(ev.d["args"][1:])
    return v


def _stored_fields(ctx, ci, param):
    init = ci.methods["__init__"]
    ps, it = ctx.paths(init, ci, depth=0)
    out = set()
    for p in ps:
        for e in p.evs("store"):
            if q.self_field(e.d["target"]) and e.d["value"] == ("param", param):
                out.add(e.d["target"][2])
    return sorted(out)
