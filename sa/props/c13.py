"""C13 -- map / flat_map laws: fn on success, error_fn on failure, exceptions preserved.

Decided, for every concrete MapFuture subclass (MapFuture, FlatMapFuture in both stages, ThrottleFuture,
NoCancelFuture, ProxyFuture) and every path of the single resolution callback with its helpers inlined:
  R-TABLE    which user function is called, how often and with what; what becomes the outcome:
               delegate value      -> map_fn(value) x1;   returns r -> on_mapped(r);  raises -> that exception
               delegate exception  -> no error_fn: the delegate's own exception (copied from the delegate)
                                      error_fn(x) x1, map_fn not called; returns r -> on_mapped(r);
                                      raises x again -> copied from the delegate; raises y -> y
               delegate cancelled  -> no user call; the future ends cancelled
               on_mapped raises    -> that exception
             MapFuture.on_mapped(r) = tolerant set_result(r).  FlatMapFuture stage 1: r not future-like ->
             TypeError; else become stage 2 with both user functions neutralised and r as the new delegate.
             Stage 2 mirrors the delegate verbatim with no user call.
  R-DEFAULT  omitted functions act as identity (f_return for flat_map)
  R-PLUMB    f_map / f_flat_map / MapExecutor hand fn and error_fn to the future unchanged
  R-EXC-SAME the copy helpers hand the exception object on unchanged: no with_traceback() / add_note() on it, no
             store into its attributes (shared with C01)
Not decided: `map g . map h = map (h . g)` as an extensional law.
"""
from ..core import where_of, trace_of
from ..interp import fmt, contains, subterms
from ..model import AnalysisError, ClassInfo
from .. import q
from .c03 import terminal_on, infeasible, cancelling_flags
from .c02 import _no_cb_inline


MR = [None]


def check(ctx, rep):
    prog = ctx.prog
    rep.rule("R-TABLE", "resolution table of MapFuture._delegate_resolved (helpers inlined) per class and stage: user functions called (which, how often, with what) and the resulting outcome for each delegate outcome x error_fn behaviour x map_fn behaviour x on_mapped behaviour")
    rep.rule("R-DEFAULT", "an omitted map function is the identity (f_return for flat_map); an omitted error function means the delegate's exception is propagated as is")
    rep.rule("R-EXC-SAME", "a failure travels through the copy helpers as the same, unchanged exception object: nothing on the way calls with_traceback()/add_note() on it or stores into its attributes (its traceback stays the one it was raised with)")
    from .c01 import exc_untouched_rule
    exc_untouched_rule(ctx, rep, "R-EXC-SAME")
    rep.rule("R-PLUMB", "fn / error_fn given to MapExecutor, FlatMapExecutor, f_map and f_flat_map reach the future's map / error function fields unchanged, and the future is built on the delegate's future of the same submission")
    from ..roles import map_roles
    M = MR[0] = map_roles(ctx)
    mf = M.mf
    from ..roles import registered_callbacks, is_identity, bound, std_inline
    cbs = [m for m, recv in registered_callbacks(ctx, mf).values() if recv != ("param", "self")]
    rep.require(len(cbs) == 1, "MapFuture: expected exactly one callback registered on the delegate, found %s" % [m.qualname for m in cbs])
    cb = cbs[0]
    CBNAME[0] = cb.name
    SELF = ("param", "self")
    D = ("param", cb.params[1])
    MAPF = ("attr", SELF, M.mapf)
    ERRF = ("attr", SELF, M.errf)
    flags = cancelling_flags(ctx)
    classes = [c for c in prog.subclasses(mf) if c.lookup(cb.name)[1] is cb]
    rep.count("MapFuture classes sharing the resolution callback", len(classes), 5)
    # composition (map . map) works through done-callbacks: the inner map future's completion and the outer one's
    # callback registration must exclude each other, or the outer function is never called (shared with C02)
    from .c02 import trans_rule, addcb_rule
    from ..roles import proto
    trans_rule(ctx, rep, classes, proto(ctx).dispatch, proto(ctx).lock)
    addcb_rule(ctx, rep)
    from .c02 import dispatch_rule
    dispatch_rule(ctx, rep)
    for ci in classes:
        stages = [("", None)]
        if ci is M.fmf:
            stages = [(" stage 1", ((("attr", SELF, M.flat), ("const", False)),)),
                      (" stage 2", None)]
        for sname, pre in stages:
            if sname == " stage 2":
                pre = _stage2_entry(ctx, rep, ci, cb)
            ps, it = ctx.paths(cb, ci, depth=7, pre=pre, inline=_no_cb_inline)
            seen = set()
            for p in ps:
                if infeasible(p):
                    continue
                row = _row(p, it, D, MAPF, ERRF, SELF, flags, ci, pre)
                name = "%s%s" % (ci.name, sname)
                if row is None:
                    continue
                case, ok, detail = row
                seen.add(case.split(" [")[0])
                rep.ob("R-TABLE", "%s: %s" % (name, case), ok, detail, where_of(cb), trace_of(p))
            want = {"delegate cancelled", "delegate failed, no error_fn", "delegate value"}
            if sname != " stage 2":
                want |= {"delegate failed, error_fn returns", "delegate failed, error_fn re-raises the same exception", "delegate failed, error_fn raises another exception", "delegate value, map_fn raises"}
            rep.ob("R-TABLE", "%s%s: all table rows reached" % (ci.name, sname), want <= seen, "rows without a path: %s" % sorted(want - seen), where_of(cb))

    # ---- defaults
    for cname, default in (("MapFuture", "identity"), ("FlatMapFuture", "f_return")):
        ci = prog.cls(cname)
        init = ci.methods.get("__init__")
        ps, it = ctx.paths(init, ci, depth=1, inline=_init_only)
        for p in ps:
            if p.status == "raise":
                continue
            st = [e for e in p.evs("store") if e.d["target"] == MAPF]
            rep.require(st, "%s.__init__: store of the map function not found" % cname)
            v = st[-1].d["value"]
            if v == ("param", "map_fn"):
                # the given function is kept: only acceptable on a path that established it was given
                given = any((t == ("param", "map_fn") and tv) or (isinstance(t, tuple) and t[0] == "cmp" and t[1] == "is" and t[2] == ("param", "map_fn") and t[3] == ("const", None) and not tv) for t, tv in p.branch_atoms())
                rep.ob("R-DEFAULT", "%s: a given map function is kept" % cname, given, "map_fn is stored without testing whether it was given", where_of(init))
                continue
            if default == "identity":
                okid = False
                sub = prog.functions.get(v[1]) if isinstance(v, tuple) and v[0] == "func" else (it.closures[v[2]][0] if isinstance(v, tuple) and v[0] == "closure" else None)
                if sub is not None:
                    ps2, _ = ctx.paths(sub, None, depth=0)
                    okid = len(sub.params) == 1 and all(p2.status == "return" and p2.value == ("param", sub.params[0]) for p2 in ps2)
                rep.ob("R-DEFAULT", "%s: omitted map function defaults to the identity" % cname, okid, "the default map function %s is not the identity" % fmt(v), where_of(init))
            else:
                rep.ob("R-DEFAULT", "%s: omitted map function defaults to %s" % (cname, default), q.term_name(v) == default, "default is %s" % fmt(v), where_of(init))
            se = [e for e in p.evs("store") if e.d["target"] == ERRF]
            rep.ob("R-DEFAULT", "%s: error function stored as given (None = propagate)" % cname, bool(se) and se[-1].d["value"] == ("param", "error_fn"), "stored %s" % (fmt(se[-1].d["value"]) if se else None), where_of(init))

    # ---- plumbing: executors
    for cname in ("MapExecutor", "FlatMapExecutor"):
        ci = prog.cls(cname)
        o, init = ci.lookup("__init__")
        ps, it = ctx.paths(init, ci, depth=0)
        for p in ps:
            if p.status == "raise":
                continue
            fnv = p.heap.get(("attr", SELF, M.xfn))
            erv = p.heap.get(("attr", SELF, M.xerrf))
            rep.ob("R-PLUMB", "%s.__init__ keeps fn" % cname, fnv == ("param", "fn"), "stores %s" % (fmt(fnv) if fnv else None), where_of(init))
            ok = isinstance(erv, tuple) and erv[0] == "call" and erv[1] == ("attr", ("kw", (), ("param", init.kwarg)), "get") and erv[2][:1] == (("const", "error_fn"),) and (len(erv[2]) == 1 or erv[2][1] == ("const", None))
            rep.ob("R-PLUMB", "%s.__init__ keeps error_fn" % cname, ok, "stores %s" % (fmt(erv) if erv else None), where_of(init))
        o, sub = ci.lookup("submit")
        ps, it = ctx.paths(sub, ci, depth=0)
        want_cls = "MapFuture" if cname == "MapExecutor" else "FlatMapFuture"
        for p in ps:
            if p.status != "return":
                continue
            subs = [e for e in p.calls() if q.call_name(e) == "submit" and q.recv(e) == ("attr", SELF, "_delegate")]
            mk = [e for e in p.calls() if isinstance(e.d["func"], tuple) and e.d["func"][0] == "class" and e.d["func"][1].split(":")[-1] == want_cls]
            ok = len(subs) == 1 and len(mk) == 1
            if ok:
                b = bound(mk[0], prog)
                vals = [v for k, v in b.items() if isinstance(v, tuple)]
                ok = any(v[:2] == ("call", subs[0].d["func"]) for v in vals) and b.get("map_fn") == ("attr", SELF, M.xfn) and b.get("error_fn") == ("attr", SELF, M.xerrf)
            rep.ob("R-PLUMB", "%s.submit builds a %s on this submission's delegate future with (fn, error_fn)" % (cname, want_cls), ok, "constructed: %s" % ([fmt(e.d["func"]) + str([fmt(a) for a in e.d["args"]]) for e in mk]), where_of(sub), trace_of(p))
    # ---- plumbing: f_map / f_flat_map
    wrapf = prog.fn("base:wrap")
    for fname, meth in (("f_map", "with_map"), ("f_flat_map", "with_flat_map")):
        fi = prog.fn("futures.map:" + fname)
        ps, it = ctx.paths(fi, None, depth=0)
        for p in ps:
            if p.status != "return":
                continue
            w = [e for e in p.calls() if e.d["callee"] is wrapf]
            m = [e for e in p.calls() if q.call_name(e) == meth]
            ok = len(w) == 1 and w[0].d["args"] == (("param", fi.params[0]),) and len(m) == 1 and q.recv(m[0])[:2] == ("call", w[0].d["func"])
            kw = dict((k, v) for k, v in m[0].d["kwargs"] if k) if m else {}
            pos = m[0].d["args"] if m else ()
            fnv = kw.get("fn", pos[0] if pos else None)
            erv = kw.get("error_fn")
            ok = ok and fnv == ("param", "fn") and erv == ("param", "error_fn")
            v = p.value
            called = isinstance(v, tuple) and v[0] == "call" and m and v[1][:2] == ("call", m[0].d["func"]) and not v[2] and not v[3]
            rep.ob("R-PLUMB", "%s = wrap(future).%s(fn=fn, error_fn=error_fn)()" % (fname, meth), ok and called, "found %s" % fmt(v), where_of(fi), trace_of(p))
    decorator_rule(ctx, rep, "R-PLUMB", [prog.fn("futures.map:f_map"), prog.fn("futures.map:f_flat_map")])
    ps, it = ctx.paths(wrapf, None, depth=0)
    for p in ps:
        if p.status != "return":
            continue
        fb = [e for e in p.calls() if q.call_name(e) == "flat_bind"]
        okw = len(fb) == 1 and len(fb[0].d["args"]) == 1 and fb[0].d["args"][0][0] == "closure"
        if okw:
            sub = it.closures[fb[0].d["args"][0][2]][0]
            ps2, _ = ctx.paths(sub, None, depth=0)
            okw = not sub.params and all(p2.status == "return" and q.term_name(p2.value) == wrapf.params[0] for p2 in ps2)
        rep.ob("R-PLUMB", "wrap(f) = EXECUTOR.flat_bind(lambda: f)", okw, "", where_of(wrapf))


def decorator_rule(ctx, rep, rule, fns):
    """the argument-checking decorators on the public f_* functions hand the caller's arguments on untouched: the
    decorated function is called once with (*args, **kwargs) exactly as received, and what it returns is returned"""
    import ast as _ast
    prog = ctx.prog
    seen = set()
    for fi in fns:
        for dec in getattr(fi.node, "decorator_list", []):
            if not isinstance(dec, _ast.Name):
                continue
            dfi = None
            for cand in prog.functions.values():
                if cand.parent is None and cand.owner is None and cand.name == dec.id and len(cand.params) == 1 and cand.nested:
                    dfi = cand
            if dfi is None or dfi.key in seen:
                continue
            seen.add(dfi.key)
            for sub in dfi.nested.values():
                if not (sub.vararg and sub.kwarg):
                    continue
                ps, it = ctx.paths(sub, None, depth=0)
                for p in ps:
                    if p.status != "return":
                        continue
                    cs = [e for e in p.calls() if e.d["func"] in (("free", dfi.params[0]), ("param", dfi.params[0]))]
                    ok = len(cs) == 1 and q.args_forwarded(cs[0], sub, skip=0)[0] and p.value == q.result_of(cs[0])
                    touched = [e for e in p.calls() if q.call_name(e) in ("pop", "popitem", "clear", "update", "setdefault", "remove", "insert", "append") and q.recv(e) in (("param", sub.kwarg), ("param", sub.vararg), ("kw", (), ("param", sub.kwarg)))]
                    touched += [e for e in p.evs("store") + p.evs("del") if isinstance(e.d.get("target"), tuple) and e.d["target"][0] == "sub" and e.d["target"][1] in (("param", sub.kwarg), ("kw", (), ("param", sub.kwarg)))]
                    rep.ob(rule, "@%s passes the caller's arguments on unchanged" % dfi.name, ok and not touched, "the wrapper %s the decorated function with (*args, **kwargs) as received%s: an argument given by keyword (f_map(future=f, fn=g)) no longer reaches it" % ("does not call" if not ok else "calls", "" if not touched else " but changes them first (%s)" % ", ".join(sorted(set(q.call_name(e) or e.kind for e in touched)))), where_of(sub), trace_of(p))
    rep.count("argument-checking decorators analysed", len(seen), 1)


def _init_only(callee, ev, path):
    return callee.name == "__init__" and callee.owner is not None and callee.owner.name in ("MapFuture", "FlatMapFuture")


def flatten_rule(ctx, rep):
    """shared with C01: the flat-map layer hands on the returned future's own outcome -- the user's functions are
    disarmed before the layer starts following that future"""
    from ..roles import registered_callbacks, map_roles
    M = MR[0] = map_roles(ctx)
    cbs = [m for m, recv in registered_callbacks(ctx, M.mf).values() if recv != ("param", "self")]
    rep.require(len(cbs) == 1, "MapFuture: expected exactly one callback registered on the delegate")
    CBNAME[0] = cbs[0].name
    if "R-TABLE" not in rep.rules:
        rep.rule("R-TABLE", "flat-map stage transition: the future returned by the user's function becomes the delegate, and the map / error functions are neutralised before the resolution callback is registered on it")
    _stage2_entry(ctx, rep, M.fmf, cbs[0])


def _stage2_entry(ctx, rep, ci, cb):
    """field state left by the flatten transition of stage 1 = entry state of stage 2.  Found on the paths of the
    resolution callback (stage-1 entry state) that register the callback again on the value returned by the user's
    function; no helper is referred to by name."""
    from ..roles import is_identity, std_inline
    SELF = ("param", "self")
    M = MR[0]
    FLAT = ("attr", SELF, M.flat)
    # the stage flag: a field of the class initialised False by the constructor and stored True on the re-point path
    ps, it = ctx.paths(cb, ci, depth=7, pre=((FLAT, ("const", False)),), inline=_no_cb_inline)
    entry = None
    saw_type_error = False
    for p in ps:
        if infeasible(p):
            continue
        regs = [e for e in p.calls() if q.call_name(e) == "add_done_callback" and len(e.d["args"]) == 1 and e.d["args"][0] == ("attr", SELF, cb.name) and q.recv(e) != ("param", cb.params[1])]
        for c in p.evs("catch"):
            exc = c.d["exc"]
            if isinstance(exc, tuple) and exc[1] == "TypeError":
                saw_type_error = True
        if not regs or p.status != "return":
            continue
        ucalls = [e for e in p.calls() if e.d.get("user")]
        if not ucalls:
            continue
        r = q.result_of(ucalls[-1])
        newd = q.recv(regs[0])
        dv = p.heap.get(("attr", SELF, M.deleg))
        rep.ob("R-TABLE", "FlatMapFuture stage 1 -> 2: the returned future becomes the delegate", (newd == r or newd == ("attr", SELF, M.deleg)) and dv == r, "the resolution callback must be registered on the future returned by the user's function (registered on %s, delegate is %s)" % (fmt(newd), fmt(dv) if dv else None), where_of(regs[0].fn, regs[0].node), trace_of(p))
        st = {}
        for k in (M.flat, M.mapf, M.errf):
            st[k] = p.heap.get(("attr", SELF, k))
        mfv = st.get(M.mapf)
        rep.ob("R-TABLE", "FlatMapFuture stage 1 -> 2: map function neutralised", mfv is not None and is_identity(ctx, mfv), "after flattening _map_fn is %s" % (fmt(mfv) if mfv else "unchanged (the user's function would be applied to the flattened result again)"), where_of(regs[0].fn, regs[0].node), trace_of(p))
        rep.ob("R-TABLE", "FlatMapFuture stage 1 -> 2: error function neutralised", st.get(M.errf) == ("const", None), "after flattening _error_fn is %s: a failure of the flattened future would be handed to the user's error_fn and its return value would become the output's *value*" % (fmt(st[M.errf]) if st.get(M.errf) else "left armed"), where_of(regs[0].fn, regs[0].node), trace_of(p))
        rep.ob("R-TABLE", "FlatMapFuture stage 1 -> 2: stage recorded", st.get(M.flat) == ("const", True), "", where_of(regs[0].fn, regs[0].node))
        late = [e for e in p.evs("store") if e.seq > regs[0].seq and e.d["target"][0] == "attr" and e.d["target"][1] == SELF and e.d["target"][2] in st]
        rep.ob("R-TABLE", "FlatMapFuture stage 1 -> 2: neutralised before the new delegate is registered", not late, "%s is set only after the resolution callback was registered on the returned future: if that future is already done the callback runs first, with the user's functions still armed" % ", ".join(sorted(set(e.d["target"][2] for e in late))), where_of(regs[0].fn, regs[0].node), trace_of(p))
        entry = tuple(sorted(((("attr", SELF, k), v) for k, v in st.items() if v is not None), key=lambda kv: kv[0][2]))
    rep.require(entry is not None, "FlatMapFuture: flatten transition not found on the resolution callback's paths")
    rep.ob("R-TABLE", "FlatMapFuture stage 1: a non-future result raises TypeError", saw_type_error, "no path raises (and reports) a TypeError for a result without add_done_callback", where_of(cb))
    return entry


CBNAME = [None]


def _row(p, it, D, MAPF, ERRF, SELF, flags, ci, pre):
    """classify a path of the resolution callback and compare with the specified row"""
    # infeasible: `self.done()` answering False after a state transition on self succeeded on this path
    first_term = None
    for e in p.events:
        if first_term is None and terminal_on(e, SELF, it, p):
            first_term = e
        if first_term is not None and e.kind == "branch" and e.d[1] is False and isinstance(e.d[0], tuple) and e.d[0][0] == "call" and e.d[0][1] == ("attr", SELF, "done"):
            return None
    atoms = {}
    for t, v, e in q.atoms(p):
        if isinstance(t, tuple) and t[0] == "call" and t[1] == ("attr", D, "cancelled"):
            atoms.setdefault("cancelled", v)
        elif isinstance(t, tuple) and t[0] == "cmp" and t[1] == "is" and t[2][:2] == ("call", ("attr", D, "exception")) and t[3] == ("const", None):
            atoms.setdefault("failed", not v)
        elif isinstance(t, tuple) and t[0] == "call" and t[1] == ("attr", D, "exception"):
            atoms.setdefault("failed", v)
            atoms["truthiness"] = e
        elif isinstance(t, tuple) and t[0] == "cmp" and t[1] == "is" and t[2] == ERRF and t[3] == ("const", None):
            atoms.setdefault("no_error_fn", v)
        elif isinstance(t, tuple) and t[0] == "cmp" and t[1] in ("is", "==") and any(isinstance(x, tuple) and x[:1] == ("exc",) for x in (t[2], t[3])):
            atoms.setdefault("same_exc", v)
            if t[1] != "is":
                atoms["same_by_equality"] = e
    ucalls = [e for e in p.calls() if e.d.get("user")]
    # with stage-2 preconditions the map function is a library closure (inlined), never a user call
    map_calls = [e for e in ucalls if e.d["func"] == MAPF or e.d["func"] == dict(pre or ()).get(MAPF)]
    err_calls = [e for e in ucalls if e.d["func"] == ERRF]
    other = [e for e in ucalls if e not in map_calls and e not in err_calls]
    res = [e for e in p.calls() if terminal_on(e, SELF, it, p) and q.call_name(e) == "set_result"]
    exc = [e for e in p.calls() if terminal_on(e, SELF, it, p) and q.call_name(e) in ("set_exception", "set_exception_info")]
    cxl = [e for e in p.calls() if terminal_on(e, SELF, it, p) and q.call_name(e) == "cancel"]
    from_delegate = any(c.d["callee"] is not None and c.d["callee"].name == "copy_future_exception" and c.d["args"][:2] == (D, SELF) for c in p.calls())
    from_current = any(c.d["callee"] is not None and c.d["callee"].name == "copy_exception" and c.d["args"] == (SELF,) for c in p.calls())
    raised = [e for e in p.evs("raise")]
    caught = p.evs("catch")
    repoint = [e for e in p.calls() if q.call_name(e) == "add_done_callback" and len(e.d["args"]) == 1 and isinstance(e.d["args"][0], tuple) and e.d["args"][0][0] == "attr" and e.d["args"][0][1] == SELF and e.d["args"][0][2] == CBNAME[0]]
    stage2 = pre is not None and dict(pre).get(("attr", SELF, MR[0].flat)) == ("const", True)
    guards = [1 for t, v in p.branch_atoms() if v and ((isinstance(t, tuple) and t[0] == "call" and t[1] == ("attr", SELF, "done")) or (isinstance(t, tuple) and t[0] == "attr" and t[1] == SELF and t[2] in flags))]
    if "truthiness" in atoms:
        return ("delegate outcome decided by identity", False, "success/failure of the delegate is decided by the truth value of delegate.exception(): an exception object that is falsy (e.g. an aggregate error with __len__ == 0) would be mapped as a success; compare with None by identity")
    if other:
        return ("unexpected user call", False, "calls %s" % fmt(other[0].d["func"]))
    if p.status == "raise":
        return ("callback raises", False, "the resolution callback exits by exception %s" % fmt(p.value))
    if atoms.get("cancelled"):
        ok = not ucalls and not res and not exc and (bool(cxl) or bool(guards))
        return ("delegate cancelled", ok, "a cancelled delegate must cancel the future without calling user functions (user calls %d, cancelled %s)" % (len(ucalls), bool(cxl)))
    if atoms.get("failed"):
        if stage2 or atoms.get("no_error_fn"):
            ok = not ucalls and from_delegate and bool(exc) and not res
            return ("delegate failed, no error_fn", ok, "the delegate's own exception must be copied from the delegate, no user call (user calls %d, copied from delegate %s)" % (len(ucalls), from_delegate))
        if atoms.get("no_error_fn") is None and not err_calls:
            return None
        if len(err_calls) != 1 or map_calls:
            return ("delegate failed, error_fn set", False, "error_fn must be called exactly once and map_fn not at all (error_fn x%d, map_fn x%d)" % (len(err_calls), len(map_calls)))
        a = err_calls[0].d["args"]
        argok = len(a) == 1 and isinstance(a[0], tuple) and a[0][:2] == ("call", ("attr", D, "exception")) and not err_calls[0].d["kwargs"]
        if not argok:
            return ("delegate failed, error_fn set", False, "error_fn must receive the delegate's exception, got %s" % [fmt(x) for x in a])
        user_raised = any(r_.seq > err_calls[0].seq and r_.d[2] and r_.d[2][0] == "from" for r_ in raised if isinstance(r_.d, tuple) and len(r_.d) > 2 and isinstance(r_.d[2], tuple))
        if user_raised and caught:
            if "same_by_equality" in atoms:
                return ("delegate failed, error_fn raises", False, "whether error_fn re-raised the delegate's exception is decided by ==, not by identity: an equal but different exception object would lose its own traceback / identity")
            if atoms.get("same_exc"):
                ok = from_delegate and bool(exc) and not res
                return ("delegate failed, error_fn re-raises the same exception", ok, "re-raising the delegate's exception must keep it (copied from the delegate, with its traceback)")
            ok = from_current and bool(exc) and not res and not from_delegate
            return ("delegate failed, error_fn raises another exception", ok, "the exception raised by error_fn must become the outcome (copy_exception of the current exception)")
        return _mapped("delegate failed, error_fn returns", p, err_calls[0], res, exc, cxl, repoint, guards, from_current, ci, stage2)
    # value
    if stage2:
        ok = not ucalls and len(res) == 1 and _res_arg(res[0], SELF)[:2] == ("call", ("attr", D, "result")) and not exc
        return ("delegate value", ok, "stage 2 must mirror the flattened future's value with no user call (user calls %d, set_result(%s))" % (len(ucalls), fmt(_res_arg(res[0], SELF)) if res else None))
    if len(map_calls) != 1 or err_calls:
        if not map_calls and not err_calls and guards:
            return None
        return ("delegate value", False, "map_fn must be called exactly once and error_fn not at all (map_fn x%d, error_fn x%d)" % (len(map_calls), len(err_calls)))
    a = map_calls[0].d["args"]
    argok = len(a) == 1 and isinstance(a[0], tuple) and a[0][:2] == ("call", ("attr", D, "result")) and not map_calls[0].d["kwargs"]
    if not argok:
        return ("delegate value", False, "map_fn must receive the delegate's result, got %s" % [fmt(x) for x in a])
    user_raised = any(isinstance(r_.d, tuple) and len(r_.d) > 2 and isinstance(r_.d[2], tuple) and r_.d[2][0] == "from" for r_ in raised)
    if user_raised:
        ok = from_current and bool(exc) and not res
        return ("delegate value, map_fn raises", ok, "an exception from map_fn must become the outcome")
    return _mapped("delegate value", p, map_calls[0], res, exc, cxl, repoint, guards, from_current, ci, stage2)


def _res_arg(e, SELF):
    return e.d["args"][0] if e.d["args"] else ("?",)


def _mapped(case, p, ucall, res, exc, cxl, repoint, guards, from_current, ci, stage2):
    """after a user function returned r: on_mapped(r)"""
    r = ("call", ucall.d["func"], ucall.d["args"], ucall.d["kwargs"], None)
    flat = ci.name == "FlatMapFuture"
    if not flat:
        if guards and not res:
            return (case + " [already done]", True, "")
        ok = len(res) == 1 and _res_arg(res[0], None) == r and not exc
        return (case, ok, "the value returned by the user function must become the result (set_result(%s))" % (fmt(_res_arg(res[0], None)) if res else None))
    # flat_map stage 1
    if p.evs("catch") and from_current:
        ok = bool(exc) and not res
        return (case + " [returned a non-future]", ok, "a non-future result must fail the future with the TypeError")
    if repoint:
        ok = not res and not exc
        return (case + " [returned a future]", ok, "the returned future must become the new delegate, nothing is resolved yet")
    if guards:
        return (case + " [already done]", True, "")
    return (case, False, "the value returned by the user function is neither adopted as delegate nor rejected")
