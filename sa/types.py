"""Light-weight static type facts: field types, parameter types, lock kinds,
user-callable taint.  All inferred from constructor assignments and call sites in
the package source; used only to *resolve callees* and to classify locks.
"""
import ast

from .model import ClassInfo, FunctionInfo, mangle, _dotted, AnalysisError

# external constructors we care about: dotted import target -> short kind
EXT_KINDS = {
    "threading.Lock": "Lock",
    "threading.RLock": "RLock",
    "threading.Event": "Event",
    "threading.Thread": "Thread",
    "threading.Condition": "Condition",
    "collections.deque": "deque",
    "concurrent.futures.Future": "Future",
    "weakref.ref": "weakref",
    "functools.partial": "partial",
}

# public parameters through which user-supplied callables / policy objects enter
SEED_PARAMS = {"fn", "error_fn", "map_fn", "poll_fn", "cancel_fn", "retry_policy", "count"}
SEED_KWARGS_KEYS = {"error_fn"}


class Types(object):
    def __init__(self, prog):
        self.prog = prog
        self.field_types = {}  # (class key, field) -> set of type ids
        self.elem_types = {}  # (class key, container field) -> set of element type ids (package classes only)
        self.param_types = {}  # (fn key, param) -> set of type ids
        self.global_types = {}  # (module, name) -> set
        self.deref_types = {}  # (fn key, param) -> class key : param is a weakref to that class
        self.thread_targets = []  # (owner ClassInfo, target FunctionInfo, Thread call node, fn)
        self.thread_factories = set()  # keys of generic helper functions that build the Thread object
        self.tainted_fields = set()  # field names holding user-supplied callables / objects
        self.tainted_containers = set()  # field names of containers holding user callables
        self._fimports = {}
        self._rt_stack = set()
        self._rt_cache = {}
        self._frozen = False
        self._infer()

    # type ids: "C:<class key>" for package classes, "E:<kind>" for externals
    @staticmethod
    def cid(ci):
        return "C:" + ci.key

    def cls_of(self, tid):
        if tid and tid.startswith("C:"):
            return self.prog.classes.get(tid[2:])
        return None

    # ---------------------------------------------------------------- inference
    def _resolve_name(self, fi, name):
        # function-level imports (used to break import cycles)
        f = fi
        while f is not None:
            cache = self._fimports.get(f.key)
            if cache is None:
                cache = {}
                for node in ast.walk(f.node):
                    if isinstance(node, ast.ImportFrom):
                        target = self.prog._abs_import(f.module, node.level, node.module)
                        for a in node.names:
                            cache[a.asname or a.name] = (target, a.name)
                self._fimports[f.key] = cache
            if name in cache:
                target, sym = cache[name]
                if target in self.prog.modules:
                    return self.prog.resolve_symbol(target, sym)
                return ("ext", "%s.%s" % (target, sym))
            f = f.parent
        return self.prog.resolve_symbol(fi.module.name, name)

    def _local_assigns(self, fi):
        """name -> list of value exprs assigned to a plain local name in fi (flow-insensitive)."""
        out = {}
        for node in ast.walk(fi.node):
            if isinstance(node, ast.Assign):
                for t in node.targets:
                    if isinstance(t, ast.Name):
                        out.setdefault(t.id, []).append(node.value)
            elif isinstance(node, (ast.With,)):
                for it in node.items:
                    if isinstance(it.optional_vars, ast.Name):
                        out.setdefault(it.optional_vars.id, []).append(it.context_expr)
            elif isinstance(node, ast.For):
                # for x in <iterable> / for (i, x) in enumerate(<iterable>): x is an element of the iterable
                tgt, itx = node.target, node.iter
                if isinstance(itx, ast.Call) and isinstance(itx.func, ast.Name) and itx.func.id == "enumerate" and itx.args and isinstance(tgt, ast.Tuple) and len(tgt.elts) == 2:
                    tgt, itx = tgt.elts[1], itx.args[0]
                if isinstance(tgt, ast.Name):
                    out.setdefault(tgt.id, []).append(ast.Subscript(value=itx, slice=ast.Constant(value=0), ctx=ast.Load()))
        return out

    def static_type(self, expr, fi, locals_=None, depth=0):
        """set of type ids for an expression evaluated inside fi (flow-insensitive)."""
        if depth > 24 or expr is None:
            return set()
        if locals_ is None:
            locals_ = self._locals_cache.setdefault(fi.key, self._local_assigns(fi))
        if isinstance(expr, ast.Name):
            n = expr.id
            if n in ("self",) and fi.owner is not None and fi.params and fi.params[0] == "self":
                return {self.cid(fi.owner)}
            f = fi
            while f is not None:
                if n in f.all_param_names():
                    if n == "self" and f.owner is not None:
                        return {self.cid(f.owner)}
                    return set(self.param_types.get((f.key, n), set()))
                loc = self._locals_cache.setdefault(f.key, self._local_assigns(f))
                if n in loc:
                    out = set()
                    for v in loc[n]:
                        out |= self.static_type(v, f, loc, depth + 1)
                    return out
                f = f.parent
            r = self._resolve_name(fi, n)
            if r[0] == "global":
                return set(self.global_types.get((r[1], r[2]), set()))
            return set()
        if isinstance(expr, ast.Call):
            d = _dotted(expr.func)
            if isinstance(expr.func, ast.Name):
                r = self._resolve_name(fi, expr.func.id)
                if r[0] == "class":
                    return {self.cid(r[1])}
                if r[0] == "ext" and r[1] in EXT_KINDS:
                    return {"E:" + EXT_KINDS[r[1]]}
                if r[0] == "func":
                    return self._return_type(r[1], depth)
                if r[0] == "global":
                    # alias of a bound method:  get_event = GLOBAL_HANDLER.get_event
                    gm = self.prog.modules.get(r[1])
                    vals = gm.assigns.get(r[2], []) if gm else []
                    if len(vals) == 1 and isinstance(vals[0], ast.Attribute) and isinstance(vals[0].value, ast.Name):
                        for t in self.global_types.get((r[1], vals[0].value.id), set()):
                            ci = self.cls_of(t)
                            if ci is not None:
                                o, m = ci.lookup(vals[0].attr)
                                if m is not None:
                                    return self._return_type(m, depth)
                    return set()
                # calling a weakref parameter
                f = fi
                while f is not None:
                    k = (f.key, expr.func.id)
                    if k in self.deref_types:
                        return {self.deref_types[k]}
                    f = f.parent
                return set()
            if isinstance(expr.func, ast.Attribute):
                # self._FUTURE_CLASS(...)  /  Executors.sync(...)
                bt = self.static_type(expr.func.value, fi, locals_, depth + 1)
                for t in bt:
                    ci = self.cls_of(t)
                    if ci is None:
                        continue
                    owner, cav = ci.class_attr(expr.func.attr)
                    if cav is not None and isinstance(cav, ast.Name):
                        r = self.prog.resolve_symbol(owner.module.name, cav.id)
                        if r[0] == "class":
                            return {self.cid(r[1])}
                    o, m = ci.lookup(expr.func.attr)
                    if m is not None:
                        return self._return_type(m, depth)
                if isinstance(expr.func.value, ast.Name) and fi.is_classmethod and fi.owner is not None and fi.params and expr.func.value.id == fi.params[0]:
                    o, m = fi.owner.lookup(expr.func.attr)
                    if m is not None:
                        return self._return_type(m, depth)
                if isinstance(expr.func.value, ast.Name):
                    r = self._resolve_name(fi, expr.func.value.id)
                    if r[0] == "class":
                        o, m = r[1].lookup(expr.func.attr)
                        if m is not None:
                            return self._return_type(m, depth)
                    if r[0] == "mod" and ("%s.%s" % (r[1], expr.func.attr)) in EXT_KINDS:
                        return {"E:" + EXT_KINDS["%s.%s" % (r[1], expr.func.attr)]}
            return set()
        if isinstance(expr, ast.Attribute):
            attr = mangle(fi.cls.name if fi.cls else None, expr.attr)
            bt = self.static_type(expr.value, fi, locals_, depth + 1)
            out = set()
            for t in bt:
                ci = self.cls_of(t)
                if ci is None:
                    continue
                for c in ci.mro():
                    if isinstance(c, ClassInfo):
                        out |= self.field_types.get((c.key, attr), set())
            return out
        if isinstance(expr, ast.Subscript) and not isinstance(expr.slice, ast.Slice):
            # an element of a container field whose element classes are known
            base = expr.value
            for _ in range(4):
                if isinstance(base, ast.Subscript) and isinstance(base.slice, ast.Slice):
                    base = base.value  # xs[:]
                elif isinstance(base, ast.Call) and isinstance(base.func, ast.Name) and base.func.id in ("list", "tuple", "sorted", "reversed", "iter") and base.args:
                    base = base.args[0]
                elif isinstance(base, ast.Call) and isinstance(base.func, ast.Attribute) and base.func.attr in ("copy", "keys", "values") and not base.args:
                    base = base.func.value
                else:
                    break
            out = set()
            if isinstance(base, ast.Attribute):
                attr = mangle(fi.cls.name if fi.cls else None, base.attr)
                for t in self.static_type(base.value, fi, locals_, depth + 1):
                    ci = self.cls_of(t)
                    if ci is None:
                        continue
                    for c in ci.mro():
                        if isinstance(c, ClassInfo):
                            out |= self.elem_types.get((c.key, attr), set())
            return out
        if isinstance(expr, ast.BoolOp):
            out = set()
            for v in expr.values:
                out |= self.static_type(v, fi, locals_, depth + 1)
            return out
        if isinstance(expr, ast.IfExp):
            return self.static_type(expr.body, fi, locals_, depth + 1) | self.static_type(expr.orelse, fi, locals_, depth + 1)
        if isinstance(expr, (ast.List, ast.ListComp)):
            return {"E:list"}
        if isinstance(expr, (ast.Dict, ast.DictComp)):
            return {"E:dict"}
        if isinstance(expr, ast.Lambda):
            return {"E:function"}
        return set()

    def _return_type(self, fn, depth):
        out = set()
        if depth > 20 or fn.key in self._rt_stack:
            return out
        if fn.key in self._rt_cache:
            return set(self._rt_cache[fn.key])
        self._rt_stack.add(fn.key)
        try:
            for node in ast.walk(fn.node):
                if isinstance(node, ast.Return) and node.value is not None:
                    out |= self.static_type(node.value, fn, None, depth + 2)
        finally:
            self._rt_stack.discard(fn.key)
        if self._frozen:
            self._rt_cache[fn.key] = set(out)
        return out

    def _bind_call(self, callee, call, skip_first):
        """yield (param name, arg expr) pairs for a syntactic call of callee."""
        params = list(callee.params)
        if skip_first and params:
            params = params[1:]
        i = 0
        for a in call.args:
            if isinstance(a, ast.Starred):
                return
            if i < len(params):
                yield params[i], a
            i += 1
        for kw in call.keywords:
            if kw.arg is not None and (kw.arg in params or kw.arg in callee.kwonly):
                yield kw.arg, kw.value

    def _infer(self):
        prog = self.prog
        self._locals_cache = {}
        # module-level globals
        for _ in range(3):
            changed = False
            for m in prog.modules.values():
                pseudo = FunctionInfo("<module>", "<module>", m, None, ast.parse("lambda: 0").body[0].value)
                for name, vals in m.assigns.items():
                    ts = set()
                    for v in vals:
                        ts |= self.static_type(v, pseudo, {})
                    if ts - self.global_types.get((m.name, name), set()):
                        self.global_types.setdefault((m.name, name), set()).update(ts)
                        changed = True
            for fi in list(prog.functions.values()):
                cname = fi.cls.name if fi.cls else None
                for node in ast.walk(fi.node):
                    # field assignments  self.X = expr   /   future._executor = None
                    if isinstance(node, ast.Assign):
                        for t in node.targets:
                            if isinstance(t, ast.Attribute):
                                bts = self.static_type(t.value, fi)
                                vts = self.static_type(node.value, fi)
                                attr = mangle(cname, t.attr)
                                for bt in bts:
                                    ci = self.cls_of(bt)
                                    if ci is None:
                                        continue
                                    key = (ci.key, attr)
                                    if vts - self.field_types.get(key, set()):
                                        self.field_types.setdefault(key, set()).update(vts)
                                        changed = True
                    if isinstance(node, ast.Call):
                        changed |= self._infer_call(fi, node)
            if not changed:
                break
        self._infer_taint()
        self._frozen = True

    def _callee_of(self, fi, call):
        """syntactic callee resolution for the type pre-pass: (FunctionInfo, skip_first, ClassInfo|None)."""
        f = call.func
        if isinstance(f, ast.Name):
            r = self._resolve_name(fi, f.id)
            if r[0] == "func":
                return r[1], False, None
            if r[0] == "class":
                ci = r[1]
                if ci.record_fields is not None:
                    return None, False, ci
                o, m = ci.lookup("__init__")
                return m, True, ci
            return None, False, None
        if isinstance(f, ast.Attribute):
            for t in self.static_type(f.value, fi):
                ci = self.cls_of(t)
                if ci is None:
                    continue
                owner, cav = ci.class_attr(f.attr)
                if cav is not None and isinstance(cav, ast.Name):
                    r = self.prog.resolve_symbol(owner.module.name, cav.id)
                    if r[0] == "class":
                        o, m = r[1].lookup("__init__")
                        return m, True, r[1]
                o, m = ci.lookup(f.attr)
                if m is not None:
                    return m, not m.is_staticmethod, None
            if isinstance(f.value, ast.Name):
                r = self._resolve_name(fi, f.value.id)
                if r[0] == "class":
                    o, m = r[1].lookup(f.attr)
                    if m is not None:
                        return m, m.is_classmethod, None
        return None, False, None

    def _factory_params(self, fac):
        """(target parameter, args parameter) if fac builds Thread(target=<its parameter>, args=<its parameter>)"""
        for n in ast.walk(fac.node):
            if isinstance(n, ast.Call) and (_dotted(n.func) or "").split(".")[-1] == "Thread":
                kw = dict((k.arg, k.value) for k in n.keywords if k.arg)
                t, a = kw.get("target"), kw.get("args")
                if isinstance(t, ast.Name) and t.id in fac.params:
                    return (t.id, a.id if isinstance(a, ast.Name) and a.id in fac.params else None)
        return None

    def _thread_site(self, fi, call, target, args):
        changed = False
        tfi = None
        if isinstance(target, ast.Name):
            rr = self._resolve_name(fi, target.id)
            if rr[0] == "func":
                tfi = rr[1]
        elif isinstance(target, ast.Attribute):
            for t in self.static_type(target.value, fi):
                c = self.cls_of(t)
                if c:
                    o, mm = c.lookup(target.attr)
                    if mm is not None:
                        tfi = mm
        owner = fi.owner
        if owner is None and fi.parent is None:
            # a thread factory function: the owner is the executor it is handed
            for pn in fi.params:
                for t in sorted(self.param_types.get((fi.key, pn), ())):
                    c = self.cls_of(t)
                    if c is not None and c.lookup("submit")[1] is not None and c.lookup("shutdown")[1] is not None:
                        owner = c
        if tfi is not None and owner is not None:
            rec = (owner, tfi, call, fi)
            if not any(x[2] is call for x in self.thread_targets):
                self.thread_targets.append(rec)
                changed = True
            if isinstance(args, ast.Tuple):
                params = list(tfi.params)
                if tfi.is_classmethod or (tfi.owner is not None and not tfi.is_staticmethod):
                    params = params[1:]
                loc = self._locals_cache.setdefault(fi.key, self._local_assigns(fi))
                for p, a in zip(params, args.elts):
                    # is `a` a weakref.ref(self, ...)?
                    exprs = [a]
                    if isinstance(a, ast.Name) and a.id in loc:
                        exprs = loc[a.id]
                    for e in exprs:
                        if isinstance(e, ast.Call) and (_dotted(e.func) or "").endswith("ref") and e.args:
                            for t in self.static_type(e.args[0], fi):
                                if self.deref_types.get((tfi.key, p)) != t:
                                    self.deref_types[(tfi.key, p)] = t
                                    changed = True
        return changed

    def _infer_call(self, fi, call):
        changed = False
        # element types of container fields:  <obj>.<F>.append(x) / add / appendleft / insert(i, x)
        f0 = call.func
        if isinstance(f0, ast.Attribute) and f0.attr in ("append", "add", "appendleft", "insert") and isinstance(f0.value, ast.Attribute) and call.args and not call.keywords:
            for ot in self.static_type(f0.value.value, fi):
                oc = self.cls_of(ot)
                if oc is None:
                    continue
                ets = set(t for t in self.static_type(call.args[-1], fi) if t.startswith("C:"))
                key = (oc.key, mangle(fi.cls.name if fi.cls else None, f0.value.attr))
                if ets - self.elem_types.get(key, set()):
                    self.elem_types.setdefault(key, set()).update(ets)
                    changed = True
        callee, skip, ci = self._callee_of(fi, call)
        if ci is not None and ci.record_fields is not None:
            # namedtuple record: positional/keyword args -> field types
            for i, a in enumerate(call.args):
                if i < len(ci.record_fields) and not isinstance(a, ast.Starred):
                    ts = self.static_type(a, fi)
                    key = (ci.key, ci.record_fields[i])
                    if ts - self.field_types.get(key, set()):
                        self.field_types.setdefault(key, set()).update(ts)
                        changed = True
            for kw in call.keywords:
                if kw.arg is not None and kw.arg in ci.record_fields:
                    ts = self.static_type(kw.value, fi)
                    key = (ci.key, kw.arg)
                    if ts - self.field_types.get(key, set()):
                        self.field_types.setdefault(key, set()).update(ts)
                        changed = True
            return changed
        if callee is not None:
            for pname, aexpr in self._bind_call(callee, call, skip):
                ts = self.static_type(aexpr, fi)
                key = (callee.key, pname)
                if ts - self.param_types.get(key, set()):
                    self.param_types.setdefault(key, set()).update(ts)
                    changed = True
        # partial(f, a, b): a, b bind f's leading parameters
        d0 = _dotted(call.func)
        if d0 and d0.split(".")[-1] == "partial" and call.args:
            target = call.args[0]
            pf = None
            skip = False
            if isinstance(target, ast.Name):
                rr = self._resolve_name(fi, target.id)
                if rr[0] == "func":
                    pf = rr[1]
            elif isinstance(target, ast.Attribute):
                for t in self.static_type(target.value, fi):
                    c = self.cls_of(t)
                    if c:
                        o, mm = c.lookup(target.attr)
                        if mm is not None:
                            pf = mm
                            skip = not mm.is_staticmethod
            if pf is not None:
                params = list(pf.params)
                if skip and params:
                    params = params[1:]
                for pn, a in zip(params, call.args[1:]):
                    if isinstance(a, ast.Starred):
                        break
                    ts = self.static_type(a, fi)
                    key = (pf.key, pn)
                    if ts - self.param_types.get(key, set()):
                        self.param_types.setdefault(key, set()).update(ts)
                        changed = True
        # Thread(target=f, args=(self_ref,)) with self_ref = weakref.ref(self, ...)
        d = _dotted(call.func)
        if d and d.split(".")[-1] == "Thread":
            r = self._resolve_name(fi, d.split(".")[0])
            if r[0] == "ext" and r[1].endswith("Thread"):
                target = None
                args = None
                for kw in call.keywords:
                    if kw.arg == "target":
                        target = kw.value
                    elif kw.arg == "args":
                        args = kw.value
                if not (isinstance(target, ast.Name) and target.id in fi.params and fi.owner is None):
                    changed = self._thread_site(fi, call, target, args) or changed
        else:
            # a call of a generic thread factory  def f(name, target, args): return Thread(target=target, args=args)
            fac, _skip, _ci = self._callee_of(fi, call)
            if fac is not None and fac.owner is None and fac.parent is None:
                fp = self._factory_params(fac)
                if fp is not None:
                    bound = dict(self._bind_call(fac, call, False))
                    if fp[0] in bound:
                        self.thread_factories.add(fac.key)
                        changed = self._thread_site(fi, call, bound.get(fp[0]), bound.get(fp[1])) or changed
        return changed

    # -------------------------------------------------------------------- taint
    def _infer_taint(self):
        """Field names that may hold user-supplied callables / policy objects.

        Seeds: parameters named in SEED_PARAMS and kwargs.get("<key>") for SEED_KWARGS_KEYS,
        plus the `fn` parameter of add_done_callback.  Propagation: `self.F = <expr mentioning a
        tainted name or tainted field>`, record constructors (positional -> field), and
        `self.F.append(<tainted>)` (container taint)."""
        prog = self.prog
        tainted_fields = set()
        containers = set()
        record_pos = {}  # class key -> list of __init__ param names (for positional binding)
        for ci in prog.classes.values():
            if ci.record_fields is not None:
                record_pos[ci.key] = list(ci.record_fields)
            elif "__init__" in ci.methods:
                record_pos[ci.key] = ci.methods["__init__"].params[1:]

        def expr_tainted(e, fi, tainted_locals):
            # the expression *is* (possibly one of several alternatives) a tainted value;
            # results of calls are not tainted.
            if isinstance(e, ast.Name):
                return e.id in tainted_locals
            if isinstance(e, ast.Attribute):
                return mangle(fi.cls.name if fi.cls else None, e.attr) in tainted_fields
            if isinstance(e, ast.BoolOp):
                return any(expr_tainted(v, fi, tainted_locals) for v in e.values)
            if isinstance(e, ast.IfExp):
                return expr_tainted(e.body, fi, tainted_locals) or expr_tainted(e.orelse, fi, tainted_locals)
            if isinstance(e, ast.Call) and isinstance(e.func, ast.Attribute) and e.func.attr == "get" and e.args:
                a0 = e.args[0]
                return isinstance(a0, ast.Constant) and a0.value in SEED_KWARGS_KEYS
            return False

        for _ in range(5):
            before = (len(tainted_fields), len(containers))
            for fi in prog.functions.values():
                names = set(fi.all_param_names())
                tl = set(n for n in names if n in SEED_PARAMS)
                if fi.name == "add_done_callback":
                    tl |= set(fi.params[1:2])
                # parameters bound (at any call site) to tainted expressions are handled
                # through constructor positional binding below
                cname = fi.cls.name if fi.cls else None
                # local propagation (two rounds)
                for __ in range(2):
                    for node in ast.walk(fi.node):
                        if isinstance(node, ast.Assign) and expr_tainted(node.value, fi, tl):
                            for t in node.targets:
                                if isinstance(t, ast.Name):
                                    tl.add(t.id)
                                elif isinstance(t, ast.Attribute):
                                    tainted_fields.add(mangle(cname, t.attr))
                        if isinstance(node, ast.Call):
                            f = node.func
                            if isinstance(f, ast.Attribute) and f.attr in ("append", "add") and node.args and expr_tainted(node.args[0], fi, tl):
                                if isinstance(f.value, ast.Attribute):
                                    containers.add(mangle(cname, f.value.attr))
                            # constructor: positional args -> fields / params
                            callee, skip, ci = self._callee_of(fi, node)
                            target_ci = ci
                            if target_ci is not None and target_ci.key in record_pos:
                                pos = record_pos[target_ci.key]
                                for i, a in enumerate(node.args):
                                    if i < len(pos) and not isinstance(a, ast.Starred) and expr_tainted(a, fi, tl):
                                        pname = pos[i]
                                        if target_ci.record_fields is not None:
                                            tainted_fields.add(pname)
                                        else:
                                            self._taint_param(target_ci.methods["__init__"], pname, tainted_fields)
                                for kw in node.keywords:
                                    if kw.arg and expr_tainted(kw.value, fi, tl):
                                        if target_ci.record_fields is not None:
                                            tainted_fields.add(kw.arg)
                                        elif "__init__" in target_ci.methods:
                                            self._taint_param(target_ci.methods["__init__"], kw.arg, tainted_fields)
            if (len(tainted_fields), len(containers)) == before:
                break
        self.tainted_fields = tainted_fields
        self.tainted_containers = containers

    def _taint_param(self, init_fi, pname, tainted_fields):
        cname = init_fi.cls.name if init_fi.cls else None
        for node in ast.walk(init_fi.node):
            if isinstance(node, ast.Assign):
                uses = any(isinstance(n, ast.Name) and n.id == pname for n in ast.walk(node.value))
                if uses:
                    for t in node.targets:
                        if isinstance(t, ast.Attribute):
                            tainted_fields.add(mangle(cname, t.attr))

    # ------------------------------------------------------------------ queries
    def field_type(self, ci, field):
        out = set()
        for c in ci.mro():
            if isinstance(c, ClassInfo):
                out |= self.field_types.get((c.key, field), set())
        return out

    def lock_kind_of_field(self, ci, field):
        ts = self.field_type(ci, field)
        kinds = set(t[2:] for t in ts if t in ("E:Lock", "E:RLock", "E:Condition"))
        if len(kinds) == 1:
            return kinds.pop()
        if len(kinds) > 1:
            return "mixed"
        return None
