#!/usr/bin/env python3
"""tools/mkedit.py breaking|preserving <name> <Cxx[,Cyy]|all> <relative file>   (stdin: OLD\n====\nNEW)
Creates selftest/<kind>/<name>.diff (+ .json) from a textual edit of the current /repo source, after checking
that the named checks fire (breaking) or stay silent (preserving) on a scratch copy.  Analysis only."""
import json, os, shutil, subprocess, sys, tempfile
kind, name, pids, rel = sys.argv[1:5]
HERE = os.path.dirname(os.path.dirname(os.path.abspath(__file__)))
spec = sys.stdin.read()
old, new = spec.split('\n====\n')
old = old.strip('\n'); new = new.rstrip('\n')
d = tempfile.mkdtemp(prefix='mkedit_')
try:
    a = os.path.join(d, 'a'); b = os.path.join(d, 'b')
    for x in (a, b):
        shutil.copytree('/repo/more_executors', os.path.join(x, 'more_executors'), ignore=shutil.ignore_patterns('__pycache__'))
    p = os.path.join(b, rel)
    s = open(p).read()
    if s.count(old) != 1:
        print('OLD occurs %d times' % s.count(old)); sys.exit(3)
    open(p, 'w').write(s.replace(old, new))
    import py_compile; py_compile.compile(p, doraise=True)
    r = subprocess.run(['diff', '-ruN', '--exclude=__pycache__', 'a', 'b'], cwd=d, capture_output=True, text=True)
    diff = r.stdout
    env = dict(os.environ, VERIF_REPO=b, VERIF_NOEVIDENCE='1')
    plist = pids.split(',') if pids != 'all' else ['all']
    r = subprocess.run(['python3-vt', os.path.join(HERE, 'check.py')] + plist, env=env, capture_output=True, text=True)
    caught = sorted(set(l.split('property=')[1].split()[0] for l in r.stdout.splitlines() if l.startswith('VIOLATION')))
    errs = [l for l in r.stdout.splitlines() if l.startswith('ANALYSIS-ERROR')]
    if kind == 'breaking':
        ok = all(p_ in caught for p_ in plist) if plist != ['all'] else bool(caught)
    else:
        ok = not caught and not errs
    print(name, kind, 'caught by', caught, 'errors', errs[:2], 'OK' if ok else 'NOT AS EXPECTED')
    if ok:
        open(os.path.join(HERE, 'selftest', kind, name + '.diff'), 'w').write(diff)
        json.dump({'name': name, 'kind': kind, 'properties': plist, 'file': rel, 'caught_by': caught}, open(os.path.join(HERE, 'selftest', kind, name + '.json'), 'w'), indent=1)
    sys.exit(0 if ok else 1)
finally:
    shutil.rmtree(d)
