#!/usr/bin/env python3
"""ad-hoc mutation helper:  tools/mut.py <Cxx[,Cyy]> <relative file> [--keep NAME] <<< 'OLD\n====\nNEW'
copies /repo to a scratch dir, applies the replacement, runs the checks against the copy (analysis only)."""
import os, shutil, subprocess, sys, tempfile
pids = sys.argv[1].split(',')
rel = sys.argv[2]
keep = sys.argv[4] if len(sys.argv) > 4 and sys.argv[3] == '--keep' else None
spec = sys.stdin.read()
old, new = spec.split('\n====\n')
old = old.strip('\n'); new = new.rstrip('\n')
d = tempfile.mkdtemp(prefix='mut_')
try:
    shutil.copytree('/repo/more_executors', os.path.join(d, 'more_executors'))
    p = os.path.join(d, rel)
    s = open(p).read()
    if s.count(old) != 1:
        print('OLD occurs %d times' % s.count(old)); sys.exit(3)
    open(p, 'w').write(s.replace(old, new))
    import py_compile; py_compile.compile(p, doraise=True)
    env = dict(os.environ, VERIF_REPO=d, VERIF_NOEVIDENCE='1')
    r = subprocess.run(['python3-vt', os.path.join(os.path.dirname(os.path.abspath(__file__)), '..', 'check.py')] + pids, env=env, capture_output=True, text=True)
    lines = [l for l in r.stdout.splitlines() if 'VIOLATION' not in l]
    print('\n'.join(lines[-8:]))
    print('exit', r.returncode)
    if keep and r.returncode == 1:
        # store the edit as a unified diff for the thorough tier's self-test: selftest/breaking/<Cxx>-<name>.diff
        import difflib
        a = s.splitlines(keepends=True); b = s.replace(old, new).splitlines(keepends=True)
        out = os.path.join(os.path.dirname(os.path.abspath(__file__)), '..', 'selftest', 'breaking', '%s-%s.diff' % (pids[0], keep))
        open(out, 'w').write(''.join(difflib.unified_diff(a, b, 'a/' + rel, 'b/' + rel)))
        print('kept', os.path.normpath(out))
    if r.stderr.strip(): print(r.stderr[-800:])
finally:
    shutil.rmtree(d)
