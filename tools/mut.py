#!/usr/bin/env python3
"""ad-hoc mutation helper:  tools/mut.py <Cxx[,Cyy]> <relative file> <<< 'OLD\n====\nNEW'
copies /repo to a scratch dir, applies the replacement, runs the checks against the copy (analysis only)."""
import os, shutil, subprocess, sys, tempfile
pids = sys.argv[1].split(',')
rel = sys.argv[2]
spec = sys.stdin.read()
old, new = spec.split('\n====\n')
old = old.strip('\n'); new = new.rstrip('\n')
d = tempfile.mkdtemp(prefix='mut_')
try:
    shutil.copytree('/repo/more_executors', os.path.join(d, 'more_executors'))
    p = os.path.join(d, rel)
    s = open(p).read()
    if s.count(old) != 1:
        print('OLD occurs %d times' % s.count(old)); sys.exit(3)
    open(p, 'w').write(s.replace(old, new))
    import py_compile; py_compile.compile(p, doraise=True)
    env = dict(os.environ, VERIF_REPO=d, VERIF_NOEVIDENCE='1')
    r = subprocess.run(['python3-vt', os.path.join(os.path.dirname(os.path.abspath(__file__)), '..', 'check.py')] + pids, env=env, capture_output=True, text=True)
    lines = [l for l in r.stdout.splitlines() if 'VIOLATION' not in l]
    print('\n'.join(lines[-8:]))
    print('exit', r.returncode)
    if r.stderr.strip(): print(r.stderr[-800:])
finally:
    shutil.rmtree(d)
