#!/usr/bin/env python3
"""Regenerates MANIFEST.json from the table below (claimed properties = those with a module in sa/props)."""
import json, os
HERE = os.path.dirname(os.path.dirname(os.path.abspath(__file__)))
props = [json.loads(l) for l in open(os.path.join(HERE, 'properties.jsonl'))]
CLAIMS = json.load(open(os.path.join(HERE, 'tools', 'claims.json')))
checks = []
na = []
for p in props:
    pid = p['id']
    c = CLAIMS.get(pid)
    if c and c.get('claimed') and os.path.exists(os.path.join(HERE, 'sa', 'props', pid.lower() + '.py')):
        checks.append({
            'property_id': pid,
            'quick_cmd': 'python3-vt check.py %s --tier quick' % pid,
            'thorough_cmd': 'python3-vt check.py %s --tier thorough' % pid,
            'evidence_file': 'evidence/%s.json' % pid,
            'replay_cmd_template': 'python3-vt check.py --replay {path}',
            'engine': 'sa',
            'level_claimed': {'category': 'other', 'text': c['level_text'], 'design_ref': 'DESIGN.md section 5, %s' % pid},
            'level_note': c['level_note'],
            'technique': c['technique'],
        })
    else:
        na.append({'property_id': pid, 'reason': (c or {}).get('na_reason', 'check not built yet (build in progress; see DESIGN.md section 8)')})
m = {
    'version': 1,
    'setup_cmd': 'mkdir -p evidence replay && python3-vt -m compileall -q sa check.py',
    'hooks': {'guard': 'ROHANPM_MORE_EXECUTORS_VERIF', 'enable': 'none needed: static analysis reads the source; no instrumentation is compiled in and no source commit uses the guard',
              'baseline_off_cmd': 'cd /repo && /venv/bin/python -m pytest -ra -q -p no:cacheprovider --timeout=900 --continue-on-collection-errors', 'source_commits': [], 'add_only': True},
    'engines': [{'name': 'sa', 'path': 'sa/', 'serves_properties': [c['property_id'] for c in checks],
                 'kind_free_text': 'repository-specific static analysis: ast source model, class-hierarchy call resolution, symbolic path enumeration with bounded inlining and parameter re-basing, lock contexts, rule library (sa/props, sa/wake.py)'}],
    'checks': checks,
    'not_applicable': na,
    'notes': 'Static-analysis family only: every verdict is computed from /repo/more_executors source on each run; nothing from the package is imported or executed. Exit 0 = all rule instances held (KNOWN-FINDING lines for entries of known_findings.json), 1 = VIOLATION, 2 = ANALYSIS-ERROR (anchor vanished / idiom not recognised). Each check decides the structural clauses listed in DESIGN.md section 5 for its property, not the behaviour as a whole; the clauses not decided are repeated in level_note.',
}
json.dump(m, open(os.path.join(HERE, 'MANIFEST.json'), 'w'), indent=1)
print('claimed', [c['property_id'] for c in checks]); print('not applicable', [n['property_id'] for n in na])
