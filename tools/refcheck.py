#!/usr/bin/env python3
"""tools/refcheck.py <diff>...  : apply a behaviour-preserving refactoring to a scratch copy of /repo and run every
check on it (analysis only).  Any VIOLATION or ANALYSIS-ERROR is a false alarm of the machinery."""
import os, shutil, subprocess, sys, tempfile
from concurrent.futures import ThreadPoolExecutor
HERE = os.path.dirname(os.path.dirname(os.path.abspath(__file__)))
def one(diff):
    t = tempfile.mkdtemp(prefix='ref_')
    try:
        subprocess.run(['rsync', '-a', '--exclude', '.git', '--exclude', '__pycache__', '--exclude', 'tests', '--exclude', 'docs', '/repo/', t + '/'], check=True)
        r = subprocess.run(['patch', '-p1', '-s', '-i', os.path.abspath(diff)], cwd=t, capture_output=True, text=True)
        if r.returncode != 0:
            return diff, ['PATCH FAILED ' + r.stdout[:200]]
        env = dict(os.environ, VERIF_REPO=t, VERIF_NOEVIDENCE='1')
        r = subprocess.run(['python3-vt', os.path.join(HERE, 'check.py'), 'all'], env=env, capture_output=True, text=True)
        lines = r.stdout.splitlines()
        out = []
        for i, l in enumerate(lines):
            if l.startswith('VIOLATION'):
                out.append(lines[i - 1][:300])
            if l.startswith('ANALYSIS-ERROR'):
                out.append(l[:300])
        return diff, out
    finally:
        shutil.rmtree(t, ignore_errors=True)
bad = 0
with ThreadPoolExecutor(8) as ex:
    for diff, out in ex.map(one, sys.argv[1:]):
        print('==', diff, 'SILENT' if not out else '%d FALSE ALARMS' % len(out))
        for l in out[:12]:
            print('    ', l)
        bad += bool(out)
sys.exit(1 if bad else 0)
