#!/usr/bin/env python3
"""Re-run every check (static analysis only) against every stored seeded mutant, in parallel.
Prints which properties' checks raise a violation for each seed; exit 1 if some seed is caught by none."""
import glob, json, os, shutil, subprocess, sys, tempfile
from concurrent.futures import ThreadPoolExecutor
HERE = os.path.dirname(os.path.dirname(os.path.abspath(__file__)))
def one(d):
    name = os.path.basename(d)
    t = tempfile.mkdtemp(prefix='reseed_')
    try:
        subprocess.run(['rsync', '-a', '--exclude', '.git', '--exclude', '__pycache__', '--exclude', 'tests', '--exclude', 'docs', '/repo/', t + '/'], check=True)
        r = subprocess.run(['patch', '-p1', '-s', '-i', os.path.join(d, 'patch.diff')], cwd=t, capture_output=True, text=True)
        if r.returncode != 0:
            return name, None, 'patch failed'
        env = dict(os.environ, VERIF_REPO=t, VERIF_NOEVIDENCE='1')
        r = subprocess.run(['python3-vt', os.path.join(HERE, 'check.py'), 'all'], env=env, capture_output=True, text=True)
        caught = sorted(set(l.split('property=')[1].split()[0] for l in r.stdout.splitlines() if l.startswith('VIOLATION')))
        errs = [l for l in r.stdout.splitlines() if l.startswith('ANALYSIS-ERROR') and 'No module named' not in l]
        return name, caught, errs
    finally:
        shutil.rmtree(t, ignore_errors=True)
seeds = sorted(glob.glob(os.path.join(HERE, 'seeded', '*')))
if len(sys.argv) > 1:
    seeds = [s for s in seeds if any(os.path.basename(s).startswith(a) for a in sys.argv[1:])]
bad = 0
with ThreadPoolExecutor(8) as ex:
    for name, caught, errs in ex.map(one, seeds):
        meta = json.load(open(os.path.join(HERE, 'seeded', name, 'meta.json')))
        own = meta['property']
        flag = '' if caught and own in caught else ('  <-- not caught by its own property check' if caught else '  <-- MISSED')
        if not caught:
            bad += 1
        print('%-8s breaks %s  caught by %s%s %s' % (name, own, caught, flag, ('errors: %s' % errs[:1]) if errs else ''))
        meta['caught_by'] = caught or []
        json.dump(meta, open(os.path.join(HERE, 'seeded', name, 'meta.json'), 'w'), indent=1)
sys.exit(1 if bad else 0)
