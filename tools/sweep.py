#!/usr/bin/env python3
"""tools/sweep.py [--max N] [--jobs J] [--files a.py,b.py] [--out FILE]
Mutation sweep used to find *analysis errors*: generates small syntactic mutants of the library (statement deleted,
condition negated, `with` dropped, adjacent statements swapped, comparison / constant changed, return value
dropped, break<->continue), runs every check on a scratch copy of each, and records per mutant which checks
report a VIOLATION and which die with ANALYSIS-ERROR.  An ANALYSIS-ERROR on a mutant means a rule stopped
understanding a construct it is responsible for: such cases are reviewed and turned into a verdict."""
import ast, json, os, random, shutil, subprocess, sys, tempfile
from concurrent.futures import ThreadPoolExecutor
HERE = os.path.dirname(os.path.dirname(os.path.abspath(__file__)))
REPO = os.environ.get("VERIF_REPO", "/repo")


def arg(name, default):
    return sys.argv[sys.argv.index(name) + 1] if name in sys.argv else default


def seg(src_lines, node):
    if node.lineno == node.end_lineno:
        return src_lines[node.lineno - 1][node.col_offset:node.end_col_offset]
    parts = [src_lines[node.lineno - 1][node.col_offset:]] + src_lines[node.lineno:node.end_lineno - 1] + [src_lines[node.end_lineno - 1][:node.end_col_offset]]
    return "\n".join(parts)


def replace(src, node, text):
    lines = src.split("\n")
    pre = lines[node.lineno - 1][:node.col_offset]
    post = lines[node.end_lineno - 1][node.end_col_offset:]
    new = (pre + text + post).split("\n")
    return "\n".join(lines[:node.lineno - 1] + new + lines[node.end_lineno:])


def mutants_of(path, rel):
    src = open(path).read()
    try:
        tree = ast.parse(src)
    except SyntaxError:
        return
    lines = src.split("\n")
    SIMPLE = (ast.Expr, ast.Assign, ast.AugAssign, ast.Delete)
    for node in ast.walk(tree):
        where = "%s:%d" % (rel, getattr(node, "lineno", 0))
        if isinstance(node, SIMPLE) and not (isinstance(node, ast.Expr) and isinstance(node.value, ast.Constant)):
            yield ("delete-stmt", where, replace(src, node, "pass"))
        if isinstance(node, (ast.If, ast.While)) and not isinstance(node.test, ast.Constant):
            yield ("negate-test", where, replace(src, node.test, "not (%s)" % seg(lines, node.test)))
        if isinstance(node, ast.With):
            first = node.items[0].context_expr
            last = node.items[-1]
            end = last.optional_vars or last.context_expr
            # `with <items>:` -> `if True:`  (keeps the body)
            l0 = lines[node.lineno - 1]
            if node.lineno == end.end_lineno and l0.rstrip().endswith(":"):
                new = l0[:node.col_offset] + "if True:"
                yield ("drop-with", where, "\n".join(lines[:node.lineno - 1] + [new] + lines[node.lineno:]))
        if isinstance(node, ast.Return) and node.value is not None and not (isinstance(node.value, ast.Constant) and node.value.value is None):
            yield ("return-none", where, replace(src, node, "return None"))
            if isinstance(node.value, ast.Constant) and isinstance(node.value.value, bool):
                yield ("return-flip", where, replace(src, node, "return %s" % (not node.value.value)))
        if isinstance(node, ast.Break):
            yield ("break-continue", where, replace(src, node, "continue"))
        if isinstance(node, ast.Continue):
            yield ("continue-break", where, replace(src, node, "break"))
        if isinstance(node, ast.Compare) and len(node.ops) == 1:
            op = node.ops[0]
            alt = {ast.Lt: "<=", ast.LtE: "<", ast.Gt: ">=", ast.GtE: ">", ast.Eq: "!=", ast.NotEq: "==", ast.Is: "==", ast.IsNot: "is", ast.In: "not in", ast.NotIn: "in"}.get(type(op))
            if alt:
                yield ("cmp-op", where, replace(src, node, "%s %s %s" % (seg(lines, node.left), alt, seg(lines, node.comparators[0]))))
        if isinstance(node, ast.UnaryOp) and isinstance(node.op, ast.Not):
            yield ("drop-not", where, replace(src, node, "(%s)" % seg(lines, node.operand)))
        if isinstance(node, ast.Constant) and isinstance(node.value, bool):
            yield ("flip-bool", where, replace(src, node, str(not node.value)))
        if isinstance(node, ast.Constant) and type(node.value) is int and node.value in (0, 1):
            yield ("int-const", where, replace(src, node, str(1 - node.value)))
        if isinstance(node, ast.BoolOp):
            yield ("boolop", where, replace(src, node, (" or " if isinstance(node.op, ast.And) else " and ").join("(%s)" % seg(lines, v) for v in node.values)))
        body_lists = [getattr(node, f) for f in ("body", "orelse", "finalbody") if isinstance(getattr(node, f, None), list)]
        for body in body_lists:
            for a, b in zip(body, body[1:]):
                if isinstance(a, SIMPLE) and isinstance(b, SIMPLE) and a.end_lineno < b.lineno and a.col_offset == b.col_offset:
                    la = lines[a.lineno - 1:a.end_lineno]
                    lb = lines[b.lineno - 1:b.end_lineno]
                    mid = lines[a.end_lineno:b.lineno - 1]
                    yield ("swap-stmts", "%s:%d" % (rel, a.lineno), "\n".join(lines[:a.lineno - 1] + lb + mid + la + lines[b.end_lineno:]))


def run(m):
    kind, where, rel, text = m
    t = tempfile.mkdtemp(prefix="sweep_")
    try:
        subprocess.run(["rsync", "-a", "--exclude", ".git", "--exclude", "__pycache__", "--exclude", "tests", "--exclude", "docs", REPO.rstrip("/") + "/", t + "/"], check=True)
        p = os.path.join(t, rel)
        open(p, "w").write(text)
        try:
            compile(text, p, "exec")
        except SyntaxError:
            return None
        env = dict(os.environ, VERIF_REPO=t, VERIF_NOEVIDENCE="1")
        r = subprocess.run(["python3-vt", os.path.join(HERE, "check.py"), "all"], env=env, capture_output=True, text=True)
        viol = sorted(set(l.split("property=")[1].split()[0] for l in r.stdout.splitlines() if l.startswith("VIOLATION")))
        errs = [l[:200] for l in r.stdout.splitlines() if l.startswith("ANALYSIS-ERROR")]
        return {"kind": kind, "where": where, "violations": viol, "errors": errs}
    finally:
        shutil.rmtree(t, ignore_errors=True)


def main():
    mx = int(arg("--max", "400"))
    jobs = int(arg("--jobs", "6"))
    out = arg("--out", "/tmp/sweep.jsonl")
    only = arg("--files", "")
    seed = int(arg("--seed", "1"))
    ms = []
    base = os.path.join(REPO, "more_executors")
    for root, dirs, files in os.walk(base):
        for f in sorted(files):
            if not f.endswith(".py"):
                continue
            path = os.path.join(root, f)
            rel = os.path.relpath(path, REPO)
            if only and not any(rel.endswith(x) for x in only.split(",")):
                continue
            for kind, where, text in mutants_of(path, rel):
                ms.append((kind, where, rel, text))
    random.Random(seed).shuffle(ms)
    rerun = arg("--rerun", "")
    if rerun:
        # re-run the mutants of an earlier sweep that were silent or ended in an analysis error
        want = set()
        for l in open(rerun):
            r = json.loads(l)
            if not r["violations"]:
                want.add((r["kind"], r["where"]))
        ms = [m for m in ms if (m[0], m[1]) in want]
        mx = len(ms)
    else:
        skip = int(arg("--skip", "0"))
        ms = ms[skip:]
    print("%d candidate mutants, running %d" % (len(ms), min(mx, len(ms))))
    ms = ms[:mx]
    n = 0
    with open(out, "a") as fh, ThreadPoolExecutor(jobs) as ex:
        for r in ex.map(run, ms):
            if r is None:
                continue
            n += 1
            fh.write(json.dumps(r) + "\n")
            fh.flush()
    print("done", n)


main()
