#!/usr/bin/env python3
"""tools/sweep_tests.py <sweep.jsonl> [--jobs J] [--out FILE]
For the mutants of a sweep on which every check stayed silent: does the library's own test-suite notice them?
A silent mutant that the suite kills is of no interest (the brief is about changes that pass the tests); the ones
that survive both are printed for review -- each is either equivalent, irrelevant to the twenty properties, or a
gap in a rule."""
import importlib.util, json, os, shutil, subprocess, sys, tempfile
from concurrent.futures import ThreadPoolExecutor
HERE = os.path.dirname(os.path.abspath(__file__))
spec = importlib.util.spec_from_file_location("sweep_gen", os.path.join(HERE, "sweep.py"))
src = open(os.path.join(HERE, "sweep.py")).read().replace("\nmain()\n", "\n")
mod = type(sys)("sweep_gen"); mod.__file__ = os.path.join(HERE, "sweep.py")
exec(compile(src, "sweep.py", "exec"), mod.__dict__)
REPO = "/repo"


def arg(name, default):
    return sys.argv[sys.argv.index(name) + 1] if name in sys.argv else default


def run(m):
    kind, where, rel, text = m
    t = tempfile.mkdtemp(prefix="sweept_")
    try:
        subprocess.run(["rsync", "-a", "--exclude", ".git", "--exclude", "__pycache__", "--exclude", "docs", REPO + "/", t + "/"], check=True)
        open(os.path.join(t, rel), "w").write(text)
        try:
            r = subprocess.run(["/venv/bin/python", "-m", "pytest", "-q", "-x", "-ra", "-p", "no:cacheprovider", "--timeout=120", "-n", "4", "--deselect", "tests/types/test_typehints.py", "--deselect", "tests/retry/test_retry.py::test_order"], cwd=t, capture_output=True, text=True, timeout=1500)
            last = [l for l in r.stdout.splitlines() if " passed" in l or " failed" in l or " error" in l][-1:]
            ok = r.returncode == 0
            failed = [l.split(" - ")[0] for l in r.stdout.splitlines() if l.startswith(("FAILED", "ERROR"))][:4]
        except subprocess.TimeoutExpired:
            last, ok, failed = ["timeout"], False, []
        return {"kind": kind, "where": where, "suite_passes": ok, "summary": last[0] if last else "", "failed": failed}
    finally:
        shutil.rmtree(t, ignore_errors=True)


def main():
    rows = [json.loads(l) for l in open(sys.argv[1])]
    want = set((r["kind"], r["where"]) for r in rows if not r["violations"] and not r["errors"])
    ms = []
    base = os.path.join(REPO, "more_executors")
    for root, dirs, files in os.walk(base):
        for f in sorted(files):
            if f.endswith(".py"):
                path = os.path.join(root, f)
                rel = os.path.relpath(path, REPO)
                for kind, where, text in mod.mutants_of(path, rel):
                    if (kind, where) in want:
                        ms.append((kind, where, rel, text))
    skip = ("logwrap.py", "metrics/null.py", "metrics/prometheus.py", "more_executors/__init__.py", "asyncio.py")
    ms = [m for m in ms if not m[2].endswith(skip)]
    out = arg("--out", "/tmp/sweep_tests.jsonl")
    print("%d silent mutants to run against the suite" % len(ms))
    with open(out, "a") as fh, ThreadPoolExecutor(int(arg("--jobs", "3"))) as ex:
        for r in ex.map(run, ms):
            fh.write(json.dumps(r) + "\n")
            fh.flush()


main()
