#!/usr/bin/env python3
"""tools/benign_gen.py <outdir>
Whole-tree behaviour-preserving rewrites, generated mechanically from /repo (the diffs kept as
selftest/refactor/B*.diff were produced by this script and each keeps the library's test-suite green):
  locals      every function-local variable renamed
  logs        a logging call at the top of every function
  method      an unused private method added to every class
  retlocal    `return <expr>` -> `result_v_ = <expr>; return result_v_`
  mirror      every comparison mirrored (a < b -> b > a, a == b -> b == a)
  augassign   `x += e` -> `x = x + e`
  docstrings  a docstring added to every function without one
  asserts     `assert self is not None` at the top of every method
  invert      `if c: A else: B` -> `if not (c): B else: A`
  tryfinally  every function body wrapped in try: ... finally: pass
  acquire     `with <lock>:` -> `<lock>.acquire(); try: ... finally: <lock>.release()`
  lockalias   `with self.x:` -> `held_v_ = self.x; with held_v_:`
  revmethods  the methods of every class in reverse order (__init__ kept first)
  methodlocal `obj.m(args)` -> `bound_v_ = obj.m; bound_v_(args)`   (NOT silent: see selftest/refactor/B-notes.md)
Used to look for false alarms of the checks on edits that cannot change behaviour."""
import ast, os, sys, symtable, re
REPO='/repo'
def funcs(tree):
    for n in ast.walk(tree):
        if isinstance(n,(ast.FunctionDef,)):
            yield n
def rename_locals(src):
    """rename function-local variables (assigned in the function, not params, not global/nonlocal, not used by nested scopes)"""
    tree=ast.parse(src)
    lines=src.split('\n')
    edits=[]  # (lineno, col, end_col, new)
    for fn in funcs(tree):
        params=set(a.arg for a in fn.args.args+fn.args.kwonlyargs+fn.args.posonlyargs)
        if fn.args.vararg: params.add(fn.args.vararg.arg)
        if fn.args.kwarg: params.add(fn.args.kwarg.arg)
        nested=set()
        decl=set()
        for n in ast.walk(fn):
            if n is not fn and isinstance(n,(ast.FunctionDef,ast.Lambda,ast.ClassDef,ast.ListComp,ast.SetComp,ast.DictComp,ast.GeneratorExp)):
                for m in ast.walk(n):
                    if isinstance(m,ast.Name): nested.add(m.id)
                    if isinstance(m,ast.arg): nested.add(m.arg)
            if isinstance(n,(ast.Global,ast.Nonlocal)): decl.update(n.names)
        assigned=set()
        for n in ast.walk(fn):
            if isinstance(n,ast.Name) and isinstance(n.ctx,ast.Store): assigned.add(n.id)
        # names assigned in nested functions' own bodies are in nested -> excluded
        loc=assigned-params-nested-decl
        loc={x for x in loc if not x.startswith('__')}
        for n in ast.walk(fn):
            if isinstance(n,ast.Name) and n.id in loc and n.lineno==n.end_lineno:
                edits.append((n.lineno,n.col_offset,n.end_col_offset,n.id+'_v'))
    edits=sorted(set(edits),reverse=True)
    for ln,c0,c1,new in edits:
        l=lines[ln-1]
        # col offsets are utf8 byte offsets
        b=l.encode('utf8'); b=b[:c0]+new.encode()+b[c1:]; lines[ln-1]=b.decode('utf8')
    return '\n'.join(lines)
def add_logs(src):
    tree=ast.parse(src)
    lines=src.split('\n')
    ins=[]
    for fn in funcs(tree):
        body=fn.body
        first=body[0]
        if isinstance(first,ast.Expr) and isinstance(first.value,ast.Constant) and isinstance(first.value.value,str):
            if len(body)==1: continue
            first=body[1]
        if isinstance(first,(ast.Global,ast.Nonlocal)): continue
        ind=' '*first.col_offset
        ins.append((first.lineno, ind+'logging.getLogger(__name__).debug("enter " + %r)' % fn.name))
    for ln,text in sorted(ins,reverse=True):
        lines.insert(ln-1,text)
    # import logging after the module docstring / __future__ imports
    k=0
    for n in tree.body:
        if (isinstance(n,ast.Expr) and isinstance(n.value,ast.Constant)) or (isinstance(n,ast.ImportFrom) and n.module=='__future__'):
            k=n.end_lineno
        else: break
    lines.insert(k,'import logging')
    return '\n'.join(lines)
def add_method(src):
    tree=ast.parse(src)
    lines=src.split('\n')
    ins=[]
    for n in ast.walk(tree):
        if isinstance(n,ast.ClassDef):
            last=n.body[-1]
            ind=' '*n.body[0].col_offset
            ins.append((last.end_lineno, ['',ind+'def _unused_debug_helper(self):',ind+'    return repr(self)']))
    for ln,texts in sorted(ins,reverse=True):
        lines[ln:ln]=texts
    return '\n'.join(lines)
out=sys.argv[1]; os.makedirs(out, exist_ok=True)
import shutil, subprocess
for name,tr in (('locals',rename_locals),('logs',add_logs),('method',add_method)):
    d=os.path.join(out,name)
    shutil.rmtree(d,ignore_errors=True)
    subprocess.run(['rsync','-a','--exclude','.git','--exclude','__pycache__','--exclude','docs',REPO+'/',d+'/'],check=True)
    for root,dirs,files in os.walk(os.path.join(d,'more_executors')):
        for f in files:
            if f.endswith('.py'):
                p=os.path.join(root,f)
                s=open(p).read()
                try:
                    t=tr(s); compile(t,p,'exec')
                except Exception as e:
                    print('skip',p,e); continue
                open(p,'w').write(t)
    print(name,'done')


# ---- second family
import shutil, subprocess
def seg(lines,node):
    if node.lineno==node.end_lineno:
        return lines[node.lineno-1].encode()[node.col_offset:node.end_col_offset].decode()
    parts=[lines[node.lineno-1].encode()[node.col_offset:].decode()]+lines[node.lineno:node.end_lineno-1]+[lines[node.end_lineno-1].encode()[:node.end_col_offset].decode()]
    return '\n'.join(parts)
def replace(src,node,text):
    lines=src.split('\n')
    pre=lines[node.lineno-1].encode()[:node.col_offset].decode()
    post=lines[node.end_lineno-1].encode()[node.end_col_offset:].decode()
    new=(pre+text+post).split('\n')
    return '\n'.join(lines[:node.lineno-1]+new+lines[node.end_lineno:])
def apply_all(src, pick, make):
    """apply make(node, lines) -> text to every node chosen by pick, bottom-up (non-overlapping: outermost skipped if inner edited)"""
    while True:
        tree=ast.parse(src); lines=src.split('\n')
        done=False
        nodes=[n for n in ast.walk(tree) if pick(n)]
        nodes.sort(key=lambda n:(n.lineno,n.col_offset),reverse=True)
        # apply all non-overlapping in one pass
        last=None
        for n in nodes:
            if last is not None and (n.end_lineno,n.end_col_offset)>(last.lineno,last.col_offset):
                continue
            t=make(n,lines)
            if t is None: continue
            src=replace(src,n,t); lines=src.split('\n'); last=n
        return src
def ret_local(src):
    def pick(n): return isinstance(n,ast.Return) and n.value is not None and not isinstance(n.value,(ast.Constant,ast.Name)) and n.lineno==n.end_lineno
    def make(n,lines):
        ind=' '*n.col_offset
        return 'result_v_ = %s\n%sreturn result_v_' % (seg(lines,n.value), ind)
    return apply_all(src,pick,make)
def mirror(src):
    M={ast.Lt:'>',ast.Gt:'<',ast.LtE:'>=',ast.GtE:'<=',ast.Eq:'==',ast.NotEq:'!='}
    def pick(n): return isinstance(n,ast.Compare) and len(n.ops)==1 and type(n.ops[0]) in M
    def make(n,lines): return '%s %s %s' % (seg(lines,n.comparators[0]), M[type(n.ops[0])], seg(lines,n.left))
    return apply_all(src,pick,make)
def augassign(src):
    O={ast.Add:'+',ast.Sub:'-'}
    def pick(n): return isinstance(n,ast.AugAssign) and type(n.op) in O
    def make(n,lines):
        t=seg(lines,n.target); return '%s = %s %s %s' % (t,t,O[type(n.op)],seg(lines,n.value))
    return apply_all(src,pick,make)
def docstrings(src):
    tree=ast.parse(src); lines=src.split('\n'); ins=[]
    for fn in ast.walk(tree):
        if isinstance(fn,ast.FunctionDef):
            f=fn.body[0]
            if isinstance(f,ast.Expr) and isinstance(f.value,ast.Constant) and isinstance(f.value.value,str): continue
            ins.append((f.lineno,' '*f.col_offset+'"""%s (internal)."""' % fn.name))
    for ln,t in sorted(ins,reverse=True): lines.insert(ln-1,t)
    return '\n'.join(lines)
def asserts(src):
    tree=ast.parse(src); lines=src.split('\n'); ins=[]
    for fn in ast.walk(tree):
        if isinstance(fn,ast.FunctionDef) and fn.args.args and fn.args.args[0].arg=='self':
            f=fn.body[0]
            if isinstance(f,ast.Expr) and isinstance(f.value,ast.Constant) and isinstance(f.value.value,str):
                if len(fn.body)==1: continue
                f=fn.body[1]
            ins.append((f.lineno,' '*f.col_offset+'assert self is not None'))
    for ln,t in sorted(ins,reverse=True): lines.insert(ln-1,t)
    return '\n'.join(lines)
out=sys.argv[1]; os.makedirs(out, exist_ok=True)
for name,tr in (('retlocal',ret_local),('mirror',mirror),('augassign',augassign),('docstrings',docstrings),('asserts',asserts)):
    d=os.path.join(out,name); shutil.rmtree(d,ignore_errors=True)
    subprocess.run(['rsync','-a','--exclude','.git','--exclude','__pycache__','--exclude','docs',REPO+'/',d+'/'],check=True)
    n=0
    for root,dirs,files in os.walk(os.path.join(d,'more_executors')):
        for f in files:
            if f.endswith('.py'):
                p=os.path.join(root,f); s=open(p).read()
                try:
                    t=tr(s); compile(t,p,'exec')
                except Exception as e:
                    print('skip',name,p,e); continue
                if t!=s: n+=1
                open(p,'w').write(t)
    print(name,'files changed',n)


# ---- third family
def invert(src):
    # if c: A else: B  ->  if not (c): B else: A   (only plain if/else, no elif chains, single-line test)
    def pick(n):
        return isinstance(n,ast.If) and n.orelse and not (len(n.orelse)==1 and isinstance(n.orelse[0],ast.If)) and n.test.lineno==n.test.end_lineno
    def make(n,lines):
        ind=' '*n.col_offset
        body=lines[n.body[0].lineno-1:n.body[-1].end_lineno]
        # include comment lines? keep simple: exact statement lines
        orelse=lines[n.orelse[0].lineno-1:n.orelse[-1].end_lineno]
        # 'elif' guard: the else keyword line must be 'else:'
        between=lines[n.body[-1].end_lineno:n.orelse[0].lineno-1]
        if not any(l.strip().startswith('else') for l in between): return None
        if n.body[0].lineno==n.lineno: return None
        if not lines[n.lineno-1][n.col_offset:].startswith('if '): return None
        return 'if not (%s):\n%s\n%selse:\n%s' % (seg(lines,n.test), '\n'.join(orelse), ind, '\n'.join(body))
    return apply_all(src,pick,make)
def tryfinally(src):
    tree=ast.parse(src); lines=src.split('\n'); edits=[]
    for fn in ast.walk(tree):
        if isinstance(fn,ast.FunctionDef):
            body=fn.body
            f=body[0]
            if isinstance(f,ast.Expr) and isinstance(f.value,ast.Constant) and isinstance(f.value.value,str):
                if len(body)==1: continue
                f=body[1]
            if any(isinstance(x,(ast.Yield,ast.YieldFrom)) for x in ast.walk(fn)): continue
            edits.append((f.lineno, body[-1].end_lineno, f.col_offset))
    # apply innermost-last: process from bottom, but nested functions overlap -> only top-level-most non-overlapping
    edits.sort(reverse=True)
    used=[]
    for a,b,c in edits:
        if any(not (b<ua or a>ub) for ua,ub in used): continue
        used.append((a,b))
        blk=lines[a-1:b]
        new=[' '*c+'try:']+['    '+l if l.strip() else l for l in blk]+[' '*c+'finally:',' '*c+'    pass']
        lines[a-1:b]=new
    return '\n'.join(lines)
def acquire(src):
    # with <lock expr>:  ->  <lock>.acquire(); try: body finally: <lock>.release()   for names that look like locks
    def pick(n):
        if not (isinstance(n,ast.With) and len(n.items)==1 and n.items[0].optional_vars is None): return False
        e=n.items[0].context_expr
        t=ast.unparse(e)
        return t.endswith('lock') or t.endswith('_lock') or t.endswith('.lock')
    def make(n,lines):
        ind=' '*n.col_offset
        e=seg(lines,n.items[0].context_expr)
        body=lines[n.body[0].lineno-1:n.body[-1].end_lineno]
        if n.body[0].lineno==n.lineno: return None
        return '%s.acquire()\n%stry:\n%s\n%sfinally:\n%s    %s.release()' % (e, ind, '\n'.join(body), ind, ind, e)
    return apply_all(src,pick,make)
out=sys.argv[1]; os.makedirs(out,exist_ok=True)
for name,tr in (('invert',invert),('tryfinally',tryfinally),('acquire',acquire)):
    d=os.path.join(out,name); shutil.rmtree(d,ignore_errors=True)
    subprocess.run(['rsync','-a','--exclude','.git','--exclude','__pycache__','--exclude','docs',REPO+'/',d+'/'],check=True)
    n=0
    for root,dirs,files in os.walk(os.path.join(d,'more_executors')):
        for f in files:
            if f.endswith('.py'):
                p=os.path.join(root,f); s=open(p).read()
                try:
                    t=tr(s); compile(t,p,'exec')
                except Exception as e:
                    print('skip',name,p,e); continue
                if t!=s: n+=1
                open(p,'w').write(t)
    print(name,'files changed',n)


# ---- fourth family
def lockalias(src):
    def pick(n):
        return isinstance(n,ast.With) and len(n.items)==1 and n.items[0].optional_vars is None and isinstance(n.items[0].context_expr,ast.Attribute) and n.body[0].lineno>n.lineno
    def make(n,lines):
        ind=' '*n.col_offset
        e=seg(lines,n.items[0].context_expr)
        body=lines[n.lineno:n.body[-1].end_lineno]
        return 'held_v_ = %s\n%swith held_v_:\n%s' % (e, ind, '\n'.join(body))
    return apply_all(src,pick,make)
def methodlocal(src):
    def pick(n):
        return isinstance(n,ast.Expr) and isinstance(n.value,ast.Call) and isinstance(n.value.func,ast.Attribute) and isinstance(n.value.func.value,(ast.Name,ast.Attribute)) and n.lineno==n.end_lineno and not (isinstance(n.value.func.value,ast.Call))
    def make(n,lines):
        ind=' '*n.col_offset
        f=seg(lines,n.value.func)
        if 'super' in f or f.startswith('metrics.') : return None
        call=seg(lines,n.value)
        rest=call[len(f):]
        return 'bound_v_ = %s\n%sbound_v_%s' % (f, ind, rest)
    return apply_all(src,pick,make)
def revmethods(src):
    tree=ast.parse(src); lines=src.split('\n')
    for cls in sorted([n for n in ast.walk(tree) if isinstance(n,ast.ClassDef)], key=lambda n:-n.lineno):
        fns=[n for n in cls.body if isinstance(n,ast.FunctionDef)]
        if len(fns)<2 or any(not isinstance(n,ast.FunctionDef) for n in cls.body[cls.body.index(fns[0]):]): continue
        # blocks: from (first decorator line or def line) to end_lineno, plus preceding blank lines kept as separators
        blocks=[]
        for f in fns:
            a=min([d.lineno for d in f.decorator_list]+[f.lineno])
            # include comment lines directly above
            while a-2>=0 and lines[a-2].strip().startswith('#'): a-=1
            blocks.append((a,f.end_lineno))
        ok=all(blocks[i][1]<blocks[i+1][0] for i in range(len(blocks)-1))
        if not ok: continue
        texts=['\n'.join(lines[a-1:b]) for a,b in blocks]
        keep_first=1 if fns[0].name=='__init__' else 0
        order=texts[:keep_first]+list(reversed(texts[keep_first:]))
        new='\n\n'.join(order).split('\n')
        lines[blocks[0][0]-1:blocks[-1][1]]=new
    return '\n'.join(lines)
out=sys.argv[1]; os.makedirs(out,exist_ok=True)
for name,tr in (('lockalias',lockalias),('revmethods',revmethods),('methodlocal',methodlocal)):
    d=os.path.join(out,name); shutil.rmtree(d,ignore_errors=True)
    subprocess.run(['rsync','-a','--exclude','.git','--exclude','__pycache__','--exclude','docs',REPO+'/',d+'/'],check=True)
    n=0
    for root,dirs,files in os.walk(os.path.join(d,'more_executors')):
        for f in files:
            if f.endswith('.py'):
                p=os.path.join(root,f); s=open(p).read()
                try:
                    t=tr(s); compile(t,p,'exec')
                except Exception as e:
                    print('skip',name,p,e); continue
                if t!=s: n+=1
                open(p,'w').write(t)
    print(name,'files changed',n)
