#!/usr/bin/env python3
"""tools/gen_design.py : regenerate the machine-derived parts of DESIGN.md (between the GENERATED markers):
per-property rule texts (the docstring of sa/props/cNN.py), the seeded-change table, the self-test corpus list."""
import ast, glob, json, os, re, sys
HERE = os.path.dirname(os.path.dirname(os.path.abspath(__file__)))
out = []
props = dict((json.loads(l)["id"], json.loads(l)) for l in open(os.path.join(HERE, "properties.jsonl")))
out.append("### A.1 What each check decides (module docstrings of `sa/props/cNN.py`, verbatim)\n")
for pid in sorted(props):
    src = open(os.path.join(HERE, "sa", "props", pid.lower() + ".py")).read()
    doc = ast.get_docstring(ast.parse(src)) or ""
    out.append("```\n%s\n```\n" % doc.strip())
out.append("### A.2 Breaking changes produced by independent sub-agents (`seeded/`)\n")
out.append("| seed | breaks | file(s) touched | caught by (property checks raising a violation) |")
out.append("|---|---|---|---|")
for d in sorted(glob.glob(os.path.join(HERE, "seeded", "*"))):
    name = os.path.basename(d)
    try:
        meta = json.load(open(os.path.join(d, "meta.json")))
    except Exception:
        continue
    files = sorted(set(re.findall(r"^\+\+\+ b/(\S+)", open(os.path.join(d, "patch.diff")).read(), re.M)))
    out.append("| %s | %s | %s | %s |" % (name, meta.get("property"), ", ".join(f.replace("more_executors/_impl/", "") for f in files), ", ".join(meta.get("caught_by") or [])))
out.append("")
out.append("### A.3 Self-test corpus used by the thorough tier\n")
br = sorted(glob.glob(os.path.join(HERE, "selftest", "breaking", "*.diff")))
rf = sorted(glob.glob(os.path.join(HERE, "selftest", "refactor", "*.diff")))
per = {}
for f in br:
    per.setdefault(os.path.basename(f).split("-")[0], []).append(os.path.basename(f)[4:-5])
out.append("Single-instance breaking edits (`selftest/breaking/<Cxx>-<what>.diff`, %d): " % len(br) + "; ".join("%s: %s" % (k, ", ".join(v)) for k, v in sorted(per.items())) + ".\n")
out.append("Behaviour-preserving refactorings (`selftest/refactor/R<round>-<n>.diff`, %d, written by sub-agents that saw only the library; every one keeps the pinned suite green): %s.\n" % (len(rf), ", ".join(os.path.basename(f)[:-5] for f in rf)))
text = "\n".join(out)
p = os.path.join(HERE, "DESIGN.md")
s = open(p).read()
a, b = "<!-- GENERATED:BEGIN -->", "<!-- GENERATED:END -->"
if a in s and b in s:
    s = s[:s.index(a) + len(a)] + "\n" + text + "\n" + s[s.index(b):]
    open(p, "w").write(s)
    print("DESIGN.md updated (%d lines generated)" % len(text.splitlines()))
else:
    print(text)
