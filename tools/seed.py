#!/usr/bin/env python3
"""tools/seed.py <Cxx> <n> [--keep NAME]
Confirms a sub-agent's mutant (/tmp/wt/<Cxx>/_seed/mutant<n>.diff + demo<n>.py) in a scratch copy of /repo:
demo passes on HEAD, fails with the mutant, the test-suite passes with the mutant; then runs every check in
/verif against the mutated copy (static analysis only) and reports which properties raise a violation.
With --keep the mutant is stored as /verif/seeded/<NAME>/ (patch.diff, demo, meta.json)."""
import json, os, shutil, subprocess, sys, tempfile, time
pid, n = sys.argv[1], sys.argv[2]
keep = sys.argv[sys.argv.index('--keep') + 1] if '--keep' in sys.argv else None
skip_suite = '--no-suite' in sys.argv
seed = '/tmp/wt/%s/_seed' % pid
diff = os.path.join(seed, 'mutant%s.diff' % n)
demo = os.path.join(seed, 'demo%s.py' % n)
d = tempfile.mkdtemp(prefix='seed_')
res = {}
try:
    subprocess.run(['rsync', '-a', '--exclude', '.git', '--exclude', '__pycache__', '--exclude', '*.egg-info', '/repo/', d + '/'], check=True)
    def run_demo():
        env = dict(os.environ, PYTHONPATH=d)
        try:
            r = subprocess.run(['/venv/bin/python', demo], cwd=d, env=env, capture_output=True, text=True, timeout=120)
            return r.returncode, (r.stdout + r.stderr)[-600:]
        except subprocess.TimeoutExpired:
            return 124, 'timeout'
    rc0, out0 = run_demo()
    res['demo_on_head'] = rc0
    r = subprocess.run(['patch', '-p1', '-i', diff], cwd=d, capture_output=True, text=True)
    if r.returncode != 0:
        print('PATCH FAILED', r.stdout, r.stderr); sys.exit(3)
    rc1, out1 = run_demo()
    res['demo_with_mutant'] = rc1
    if not skip_suite:
        t = time.time()
        r = subprocess.run(['/venv/bin/python', '-m', 'pytest', '-q', '-ra', '-p', 'no:cacheprovider', '--timeout=900', '-n', '6', '--deselect', 'tests/types/test_typehints.py'], cwd=d, capture_output=True, text=True)
        last = [l for l in r.stdout.splitlines() if 'passed' in l or 'failed' in l][-1:]
        res['suite_with_mutant'] = last[0] if last else r.stdout[-200:]
        failed = [l for l in r.stdout.splitlines() if l.startswith('FAILED') or l.startswith('ERROR')]
        if failed:
            res['suite_failures'] = failed[:5]
    env = dict(os.environ, VERIF_REPO=d, VERIF_NOEVIDENCE='1')
    r = subprocess.run(['python3-vt', '/verif/check.py', 'all'], env=env, capture_output=True, text=True)
    caught = {}
    for line in r.stdout.splitlines():
        if line.startswith('VIOLATION'):
            continue
        if ': rule ' in line and ' broken at ' in line:
            pass
    cur = None
    lines = r.stdout.splitlines()
    for i, line in enumerate(lines):
        if line.startswith('VIOLATION property='):
            p = line.split('property=')[1].split()[0]
            caught.setdefault(p, []).append(lines[i - 1][:260] if i else '')
        if line.startswith('ANALYSIS-ERROR'):
            caught.setdefault('ANALYSIS-ERROR', []).append(line[:260])
    res['caught_by'] = {k: v[:3] for k, v in caught.items()}
    print(json.dumps(res, indent=1))
    if keep:
        dst = '/verif/seeded/%s' % keep
        os.makedirs(dst, exist_ok=True)
        shutil.copy(diff, os.path.join(dst, 'patch.diff'))
        shutil.copy(demo, os.path.join(dst, 'demo.py'))
        notes = open(os.path.join(seed, 'notes.md')).read() if os.path.exists(os.path.join(seed, 'notes.md')) else ''
        meta = {'property': pid.split('-')[-1], 'source': 'independent sub-agent given only the property text', 'mutant': 'mutant%s' % n,
                'confirmed': res, 'ran': ['demo on HEAD copy (expect 0)', 'demo on mutated copy (expect non-zero)', 'pytest -n 8 on mutated copy', 'python3-vt check.py all with VERIF_REPO=<mutated copy>'],
                'caught_by': sorted(k for k in caught if k != 'ANALYSIS-ERROR')}
        json.dump(meta, open(os.path.join(dst, 'meta.json'), 'w'), indent=1)
        open(os.path.join(dst, 'notes.md'), 'w').write(notes)
finally:
    shutil.rmtree(d, ignore_errors=True)
